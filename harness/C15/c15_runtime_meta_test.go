package meta_test

// C15 - Channel routing metadata never regresses.
//
// Explicit-state exploration of the real channel_runtime_meta table. A pool of meta DBs is
// opened once per process on tmpfs; every instance (= every explored path) borrows one DB
// exclusively and works on a fresh channel id, so "fresh instance + replay of the path" is a
// handful of point writes. The table keeps no
// per-key cache (reads go straight to the engine; the only cache in MetaDB is the Channel
// cache, a different table), therefore the stored row read back through the API is the
// whole state and states are merged on it.
//
// Two systems run the same alphabet:
//   - runtime-meta-direct: Shard.UpsertChannelRuntimeMeta / AdvanceChannelRetentionThroughSeq /
//     DeleteChannelRuntimeMeta, create-if-absent through Batch.CreateChannelRuntimeMeta, and
//     two-write atomic batches through WriteBatch;
//   - runtime-meta-fsm: the same writes encoded as slot FSM commands (4, 5, 15, 59) and
//     applied through stateMachine.ApplyBatch (two-write batches = two commands in one
//     ApplyBatch, which also drives the "re-apply individually after a stale commit" path).
//
// The oracle is evaluated on every transition (old row, write, result, new row).

import (
	"context"
	"errors"
	"fmt"
	"os"
	"strings"
	"sync/atomic"
	"testing"

	meta "github.com/WuKongIM/WuKongIM/pkg/db/meta"
	"github.com/WuKongIM/WuKongIM/pkg/slot/fsm"
	"github.com/WuKongIM/WuKongIM/pkg/slot/multiraft"
	"github.com/WuKongIM/WuKongIM/pkg/zzverif/ev"
	"github.com/WuKongIM/WuKongIM/pkg/zzverif/mc"
)

const (
	c15PoolSize    = 48 // >= workers + instances held by violation re-execution
	c15HashSlot    = uint16(7)
	c15SlotID      = uint64(8)
	c15ChannelType = int64(2)
)

// ---------------------------------------------------------------- shared environment

// c15DB is one opened meta DB with its slot state machine. Every live instance owns one
// c15DB exclusively (taken from a pool in New, returned in Close): MetaDB's group-commit
// coordinator fails ALL requests grouped into one physical commit when one of them fails to
// build (pkg/db/internal/commit/coordinator.go, commit()), so two instances that share a DB
// would see each other's conflicts. Exclusive ownership keeps every path deterministic.
type c15DB struct {
	db  *meta.DB
	dir string
	sm  multiraft.BatchStateMachine
}

type c15Env struct {
	r       *ev.R
	pool    chan *c15DB
	all     []*c15DB
	nextID  atomic.Uint64
	cands   []c15Cand
	candIdx map[string]int
	events  []string
	// vacuity counters
	nStale, nConflict, nApplied, nClamped, nCreateExisting, nCreateNew   atomic.Int64
	nAdvApplied, nAdvConflict, nAdvNoop, nDelete, nBump, nLiteral, nPair atomic.Int64
	nFsmStale, nPair2, nPair2Failed                                      atomic.Int64
}

func c15Open(r *ev.R, n int) (*c15Env, error) {
	e := &c15Env{r: r, pool: make(chan *c15DB, n)}
	for i := 0; i < n; i++ {
		dir, err := os.MkdirTemp("/dev/shm", "verif-c15-")
		if err != nil {
			e.close()
			return nil, err
		}
		d := &c15DB{dir: dir}
		e.all = append(e.all, d)
		if d.db, err = meta.Open(dir); err != nil {
			e.close()
			return nil, err
		}
		sm, err := fsm.NewStateMachineWithHashSlots(d.db, c15SlotID, []uint16{c15HashSlot})
		if err != nil {
			e.close()
			return nil, err
		}
		bsm, ok := sm.(multiraft.BatchStateMachine)
		if !ok {
			e.close()
			return nil, errors.New("slot state machine does not implement ApplyBatch")
		}
		d.sm = bsm
		e.pool <- d
	}
	return e, nil
}

func (e *c15Env) close() {
	for _, d := range e.all {
		if d.db != nil {
			d.db.Close()
		}
		os.RemoveAll(d.dir)
	}
}

// ---------------------------------------------------------------- candidate menu

type c15Cand struct {
	label string
	m     meta.ChannelRuntimeMeta // ChannelID / ChannelType filled per instance
}

type c15Aspect struct {
	name string
	fn   func(*meta.ChannelRuntimeMeta)
}

func c15Aspects(thorough bool) []c15Aspect {
	all := c15AllAspects()
	if thorough {
		return all
	}
	quick := map[string]bool{"base": true, "ret5t50": true, "ret9t40": true, "fence1t1": true, "fence2t2": true,
		"fence2clear": true, "rg4": true, "rg9": true, "isr12": true, "status2": true}
	var out []c15Aspect
	for _, a := range all {
		if quick[a.name] {
			out = append(out, a)
		}
	}
	return out
}

func c15AllAspects() []c15Aspect {
	as := []c15Aspect{
		{"base", func(m *meta.ChannelRuntimeMeta) {}},
		{"ret5t50", func(m *meta.ChannelRuntimeMeta) { m.RetentionThroughSeq, m.RetentionUpdatedAtMS = 5, 50 }},
		{"ret9t40", func(m *meta.ChannelRuntimeMeta) { m.RetentionThroughSeq, m.RetentionUpdatedAtMS = 9, 40 }},
		{"ret5t30", func(m *meta.ChannelRuntimeMeta) { m.RetentionThroughSeq, m.RetentionUpdatedAtMS = 5, 30 }},
		{"fence1t1", func(m *meta.ChannelRuntimeMeta) {
			m.WriteFenceToken, m.WriteFenceVersion, m.WriteFenceReason, m.WriteFenceUntilMS = "t1", 1, 1, 500
		}},
		{"fence2t2", func(m *meta.ChannelRuntimeMeta) {
			m.WriteFenceToken, m.WriteFenceVersion, m.WriteFenceReason, m.WriteFenceUntilMS = "t2", 2, 2, 400
		}},
		{"fence2clear", func(m *meta.ChannelRuntimeMeta) { m.WriteFenceVersion = 2 }},
		{"fence1tx", func(m *meta.ChannelRuntimeMeta) {
			m.WriteFenceToken, m.WriteFenceVersion, m.WriteFenceReason, m.WriteFenceUntilMS = "tx", 1, 2, 600
		}},
		{"rg1", func(m *meta.ChannelRuntimeMeta) { m.RouteGeneration = 1 }},
		{"rg4", func(m *meta.ChannelRuntimeMeta) { m.RouteGeneration = 4 }},
		{"rg9", func(m *meta.ChannelRuntimeMeta) { m.RouteGeneration = 9 }},
		{"isr12", func(m *meta.ChannelRuntimeMeta) { m.ISR = []uint64{1, 2} }},
		{"rep1234", func(m *meta.ChannelRuntimeMeta) { m.Replicas = []uint64{1, 2, 3, 4} }},
		{"status2", func(m *meta.ChannelRuntimeMeta) { m.Status = 2 }},
		{"minisr1", func(m *meta.ChannelRuntimeMeta) { m.MinISR = 1 }},
	}
	{
		as = append(as,
			c15Aspect{"ret9t40fence2t2", func(m *meta.ChannelRuntimeMeta) {
				m.RetentionThroughSeq, m.RetentionUpdatedAtMS = 9, 40
				m.WriteFenceToken, m.WriteFenceVersion, m.WriteFenceReason, m.WriteFenceUntilMS = "t2", 2, 2, 400
			}},
			c15Aspect{"rg4status2", func(m *meta.ChannelRuntimeMeta) { m.RouteGeneration = 4; m.Status = 2 }},
		)
	}
	return as
}

func c15Candidates(thorough bool) []c15Cand {
	epochs := []uint64{1, 2}
	leases := []int64{100, 200}
	var out []c15Cand
	for _, ce := range epochs {
		for _, le := range epochs {
			for _, leader := range []uint64{1, 2} {
				for _, lease := range leases {
					for _, a := range c15Aspects(thorough) {
						m := meta.ChannelRuntimeMeta{
							ChannelEpoch: ce, LeaderEpoch: le, Leader: leader, LeaseUntilMS: lease,
							Replicas: []uint64{1, 2, 3}, ISR: []uint64{1, 2, 3}, MinISR: 2, Status: 1, Features: 1,
						}
						a.fn(&m)
						out = append(out, c15Cand{label: fmt.Sprintf("e%d.l%d.L%d.s%d.%s", ce, le, leader, lease, a.name), m: m})
					}
				}
			}
		}
	}
	return out
}

// labels of the candidates used for create-if-absent and for the two-write batches
func c15CreateLabels(cands []c15Cand) []string {
	var out []string
	for _, c := range cands {
		if strings.HasSuffix(c.label, ".base") || strings.HasSuffix(c.label, ".fence2t2") || strings.HasSuffix(c.label, ".rg9") {
			if strings.Contains(c.label, ".s100.") {
				out = append(out, c.label)
			}
		}
	}
	return out
}

var c15PairMenu = []string{
	"e1.l1.L1.s100.base", "e1.l1.L2.s100.base", "e1.l2.L1.s200.ret5t50", "e2.l1.L2.s100.fence1t1",
	"e2.l2.L1.s100.rg4", "e1.l2.L1.s100.status2",
}

var c15AdvKinds = []string{"match", "epoch+1", "leaderepoch-up", "otherleader", "lease+1"}

func (e *c15Env) buildAlphabet(thorough bool) {
	e.cands = c15Candidates(thorough)
	e.candIdx = map[string]int{}
	for i, c := range e.cands {
		e.candIdx[c.label] = i
	}
	evs := []string{"delete"}
	for _, c := range e.cands {
		evs = append(evs, "upsert:"+c.label)
	}
	for _, l := range c15CreateLabels(e.cands) {
		evs = append(evs, "create:"+l)
	}
	for _, seq := range []uint64{3, 5, 9} {
		for _, ts := range []int64{45, 60} {
			evs = append(evs, fmt.Sprintf("advance:match:%d:%d", seq, ts))
		}
	}
	for _, k := range c15AdvKinds[1:] {
		evs = append(evs, fmt.Sprintf("advance:%s:9:60", k))
	}
	for _, a := range c15PairMenu {
		for _, b := range c15PairMenu {
			evs = append(evs, "pair:"+a+"+"+b)
		}
	}
	e.events = evs
}

// ---------------------------------------------------------------- drivers

type c15Driver interface {
	// result classes: "applied" | "stale" | "conflict" (direct), "ok" | "stale_meta" (fsm)
	upsert(in *c15Inst, m meta.ChannelRuntimeMeta) (string, error)
	create(in *c15Inst, m meta.ChannelRuntimeMeta) (created bool, err error)
	advance(in *c15Inst, req meta.ChannelRetentionAdvance) (string, error)
	del(in *c15Inst) (string, error)
	pair(in *c15Inst, a, b meta.ChannelRuntimeMeta) (string, error)
}

type c15Direct struct{}

func (c15Direct) upsert(in *c15Inst, m meta.ChannelRuntimeMeta) (string, error) {
	res, err := in.shard().UpsertChannelRuntimeMeta(context.Background(), m)
	switch {
	case res == meta.MonotonicApplied && err == nil:
		return "applied", nil
	case res == meta.MonotonicIgnoredStale && err == nil:
		return "stale", nil
	case res == meta.MonotonicConflict && errors.Is(err, meta.ErrStaleMeta):
		return "conflict", nil
	}
	return "", fmt.Errorf("upsert returned result=%d err=%v", res, err)
}

func (c15Direct) create(in *c15Inst, m meta.ChannelRuntimeMeta) (bool, error) {
	b := in.d.db.MetaDB().NewBatch()
	defer b.Close()
	res, err := b.CreateChannelRuntimeMeta(in.hs, m)
	if err != nil {
		return false, err
	}
	if err := b.Commit(context.Background()); err != nil {
		return false, err
	}
	return res.Created, nil
}

func (c15Direct) advance(in *c15Inst, req meta.ChannelRetentionAdvance) (string, error) {
	err := in.shard().AdvanceChannelRetentionThroughSeq(context.Background(), req)
	switch {
	case err == nil:
		return "ok", nil
	case errors.Is(err, meta.ErrStaleMeta):
		return "conflict", nil
	case errors.Is(err, meta.ErrNotFound):
		return "notfound", nil
	}
	return "", err
}

func (c15Direct) del(in *c15Inst) (string, error) {
	err := in.shard().DeleteChannelRuntimeMeta(context.Background(), in.chID, c15ChannelType)
	switch {
	case err == nil:
		return "ok", nil
	case errors.Is(err, meta.ErrNotFound):
		return "notfound", nil
	}
	return "", err
}

func (c15Direct) pair(in *c15Inst, a, b meta.ChannelRuntimeMeta) (string, error) {
	wb := in.d.db.NewWriteBatch()
	defer wb.Close()
	if err := wb.UpsertChannelRuntimeMeta(in.hs, a); err != nil {
		return "", err
	}
	if err := wb.UpsertChannelRuntimeMeta(in.hs, b); err != nil {
		return "", err
	}
	err := wb.Commit()
	switch {
	case err == nil:
		return "ok", nil
	case errors.Is(err, meta.ErrStaleMeta):
		return "conflict", nil
	}
	return "", err
}

type c15FSM struct{}

func (c15FSM) apply(in *c15Inst, datas ...[]byte) ([]string, error) {
	cmds := make([]multiraft.Command, len(datas))
	for i, d := range datas {
		cmds[i] = multiraft.Command{SlotID: multiraft.SlotID(c15SlotID), HashSlot: in.hs, Data: d}
	}
	res, err := in.d.sm.ApplyBatch(context.Background(), cmds)
	if err != nil {
		return nil, err
	}
	out := make([]string, len(res))
	for i, b := range res {
		out[i] = string(b)
	}
	return out, nil
}

func (d c15FSM) upsert(in *c15Inst, m meta.ChannelRuntimeMeta) (string, error) {
	res, err := d.apply(in, fsm.EncodeUpsertChannelRuntimeMetaCommand(m))
	if err != nil {
		return "", err
	}
	if res[0] != fsm.ApplyResultOK && res[0] != fsm.ApplyResultStaleMeta {
		return "", fmt.Errorf("upsert command result %q", res[0])
	}
	return res[0], nil
}

func (d c15FSM) create(in *c15Inst, m meta.ChannelRuntimeMeta) (bool, error) {
	data, err := fsm.EncodeCreateChannelRuntimeMetaBatchCommandChecked([]fsm.CreateChannelRuntimeMetaBatchItem{{HashSlot: in.hs, Meta: m}})
	if err != nil {
		return false, err
	}
	res, err := d.apply(in, data)
	if err != nil {
		return false, err
	}
	outs, err := fsm.DecodeCreateChannelRuntimeMetaBatchResult([]byte(res[0]))
	if err != nil || len(outs) != 1 || outs[0].ChannelID != m.ChannelID {
		return false, fmt.Errorf("create command result %q: %v", res[0], err)
	}
	return outs[0].Created, nil
}

func (d c15FSM) advance(in *c15Inst, req meta.ChannelRetentionAdvance) (string, error) {
	res, err := d.apply(in, fsm.EncodeAdvanceChannelRetentionThroughSeqCommand(req))
	if err != nil {
		return "", err
	}
	switch res[0] {
	case fsm.ApplyResultOK:
		return "ok", nil
	case fsm.ApplyResultStaleMeta:
		return "conflict", nil // stale fence and missing row are both reported as stale_meta
	}
	return "", fmt.Errorf("advance command result %q", res[0])
}

func (d c15FSM) del(in *c15Inst) (string, error) {
	res, err := d.apply(in, fsm.EncodeDeleteChannelRuntimeMetaCommand(in.chID, c15ChannelType))
	if err != nil {
		return "", err
	}
	if res[0] != fsm.ApplyResultOK {
		return "", fmt.Errorf("delete command result %q", res[0])
	}
	return "ok", nil
}

func (d c15FSM) pair(in *c15Inst, a, b meta.ChannelRuntimeMeta) (string, error) {
	res, err := d.apply(in, fsm.EncodeUpsertChannelRuntimeMetaCommand(a), fsm.EncodeUpsertChannelRuntimeMetaCommand(b))
	if err != nil {
		return "", err
	}
	return strings.Join(res, "+"), nil
}

// ---------------------------------------------------------------- instance

type c15Inst struct {
	env    *c15Env
	d      *c15DB
	drv    c15Driver
	direct bool
	id     uint64
	hs     uint16
	chID   string
	// last read-back
	row    meta.ChannelRuntimeMeta
	exists bool
	dirty  bool // a row may exist under chID (cleanup needed)
	steps  int  // events applied on this instance
}

func (e *c15Env) newInst(drv c15Driver, direct bool) *c15Inst {
	id := e.nextID.Add(1)
	return &c15Inst{env: e, d: <-e.pool, drv: drv, direct: direct, id: id, hs: c15HashSlot, chID: fmt.Sprintf("c15-%09d", id)}
}

func (in *c15Inst) shard() *meta.Shard { return in.d.db.MetaDB().HashSlot(in.hs) }

func (in *c15Inst) Events() []string { return in.env.events }

func (in *c15Inst) read() (meta.ChannelRuntimeMeta, bool, error) {
	return in.shard().GetChannelRuntimeMeta(context.Background(), in.chID, c15ChannelType)
}

func (in *c15Inst) Close() {
	if in.d == nil {
		return
	}
	if in.dirty {
		_ = in.shard().DeleteChannelRuntimeMeta(context.Background(), in.chID, c15ChannelType)
	}
	in.env.pool <- in.d
	in.d = nil
}

func c15Row(m meta.ChannelRuntimeMeta, exists bool) string {
	if !exists {
		return "absent"
	}
	return fmt.Sprintf("ce=%d le=%d L=%d lease=%d rg=%d rep=%v isr=%v min=%d st=%d feat=%d ret=%d/%d fence=%q/%d/%d/%d dir=%d",
		m.ChannelEpoch, m.LeaderEpoch, m.Leader, m.LeaseUntilMS, m.RouteGeneration, m.Replicas, m.ISR, m.MinISR, m.Status, m.Features,
		m.RetentionThroughSeq, m.RetentionUpdatedAtMS, m.WriteFenceToken, m.WriteFenceVersion, m.WriteFenceReason, m.WriteFenceUntilMS, m.DirectoryGeneration)
}

func (in *c15Inst) Canon() string { return c15Row(in.row, in.exists) }

func (in *c15Inst) Check() error { return nil }

func c15EqU64(a, b []uint64) bool {
	if len(a) != len(b) {
		return false
	}
	for i := range a {
		if a[i] != b[i] {
			return false
		}
	}
	return true
}

// c15ListedChange: did any field the property lists (leader, replicas, ISR, status, lease,
// retention, fence) change?
func c15ListedChange(o, n meta.ChannelRuntimeMeta) []string {
	var ch []string
	if o.Leader != n.Leader {
		ch = append(ch, "leader")
	}
	if !c15EqU64(o.Replicas, n.Replicas) {
		ch = append(ch, "replicas")
	}
	if !c15EqU64(o.ISR, n.ISR) {
		ch = append(ch, "isr")
	}
	if o.Status != n.Status {
		ch = append(ch, "status")
	}
	if o.LeaseUntilMS != n.LeaseUntilMS {
		ch = append(ch, "lease")
	}
	if o.RetentionThroughSeq != n.RetentionThroughSeq || o.RetentionUpdatedAtMS != n.RetentionUpdatedAtMS {
		ch = append(ch, "retention")
	}
	if o.WriteFenceToken != n.WriteFenceToken || o.WriteFenceVersion != n.WriteFenceVersion ||
		o.WriteFenceReason != n.WriteFenceReason || o.WriteFenceUntilMS != n.WriteFenceUntilMS {
		ch = append(ch, "fence")
	}
	return ch
}

// monotone evaluates the "only moves forward" part of the property on one transition between
// two stored rows of the same incarnation (no delete in between).
func (in *c15Inst) monotone(evl string, o, n meta.ChannelRuntimeMeta) error {
	tr := func() string { return fmt.Sprintf("%s: {%s} -> {%s}", evl, c15Row(o, true), c15Row(n, true)) }
	if n.ChannelEpoch < o.ChannelEpoch {
		return mc.Violatef("C15:channel-epoch-decreased", "channel epoch decreased; %s", tr())
	}
	var literal error // reported last, so that it never masks another kind of regression
	if n.LeaderEpoch < o.LeaderEpoch {
		if n.ChannelEpoch == o.ChannelEpoch {
			return mc.Violatef("C15:leader-epoch-decreased", "leader epoch decreased under an unchanged channel epoch; %s", tr())
		}
		in.env.nLiteral.Add(1)
		// The same finding on longer histories is counted, not re-reported (the engine re-executes
		// every reported violation twice, and the fingerprint is already on record from the
		// two-write histories). The decision depends only on the path length, so replays agree.
		if in.steps <= 2 {
			literal = mc.Violatef("C15:leader-epoch-decreased-under-higher-channel-epoch", "accepted write raised the channel epoch and lowered the leader epoch; %s", tr())
		}
	}
	if n.ChannelEpoch == o.ChannelEpoch && n.LeaderEpoch == o.LeaderEpoch {
		if n.Leader != o.Leader {
			return mc.Violatef("C15:same-epoch-leader-switch", "leader switched within one (channel epoch, leader epoch); %s", tr())
		}
		if n.LeaseUntilMS < o.LeaseUntilMS {
			return mc.Violatef("C15:same-epoch-lease-shortened", "leader lease shortened within one (channel epoch, leader epoch); %s", tr())
		}
	}
	if n.RetentionThroughSeq < o.RetentionThroughSeq {
		return mc.Violatef("C15:retention-decreased", "retention boundary decreased; %s", tr())
	}
	if n.WriteFenceVersion < o.WriteFenceVersion {
		return mc.Violatef("C15:fence-version-decreased", "write-fence version decreased; %s", tr())
	}
	if n.RouteGeneration < o.RouteGeneration {
		return mc.Violatef("C15:route-generation-decreased", "route generation decreased; %s", tr())
	}
	if ch := c15ListedChange(o, n); len(ch) > 0 {
		if n.RouteGeneration <= o.RouteGeneration {
			return mc.Violatef("C15:route-change-without-generation-bump", "%s changed but the route generation did not strictly increase; %s", strings.Join(ch, ","), tr())
		}
		in.env.nBump.Add(1)
	}
	return literal
}

func (in *c15Inst) unchanged(fp, evl, why string, o meta.ChannelRuntimeMeta, oex bool, n meta.ChannelRuntimeMeta, nex bool) error {
	if c15Row(o, oex) != c15Row(n, nex) {
		return mc.Violatef(fp, "%s: %s but the stored row changed: {%s} -> {%s}", evl, why, c15Row(o, oex), c15Row(n, nex))
	}
	return nil
}

func (in *c15Inst) cand(label string) meta.ChannelRuntimeMeta {
	i, ok := in.env.candIdx[label]
	if !ok {
		panic("unknown candidate " + label)
	}
	m := in.env.cands[i].m
	m.ChannelID, m.ChannelType = in.chID, c15ChannelType
	m.Replicas = append([]uint64(nil), m.Replicas...)
	m.ISR = append([]uint64(nil), m.ISR...)
	return m
}

func (in *c15Inst) infra(evl string, err error) (string, error) {
	in.env.r.HarnessError("C15 %s on %s: unexpected error: %v", evl, in.chID, err)
	return "infra-error", nil
}

func (in *c15Inst) Apply(evl string, _ *mc.Env) (string, error) {
	o, oex, err := in.read()
	if err != nil {
		return in.infra(evl, err)
	}
	in.dirty = true
	in.steps++
	parts := strings.SplitN(evl, ":", 2)
	obs := ""
	var verr error
	// check runs after the write with the freshly read row
	var check func(n meta.ChannelRuntimeMeta, nex bool) error
	switch parts[0] {
	case "upsert":
		c := in.cand(parts[1])
		res, err := in.drv.upsert(in, c)
		if err != nil {
			return in.infra(evl, err)
		}
		obs = "upsert-" + res
		check = func(n meta.ChannelRuntimeMeta, nex bool) error {
			if !nex {
				return mc.Violatef("C15:upsert-left-no-row", "%s: no row stored after an upsert (before: {%s})", evl, c15Row(o, oex))
			}
			if !oex {
				if res != "applied" && res != "ok" {
					return mc.Violatef("C15:first-write-not-applied", "%s: first write on an absent row reported %s", evl, res)
				}
				return nil
			}
			// the property's own classification of a regressing write
			regress := ""
			switch {
			case c.ChannelEpoch < o.ChannelEpoch:
				regress = "older channel epoch"
			case c.ChannelEpoch == o.ChannelEpoch && c.LeaderEpoch < o.LeaderEpoch:
				regress = "older leader epoch"
			case c.ChannelEpoch == o.ChannelEpoch && c.LeaderEpoch == o.LeaderEpoch && c.Leader != o.Leader:
				regress = "same-epoch leader switch"
			}
			if regress != "" {
				if err := in.unchanged("C15:regressing-write-changed-row", evl, "write carries an "+regress, o, oex, n, nex); err != nil {
					return err
				}
				if in.direct && res != "stale" && res != "conflict" {
					return mc.Violatef("C15:regressing-write-not-reported", "%s: write carries an %s over {%s} but was reported %s", evl, regress, c15Row(o, oex), res)
				}
			}
			if res == "stale" || res == "conflict" || res == fsm.ApplyResultStaleMeta {
				if err := in.unchanged("C15:stale-or-conflict-result-changed-row", evl, "result "+res, o, oex, n, nex); err != nil {
					return err
				}
			}
			switch res {
			case "stale":
				in.env.nStale.Add(1)
			case "conflict":
				in.env.nConflict.Add(1)
			case fsm.ApplyResultStaleMeta:
				in.env.nFsmStale.Add(1)
			default:
				in.env.nApplied.Add(1)
				if c15Row(n, true) != c15Row(o, true) && (n.LeaseUntilMS > c.LeaseUntilMS || n.RetentionThroughSeq > c.RetentionThroughSeq || n.WriteFenceVersion > c.WriteFenceVersion) {
					in.env.nClamped.Add(1)
				}
			}
			return in.monotone(evl, o, n)
		}
	case "create":
		c := in.cand(parts[1])
		created, err := in.drv.create(in, c)
		if err != nil {
			return in.infra(evl, err)
		}
		obs = fmt.Sprintf("create-%v", created)
		check = func(n meta.ChannelRuntimeMeta, nex bool) error {
			if oex {
				in.env.nCreateExisting.Add(1)
				if created {
					return mc.Violatef("C15:create-if-absent-reported-created-on-existing-row", "%s: Created=true over {%s}", evl, c15Row(o, oex))
				}
				return in.unchanged("C15:create-if-absent-overwrote-row", evl, "create-if-absent on an existing row", o, oex, n, nex)
			}
			in.env.nCreateNew.Add(1)
			if !nex || !created {
				return mc.Violatef("C15:create-if-absent-did-not-create", "%s: absent row, created=%v, row after: {%s}", evl, created, c15Row(n, nex))
			}
			return nil
		}
	case "advance":
		f := strings.Split(parts[1], ":")
		var seq uint64
		var ts int64
		fmt.Sscanf(f[1], "%d", &seq)
		fmt.Sscanf(f[2], "%d", &ts)
		req := meta.ChannelRetentionAdvance{ChannelID: in.chID, ChannelType: c15ChannelType,
			ExpectedChannelEpoch: o.ChannelEpoch, ExpectedLeaderEpoch: o.LeaderEpoch, ExpectedLeader: o.Leader, ExpectedLeaseUntilMS: o.LeaseUntilMS,
			RetentionThroughSeq: seq, RetentionUpdatedAtMS: ts}
		if !oex {
			req.ExpectedChannelEpoch, req.ExpectedLeaderEpoch, req.ExpectedLeader, req.ExpectedLeaseUntilMS = 1, 1, 1, 100
		}
		switch f[0] {
		case "epoch+1":
			req.ExpectedChannelEpoch++
		case "leaderepoch-up":
			req.ExpectedLeaderEpoch++
		case "otherleader":
			req.ExpectedLeader = 3 - req.ExpectedLeader
		case "lease+1":
			req.ExpectedLeaseUntilMS++
		}
		res, err := in.drv.advance(in, req)
		if err != nil {
			return in.infra(evl, err)
		}
		obs = "advance-" + f[0] + "-" + res
		check = func(n meta.ChannelRuntimeMeta, nex bool) error {
			if !oex {
				if nex {
					return mc.Violatef("C15:retention-advance-created-row", "%s: retention advance created a row: {%s}", evl, c15Row(n, nex))
				}
				return nil
			}
			if !nex {
				return mc.Violatef("C15:retention-advance-removed-row", "%s: row disappeared (before: {%s})", evl, c15Row(o, oex))
			}
			if f[0] != "match" {
				in.env.nAdvConflict.Add(1)
				if res != "conflict" {
					return mc.Violatef("C15:stale-retention-advance-not-refused", "%s: advance behind a stale fence (%s) over {%s} reported %s", evl, f[0], c15Row(o, oex), res)
				}
			}
			if res == "conflict" {
				if err := in.unchanged("C15:stale-or-conflict-result-changed-row", evl, "result conflict", o, oex, n, nex); err != nil {
					return err
				}
			}
			if f[0] == "match" {
				if seq > o.RetentionThroughSeq {
					in.env.nAdvApplied.Add(1)
				} else {
					in.env.nAdvNoop.Add(1)
					if err := in.unchanged("C15:non-advancing-retention-changed-row", evl, "retention request does not advance the boundary", o, oex, n, nex); err != nil {
						return err
					}
				}
			}
			return in.monotone(evl, o, n)
		}
	case "delete":
		res, err := in.drv.del(in)
		if err != nil {
			return in.infra(evl, err)
		}
		obs = "delete-" + res
		check = func(n meta.ChannelRuntimeMeta, nex bool) error {
			in.env.nDelete.Add(1)
			if nex {
				return mc.Violatef("C15:delete-left-row", "%s: row still stored after delete: {%s}", evl, c15Row(n, nex))
			}
			return nil
		}
	case "pair":
		ab := strings.Split(parts[1], "+")
		res, err := in.drv.pair(in, in.cand(ab[0]), in.cand(ab[1]))
		if err != nil {
			return in.infra(evl, err)
		}
		obs = "pair-" + res
		check = func(n meta.ChannelRuntimeMeta, nex bool) error {
			in.env.nPair.Add(1)
			if !nex {
				if oex || res != "conflict" { // only a failed atomic batch on an absent row may leave nothing
					return mc.Violatef("C15:upsert-left-no-row", "%s: no row stored after a two-write batch reported %s (before: {%s})", evl, res, c15Row(o, oex))
				}
				return nil
			}
			if !oex {
				return nil
			}
			if res == "conflict" { // direct WriteBatch: the whole atomic batch failed
				if err := in.unchanged("C15:stale-or-conflict-result-changed-row", evl, "atomic batch reported conflict", o, oex, n, nex); err != nil {
					return err
				}
			}
			return in.monotone(evl, o, n)
		}
	default:
		panic("unknown event " + evl)
	}
	n, nex, err := in.read()
	if err != nil {
		return in.infra(evl, err)
	}
	in.row, in.exists = n, nex
	verr = check(n, nex)
	if verr != nil {
		return obs, verr
	}
	if c15Row(o, oex) == c15Row(n, nex) {
		obs += "/unchanged"
	} else {
		obs += "/changed"
	}
	return obs, nil
}

// ---------------------------------------------------------------- same-channel write pairs in ONE batch

// The pairs systems stage two writes to the SAME channel into one atomic batch (direct: one
// WriteBatch; fsm: two commands in one ApplyBatch) and compare the stored row with a shadow
// channel that received the same two writes in separate batches. The per-commit runtime-meta
// cache (batchCommitState.runtimeMeta) must make the second write see the first.

type c15Op struct {
	kind string // upsert create advance delete
	m    meta.ChannelRuntimeMeta
	req  meta.ChannelRetentionAdvance
}

func (o c15Op) onChannel(id string) c15Op {
	o.m.ChannelID, o.req.ChannelID = id, id
	o.m.Replicas = append([]uint64(nil), o.m.Replicas...)
	o.m.ISR = append([]uint64(nil), o.m.ISR...)
	return o
}

// c15BatchDirect: result class, failed (= nothing applied, the batch is atomic), error
func c15BatchDirect(d *c15DB, ops []c15Op) (string, bool, error) {
	wb := d.db.NewWriteBatch()
	defer wb.Close()
	var created []*meta.ChannelRuntimeMetaCreateResult
	for _, o := range ops {
		var err error
		switch o.kind {
		case "upsert":
			err = wb.UpsertChannelRuntimeMeta(c15HashSlot, o.m)
		case "create":
			var cr *meta.ChannelRuntimeMetaCreateResult
			cr, err = wb.CreateChannelRuntimeMeta(c15HashSlot, o.m)
			created = append(created, cr)
		case "advance":
			err = wb.AdvanceChannelRetentionThroughSeq(c15HashSlot, o.req)
		case "delete":
			err = wb.DeleteChannelRuntimeMeta(c15HashSlot, o.m.ChannelID, o.m.ChannelType)
		}
		if err != nil {
			return "", false, err
		}
	}
	err := wb.Commit()
	switch {
	case err == nil:
		res := "ok"
		for _, c := range created {
			res += fmt.Sprintf("/created=%v", c.Created)
		}
		return res, false, nil
	case errors.Is(err, meta.ErrStaleMeta):
		return "conflict", true, nil
	case errors.Is(err, meta.ErrNotFound):
		return "notfound", true, nil
	}
	return "", false, err
}

func c15BatchFSM(d *c15DB, ops []c15Op) (string, bool, error) {
	cmds := make([]multiraft.Command, len(ops))
	for i, o := range ops {
		var data []byte
		switch o.kind {
		case "upsert":
			data = fsm.EncodeUpsertChannelRuntimeMetaCommand(o.m)
		case "create":
			var err error
			if data, err = fsm.EncodeCreateChannelRuntimeMetaBatchCommandChecked([]fsm.CreateChannelRuntimeMetaBatchItem{{HashSlot: c15HashSlot, Meta: o.m}}); err != nil {
				return "", false, err
			}
		case "advance":
			data = fsm.EncodeAdvanceChannelRetentionThroughSeqCommand(o.req)
		case "delete":
			data = fsm.EncodeDeleteChannelRuntimeMetaCommand(o.m.ChannelID, o.m.ChannelType)
		}
		cmds[i] = multiraft.Command{SlotID: multiraft.SlotID(c15SlotID), HashSlot: c15HashSlot, Data: data}
	}
	res, err := d.sm.ApplyBatch(context.Background(), cmds)
	if err != nil {
		return "", false, err
	}
	parts := make([]string, len(res))
	for i, b := range res {
		parts[i] = string(b)
		if ops[i].kind == "create" {
			outs, err := fsm.DecodeCreateChannelRuntimeMetaBatchResult(b)
			if err != nil || len(outs) != 1 {
				return "", false, fmt.Errorf("create command result %q: %v", b, err)
			}
			parts[i] = fmt.Sprintf("created=%v", outs[0].Created)
		}
	}
	return strings.Join(parts, "+"), false, nil
}

var c15PairSingles = []string{"up=e1.l1.L1.s100.base", "up=e1.l1.L1.s100.ret5t50", "up=e1.l2.L1.s200.base", "up=e2.l1.L2.s100.fence1t1",
	"del", "adv=hi", "adv=mid", "renew", "leaderepoch-up", "status"}
var c15PairFirst = []string{"adv=hi", "adv=mid", "adv=stale"}
var c15PairSecond = []string{"adv=hi", "adv=mid", "adv=lo", "adv=stale", "renew", "leaderepoch-up", "status", "samegen", "create", "del"}
var c15PairOtherFirst = []string{"renew", "leaderepoch-up", "status", "samegen", "create", "del"}

func c15PairEvents() []string {
	var evs []string
	for _, s := range c15PairSingles {
		evs = append(evs, "one:"+s)
	}
	for _, a := range c15PairFirst {
		for _, b := range c15PairSecond {
			evs = append(evs, "two:"+a+"+"+b)
		}
	}
	for _, a := range c15PairOtherFirst {
		for _, b := range []string{"adv=hi", "adv=stale"} {
			evs = append(evs, "two:"+a+"+"+b)
		}
	}
	return evs
}

type c15PairInst struct {
	c15Inst
	evs      []string
	batch    func(*c15DB, []c15Op) (string, bool, error)
	seqSplit bool // fsm: the reference results are compared command by command
	shadowID string
	srow     meta.ChannelRuntimeMeta
	sexists  bool
}

func (in *c15PairInst) Events() []string { return in.evs }

func (in *c15PairInst) Close() {
	if in.d == nil {
		return
	}
	if in.dirty {
		_ = in.shard().DeleteChannelRuntimeMeta(context.Background(), in.shadowID, c15ChannelType)
	}
	in.c15Inst.Close()
}

func (in *c15PairInst) Canon() string {
	return c15Row(in.row, in.exists) + " | shadow " + c15Row(in.srow, in.sexists)
}

// op builds one write relative to the row stored BEFORE the batch (o, oex)
func (in *c15PairInst) op(tok string, o meta.ChannelRuntimeMeta, oex bool) c15Op {
	base := meta.ChannelRuntimeMeta{ChannelID: in.chID, ChannelType: c15ChannelType, ChannelEpoch: 1, LeaderEpoch: 1, Leader: 1, LeaseUntilMS: 100,
		Replicas: []uint64{1, 2, 3}, ISR: []uint64{1, 2, 3}, MinISR: 2, Status: 1, Features: 1}
	if oex {
		base.ChannelEpoch, base.LeaderEpoch, base.Leader, base.LeaseUntilMS = o.ChannelEpoch, o.LeaderEpoch, o.Leader, o.LeaseUntilMS
	}
	adv := func(seq uint64, ts int64, leaseDelta int64) c15Op {
		return c15Op{kind: "advance", req: meta.ChannelRetentionAdvance{ChannelID: in.chID, ChannelType: c15ChannelType,
			ExpectedChannelEpoch: base.ChannelEpoch, ExpectedLeaderEpoch: base.LeaderEpoch, ExpectedLeader: base.Leader,
			ExpectedLeaseUntilMS: base.LeaseUntilMS + leaseDelta, RetentionThroughSeq: seq, RetentionUpdatedAtMS: ts}}
	}
	switch {
	case strings.HasPrefix(tok, "up="):
		return c15Op{kind: "upsert", m: in.cand(tok[3:])}
	case tok == "del":
		return c15Op{kind: "delete", m: base}
	case tok == "create":
		m := in.cand("e1.l1.L1.s100.base")
		return c15Op{kind: "create", m: m}
	case tok == "adv=hi":
		return adv(o.RetentionThroughSeq+7, 60, 0)
	case tok == "adv=mid":
		return adv(o.RetentionThroughSeq+4, 45, 0)
	case tok == "adv=lo":
		return adv(o.RetentionThroughSeq+2, 44, 0)
	case tok == "adv=stale":
		return adv(o.RetentionThroughSeq+9, 61, 1)
	case tok == "renew": // same-epoch upsert: lease renewal, carries no retention
		base.LeaseUntilMS += 100
		return c15Op{kind: "upsert", m: base}
	case tok == "leaderepoch-up":
		base.LeaderEpoch++
		base.Leader = 3 - base.Leader
		return c15Op{kind: "upsert", m: base}
	case tok == "status":
		base.Status = 2
		return c15Op{kind: "upsert", m: base}
	case tok == "samegen": // explicit route generation == the generation stored before the batch
		base.LeaseUntilMS += 50
		base.RouteGeneration = o.RouteGeneration
		if !oex {
			base.RouteGeneration = 1
		}
		return c15Op{kind: "upsert", m: base}
	}
	panic("unknown op " + tok)
}

func (in *c15PairInst) Apply(evl string, _ *mc.Env) (string, error) {
	o, oex := in.row, in.exists
	in.dirty = true
	in.steps++
	f := strings.SplitN(evl, ":", 2)
	toks := strings.Split(f[1], "+")
	var ops, sops []c15Op
	hasDelete := false
	for _, tk := range toks {
		op := in.op(tk, o, oex)
		ops = append(ops, op.onChannel(in.chID))
		sops = append(sops, op.onChannel(in.shadowID))
		hasDelete = hasDelete || op.kind == "delete"
	}
	res, failed, err := in.batch(in.d, ops)
	if err != nil {
		return in.infra(evl, err)
	}
	var seqRes []string
	if !failed { // reference: the same writes, each in its own batch
		for _, so := range sops {
			sr, _, serr := in.batch(in.d, []c15Op{so})
			if serr != nil {
				return in.infra(evl, serr)
			}
			seqRes = append(seqRes, sr)
		}
	}
	n, nex, err := in.read()
	if err != nil {
		return in.infra(evl, err)
	}
	sn, snex, err := in.shard().GetChannelRuntimeMeta(context.Background(), in.shadowID, c15ChannelType)
	if err != nil {
		return in.infra(evl, err)
	}
	in.row, in.exists, in.srow, in.sexists = n, nex, sn, snex
	obs := f[0] + "-" + res
	if len(ops) > 1 {
		in.env.nPair2.Add(1)
		if failed {
			in.env.nPair2Failed.Add(1)
		}
	}
	if c15Row(n, nex) != c15Row(sn, snex) {
		return obs, mc.Violatef("C15:atomic-batch-differs-from-sequential-writes", "%s: row after the atomic batch {%s} differs from the row after the same writes in separate batches {%s} (before: {%s})", evl, c15Row(n, nex), c15Row(sn, snex), c15Row(o, oex))
	}
	if in.seqSplit && !failed && res != strings.Join(seqRes, "+") {
		return obs, mc.Violatef("C15:atomic-batch-results-differ-from-sequential-writes", "%s: command results of one ApplyBatch %q differ from the results of separate ApplyBatch calls %q (before: {%s})", evl, res, strings.Join(seqRes, "+"), c15Row(o, oex))
	}
	if failed {
		if err := in.unchanged("C15:stale-or-conflict-result-changed-row", evl, "atomic batch reported "+res, o, oex, n, nex); err != nil {
			return obs, err
		}
	}
	if oex && nex && !hasDelete {
		if err := in.monotone(evl, o, n); err != nil {
			return obs, err
		}
	}
	if oex && !nex && !hasDelete {
		return obs, mc.Violatef("C15:upsert-left-no-row", "%s: the row disappeared without a delete (before: {%s})", evl, c15Row(o, oex))
	}
	if c15Row(o, oex) == c15Row(n, nex) {
		return obs + "/unchanged", nil
	}
	return obs + "/changed", nil
}

func (e *c15Env) newPairInst(evs []string, fsmDriven bool) *c15PairInst {
	base := e.newInst(nil, !fsmDriven)
	in := &c15PairInst{c15Inst: *base, evs: evs, shadowID: base.chID + "-s", seqSplit: fsmDriven}
	in.batch = c15BatchDirect
	if fsmDriven {
		in.batch = c15BatchFSM
	}
	return in
}

// ---------------------------------------------------------------- test

func TestVerifC15(t *testing.T) {
	r := ev.Start(t, "C15")
	defer r.Finish()
	env, err := c15Open(r, c15PoolSize)
	if err != nil {
		r.HarnessError("cannot open meta db on /dev/shm: %v", err)
		return
	}
	defer env.close()
	env.buildAlphabet(r.Thorough())
	bounds := map[string]any{
		"candidate_writes": len(env.cands), "events": len(env.events),
		"menus": "channel epoch {1,2} x leader epoch {1,2} x leader {1,2} x lease {100,200} x aspects (quick 10: base, retention 5@50 / 9@40, fence v1 t1 / v2 t2 / v2 cleared, explicit route generation 4 / 9, ISR {1,2}, status 2; thorough 17: + retention 5@30, fence v1 other token, explicit route generation 1, replicas +4, minISR 1, two combined); create-if-absent subset; retention advance {match, 4 stale fences} x seq {3,5,9} x time {45,60}; 36 two-write atomic batches; delete",
	}
	run := func(name string, drv c15Driver, direct bool, depth int, workers int, maxStates int64) mc.Result {
		return mc.Run(r, mc.System{
			Name:      name,
			New:       func() mc.Instance { return env.newInst(drv, direct) },
			MaxDepth:  depth,
			Workers:   workers,
			MaxStates: maxStates,
			KeepGoing: true, // a violating transition (known finding KF-C15-1) does not hide the states behind it
			Bounds:    bounds,
			Note:      "state = stored row read back through GetChannelRuntimeMeta (fresh channel id per path, one tmpfs DB per live instance); oracle on every transition (old row, write, result, new row)",
		})
	}
	d := run("runtime-meta-direct", c15Direct{}, true, ev.Pick(r, 3, 4), 0, ev.Pick(r, int64(60000), int64(600000)))
	f := run("runtime-meta-fsm", c15FSM{}, false, ev.Pick(r, 2, 3), 32, ev.Pick(r, int64(20000), int64(60000)))
	pevs := c15PairEvents()
	runPairs := func(name string, fsmDriven bool, depth, workers int) mc.Result {
		return mc.Run(r, mc.System{
			Name: name, New: func() mc.Instance { return env.newPairInst(pevs, fsmDriven) },
			MaxDepth: depth, Workers: workers, MaxStates: 400000, KeepGoing: true,
			Bounds: map[string]any{"events": len(pevs), "single_writes": c15PairSingles,
				"pairs": "first in {advance +7, advance +4, advance behind a stale fence} x second in {advance +7/+4/+2/stale, same-epoch lease renewal, higher leader epoch, status change, explicit route generation == pre-batch generation, create-if-absent, delete}; plus {renewal, leader epoch, status, same generation, create, delete} x {advance +7, stale advance}"},
			Note: "two writes to the same channel in ONE atomic batch vs a shadow channel that receives them in separate batches (differential) + the monotonicity oracle on the batch as one transition",
		})
	}
	pd := runPairs("runtime-meta-pairs-direct", false, ev.Pick(r, 3, 4), 0)
	pf := runPairs("runtime-meta-pairs-fsm", true, ev.Pick(r, 3, 4), 32)
	if r.Replay() != nil {
		return
	}
	r.Count("same_channel_write_pairs_in_one_batch", env.nPair2.Load())
	r.Count("same_channel_write_pairs_failed_atomically", env.nPair2Failed.Load())
	r.Guard("same-channel-write-pairs-seen", env.nPair2.Load() >= 1000 && env.nPair2Failed.Load() >= 10 && pd.States >= 100 && pf.States >= 100,
		"pairs=%d failed atomically=%d states direct=%d fsm=%d", env.nPair2.Load(), env.nPair2Failed.Load(), pd.States, pf.States)
	r.Count("upsert_stale", env.nStale.Load())
	r.Count("upsert_conflict", env.nConflict.Load())
	r.Count("upsert_applied_on_existing_row", env.nApplied.Load())
	r.Count("upsert_applied_with_preserved_maximum", env.nClamped.Load())
	r.Count("fsm_upsert_stale_meta", env.nFsmStale.Load())
	r.Count("create_on_existing_row", env.nCreateExisting.Load())
	r.Count("create_on_absent_row", env.nCreateNew.Load())
	r.Count("retention_advance_applied", env.nAdvApplied.Load())
	r.Count("retention_advance_stale_fence", env.nAdvConflict.Load())
	r.Count("retention_advance_not_advancing", env.nAdvNoop.Load())
	r.Count("deletes", env.nDelete.Load())
	r.Count("two_write_batches", env.nPair.Load())
	r.Count("listed_field_change_with_generation_bump", env.nBump.Load())
	r.Count("leader_epoch_lowered_under_higher_channel_epoch", env.nLiteral.Load())
	r.Guard("stale-writes-seen", env.nStale.Load() >= 100, "stale=%d", env.nStale.Load())
	r.Guard("conflicting-writes-seen", env.nConflict.Load() >= 100 && env.nFsmStale.Load() >= 10, "direct conflict=%d fsm stale_meta=%d", env.nConflict.Load(), env.nFsmStale.Load())
	r.Guard("merging-applied-writes-seen", env.nClamped.Load() >= 100, "applied writes whose stored lease/retention/fence stayed above the candidate=%d", env.nClamped.Load())
	r.Guard("create-if-absent-both-ways", env.nCreateExisting.Load() >= 10 && env.nCreateNew.Load() >= 2, "existing=%d absent=%d", env.nCreateExisting.Load(), env.nCreateNew.Load())
	r.Guard("retention-advance-all-outcomes", env.nAdvApplied.Load() >= 10 && env.nAdvConflict.Load() >= 10 && env.nAdvNoop.Load() >= 10, "applied=%d stale-fence=%d not-advancing=%d", env.nAdvApplied.Load(), env.nAdvConflict.Load(), env.nAdvNoop.Load())
	r.Guard("route-generation-bumps-seen", env.nBump.Load() >= 1000, "bumps=%d", env.nBump.Load())
	r.Guard("state-space-nontrivial", d.States >= 1000 && f.States >= 100, "direct states=%d fsm states=%d", d.States, f.States)
	r.Guard("distinct-outcomes", d.Outcomes >= 12, "direct distinct observations=%d", d.Outcomes)
	r.Assume("deleting the runtime row resets the comparison baseline (DESIGN appendix D)")
	r.Assume("route generations near 2^64-1 (saturating nextChannelRouteGeneration) are outside the menus")
	r.Assume("through the slot FSM an ignored-stale upsert is answered 'ok' (Batch.UpsertChannelRuntimeMeta cannot know the outcome at staging time); 'reported stale or conflicting' is checked on the direct Shard API's MonotonicResult, 'row unchanged' on both")
}
