// Command zzverif-statefile is the crash-point helper of /verif check C19.
//
// It is overlaid at cmd/zzverif-statefile by /verif/check (never written into the
// repository). It performs exactly one real statefile.Store.Save on the main OS thread so
// that `strace -e inject=<syscall>:signal=SIGKILL:when=N` (whose counters are per thread)
// can kill the process at a chosen file-system call of Save:
//
//	zzverif-statefile <state-file-path> <replace|first> <new-state.json>
//
// replace: the previous state is loaded first with the real Store.Load (must succeed);
// first:   the state file must not exist yet.
// Exit status 0 = Save returned nil; 3 = precondition/usage problem; 4 = Save failed.
package main

import (
	"context"
	"errors"
	"fmt"
	"os"
	"runtime"

	"github.com/WuKongIM/WuKongIM/pkg/controller/state"
	"github.com/WuKongIM/WuKongIM/pkg/controller/statefile"
)

func init() {
	// Locking in init pins the main goroutine to the main OS thread for the whole run:
	// every file syscall of Load and Save is issued by one thread.
	runtime.LockOSThread()
}

func main() {
	if len(os.Args) != 4 {
		fmt.Fprintln(os.Stderr, "usage: zzverif-statefile <path> <replace|first> <new-state.json>")
		os.Exit(3)
	}
	path, scenario, nextPath := os.Args[1], os.Args[2], os.Args[3]
	ctx := context.Background()
	raw, err := os.ReadFile(nextPath)
	if err != nil {
		fmt.Fprintln(os.Stderr, "read new state:", err)
		os.Exit(3)
	}
	next, err := state.Decode(raw)
	if err != nil {
		fmt.Fprintln(os.Stderr, "decode new state:", err)
		os.Exit(3)
	}
	store := statefile.New(path)
	switch scenario {
	case "replace":
		if _, err := store.Load(ctx); err != nil {
			fmt.Fprintln(os.Stderr, "load previous state:", err)
			os.Exit(3)
		}
	case "first":
		if _, err := store.Load(ctx); !errors.Is(err, os.ErrNotExist) {
			fmt.Fprintln(os.Stderr, "first-save scenario but state file exists or is unreadable:", err)
			os.Exit(3)
		}
	default:
		fmt.Fprintln(os.Stderr, "unknown scenario", scenario)
		os.Exit(3)
	}
	// Marker visible in the strace log (openat of a path that never exists): everything
	// after it on this thread belongs to Save.
	_, _ = os.Stat(path + ".zzverif-save-begins")
	if f, err := os.Open(path + ".zzverif-save-begins"); err == nil {
		_ = f.Close()
	}
	if err := store.Save(ctx, next); err != nil {
		fmt.Fprintln(os.Stderr, "save:", err)
		os.Exit(4)
	}
	os.Exit(0)
}
