package statefile_test

// C19 - The controller state file is replaced atomically.
//
// Section "save-crash-points" (fault enumeration on the real process): the helper binary
// cmd/zzverif-statefile (overlaid main package, main goroutine pinned to the main OS thread)
// loads the previous state and performs ONE real statefile.Store.Save. A first traced run
// (strace, no injection) lists the file syscalls the main thread issues during Save; then
// the helper is re-run once per such syscall instance with
//
//	strace -f -e trace=<set> -e inject=<syscall>:signal=SIGKILL:when=<n>
//
// which kills the process on ENTRY of exactly that syscall (strace keeps one counter per
// syscall number per thread; the killed syscall is not executed - verified by hand: a kill at
// write leaves a 0-byte temp file, a kill at renameat leaves the old main file plus the
// complete temp file). So every boundary between two file-system effects of Save is a crash
// point, plus the uninjected run (after the last). After each kill the test process loads the
// file with the real Store.Load and compares with the previous / new state.
//
// Section "file-corruption" (bounded-exhaustive input enumeration): every truncation and every
// offset x {bit0 flip, bit7 flip, 0x00, 0xFF} (thorough: all 8 bit flips) of files written by
// the real Store.Save, plus a small menu of checksum tamperings, loaded with the real
// Store.Load: must be rejected, or decode to the identical state.

import (
	"bufio"
	"bytes"
	"context"
	"encoding/json"
	"errors"
	"fmt"
	"os"
	"os/exec"
	"path/filepath"
	"sort"
	"strings"
	"sync"
	"syscall"
	"testing"

	"github.com/WuKongIM/WuKongIM/pkg/controller/state"
	"github.com/WuKongIM/WuKongIM/pkg/controller/statefile"
	"github.com/WuKongIM/WuKongIM/pkg/zzverif/ev"
)

const (
	c19Syscalls  = "openat,write,pwrite64,fsync,fdatasync,close,renameat,renameat2,rename,unlink,unlinkat,ftruncate"
	c19Marker    = ".zzverif-save-begins"
	c19StateName = "cluster-state.json"
)

// ---------------------------------------------------------------- helpers

// c19Canon is the comparison form of a state: its own durable JSON encoding (checksum and
// applied index included).
func c19Canon(st state.ClusterState) string {
	b, err := json.Marshal(st)
	if err != nil {
		return "marshal-error:" + err.Error()
	}
	return string(b)
}

type c19Fixture struct {
	name  string
	st    state.ClusterState
	bytes []byte // what the real Store.Save writes for st
	canon string // canon of what the real Store.Load returns for bytes
}

func c19MakeFixture(root, name string, st state.ClusterState) (c19Fixture, error) {
	dir, err := os.MkdirTemp(root, "fix-")
	if err != nil {
		return c19Fixture{}, err
	}
	store := statefile.New(filepath.Join(dir, c19StateName))
	if err := store.Save(context.Background(), st); err != nil {
		return c19Fixture{}, fmt.Errorf("fixture %s: Save: %w", name, err)
	}
	b, err := os.ReadFile(store.Path())
	if err != nil {
		return c19Fixture{}, err
	}
	got, err := store.Load(context.Background())
	if err != nil {
		return c19Fixture{}, fmt.Errorf("fixture %s: Load: %w", name, err)
	}
	return c19Fixture{name: name, st: got, bytes: b, canon: c19Canon(got)}, nil // st = the loaded state (normalised, checksummed)
}

// ---------------------------------------------------------------- strace log parsing

type c19Call struct {
	name   string
	args   string
	result string // "" while unfinished, "?" when the thread was killed inside/at the call
}

// c19ParseTrace returns the syscall entries of the main thread (the first pid of the log), in
// order, and whether that thread was killed by SIGKILL.
func c19ParseTrace(path string) (calls []c19Call, killed bool, err error) {
	f, err := os.Open(path)
	if err != nil {
		return nil, false, err
	}
	defer f.Close()
	sc := bufio.NewScanner(f)
	sc.Buffer(make([]byte, 1<<20), 1<<20)
	mainPid := ""
	for sc.Scan() {
		line := sc.Text()
		sp := strings.IndexByte(line, ' ')
		if sp <= 0 {
			continue
		}
		pid, rest := line[:sp], strings.TrimLeft(line[sp:], " ")
		if mainPid == "" {
			mainPid = pid
		}
		if pid != mainPid {
			continue
		}
		switch {
		case strings.HasPrefix(rest, "+++"):
			if strings.Contains(rest, "killed by SIGKILL") {
				killed = true
			}
		case strings.HasPrefix(rest, "---"):
		case strings.HasPrefix(rest, "<... "):
			// "<... openat resumed>) = 3": completes the last unfinished entry
			if i := strings.LastIndex(rest, " = "); i >= 0 && len(calls) > 0 && calls[len(calls)-1].result == "" {
				calls[len(calls)-1].result = strings.Fields(rest[i+3:])[0]
			}
		default:
			p := strings.IndexByte(rest, '(')
			if p <= 0 {
				continue
			}
			c := c19Call{name: rest[:p], args: rest[p:]}
			if !strings.Contains(rest, "<unfinished ...>") {
				if i := strings.LastIndex(rest, " = "); i >= 0 {
					c.result = strings.Fields(rest[i+3:])[0]
				}
			}
			calls = append(calls, c)
		}
	}
	return calls, killed, sc.Err()
}

func c19MarkerIndex(calls []c19Call) int {
	for i, c := range calls {
		if c.name == "openat" && strings.Contains(c.args, c19Marker) {
			return i
		}
	}
	return -1
}

// ---------------------------------------------------------------- one helper run

type c19Scenario struct {
	name      string
	prev      *c19Fixture // nil = first save
	next      *c19Fixture
	strayTemp bool // garbage temp files from "earlier crashes" are present before the run
	// files, when non-nil, is the complete content of the state directory before the run (the
	// snapshot taken after an earlier crash); prev then only describes what Load returned there.
	files map[string][]byte
	first *c19CrashReplay // the earlier crash that produced files (for replays)
}

type c19Run struct {
	exit     string // "ok", "killed", or a description
	calls    []c19Call
	marker   int
	dir      string
	loadErr  error
	loaded   state.ClusterState
	temps    int
	files    map[string][]byte // the state directory right after the run
	outcome  string            // old | new | absent
	where    string            // description of the crash point (for messages)
	rp       c19CrashReplay
	viol     *ev.Violation
	position int    // 1-based index among Save's syscalls of the call that was killed; 0 = before Save
	killedAt string // name of the killed syscall
	renamed  bool   // the trace shows a completed rename of the temp file
}

type c19CrashReplay struct {
	Kind     string `json:"kind"`
	Scenario string `json:"scenario"`
	Syscall  string `json:"syscall"`
	When     int    `json:"when"`
	// second crash in a row (thorough): Save #2 of the "much-shorter" state, killed here
	Syscall2 string `json:"syscall2,omitempty"`
	When2    int    `json:"when2,omitempty"`
	Second   bool   `json:"second,omitempty"`
	Follow   string `json:"follow_up_save,omitempty"` // informative: which later Save failed the oracle
}

// c19Follow is one later Save that is run after a crash: a state whose encoding is shorter
// than / as long as / longer than the state the crashed Save was writing.
type c19Follow struct {
	kind string
	fx   *c19Fixture
}

func c19MakeFollows(root string, base, tiny *c19Fixture) ([]c19Follow, error) {
	var out []c19Follow
	add := func(kind, id string, cmp func(n, b int) bool) error {
		st := base.st.Clone()
		st.ClusterID = id
		fx, err := c19MakeFixture(root, base.name+"/"+kind, st)
		if err != nil {
			return err
		}
		if !cmp(len(fx.bytes), len(base.bytes)) {
			return fmt.Errorf("follow-up state %s/%s has %d bytes, base %d", base.name, kind, len(fx.bytes), len(base.bytes))
		}
		out = append(out, c19Follow{kind: kind, fx: &fx})
		return nil
	}
	id := base.st.ClusterID
	if len(id) >= 2 {
		if err := add("shorter-by-1", id[:len(id)-1], func(n, b int) bool { return n == b-1 }); err != nil {
			return nil, err
		}
	}
	if tiny != nil && len(tiny.bytes) < len(base.bytes) {
		out = append(out, c19Follow{kind: "much-shorter", fx: tiny})
	}
	if err := add("equal-size", id[:len(id)-1]+"X", func(n, b int) bool { return n == b }); err != nil {
		return nil, err
	}
	if err := add("longer", id+strings.Repeat("L", 300), func(n, b int) bool { return n == b+300 }); err != nil {
		return nil, err
	}
	return out, nil
}

type c19FollowResult struct {
	kind    string
	outcome string
	viol    *ev.Violation
}

// c19RunFollowUps: from the directory image left by a crash (or by a completed Save), each
// later real Store.Save must make exactly its state loadable.
func c19RunFollowUps(res *c19Run, follows []c19Follow, rp c19CrashReplay, where string) []c19FollowResult {
	stateDir := filepath.Join(res.dir, "data")
	path := filepath.Join(stateDir, c19StateName)
	postCanon := ""
	if res.loadErr == nil {
		postCanon = c19Canon(res.loaded)
	}
	var out []c19FollowResult
	for _, f := range follows {
		fr := c19FollowResult{kind: f.kind}
		rpf := rp
		rpf.Follow = f.kind
		fail := func(fp, format string, a ...any) {
			fr.viol = &ev.Violation{Fingerprint: fp, System: "save-after-crash", Replay: rpf,
				Message: fmt.Sprintf(format, a...) + fmt.Sprintf(" | later Save of the %s state (%d bytes) after: %s", f.kind, len(f.fx.bytes), where)}
		}
		if err := c19Restore(stateDir, res.files); err != nil {
			fr.outcome = "harness-error"
			fail("C19:harness-restore-failed", "cannot restore the post-crash directory: %v", err)
			out = append(out, fr)
			continue
		}
		store := statefile.New(path)
		saveErr := store.Save(context.Background(), f.fx.st)
		got, loadErr := store.Load(context.Background())
		switch {
		case saveErr != nil:
			// A refused Save is outside the property; the file must still be what it was, or the new state.
			fr.outcome = "save-refused"
			same := (loadErr == nil && (c19Canon(got) == postCanon || c19Canon(got) == f.fx.canon)) || (loadErr != nil && errors.Is(loadErr, os.ErrNotExist) && res.loadErr != nil)
			if !same {
				fail("C19:refused-save-after-crash-damaged-file", "Save failed (%v) and Load now returns err=%v", saveErr, loadErr)
			}
		case loadErr != nil:
			fr.outcome = "NOT-LOADABLE"
			fail("C19:save-after-crash-not-loadable", "Save returned nil but Store.Load fails: %v", loadErr)
		case c19Canon(got) != f.fx.canon:
			fr.outcome = "WRONG-STATE"
			fail("C19:save-after-crash-wrong-state", "Save returned nil but Load returns another state (cluster %q revision %d checksum %s)", got.ClusterID, got.Revision, got.Checksum)
		default:
			if sum, err := state.Checksum(got); err != nil || sum != got.Checksum {
				fr.outcome = "BAD-CHECKSUM"
				fail("C19:loaded-state-checksum-invalid", "loaded state carries checksum %q, recomputed %q (%v)", got.Checksum, sum, err)
			} else {
				fr.outcome = "saved-and-loaded:" + f.kind
			}
		}
		out = append(out, fr)
	}
	return out
}

// c19StrayGarbage is longer than every fixture, so that a Save that reuses a stray temp file
// without truncating it keeps a stale tail.
func c19StrayGarbage() []byte {
	return []byte("{\"schema_version\":1,\"garbage" + strings.Repeat("-stale-temp-file-content", 400))
}

func c19Snapshot(dir string) (map[string][]byte, error) {
	out := map[string][]byte{}
	ents, err := os.ReadDir(dir)
	if err != nil {
		return nil, err
	}
	for _, e := range ents {
		b, err := os.ReadFile(filepath.Join(dir, e.Name()))
		if err != nil {
			return nil, err
		}
		out[e.Name()] = b
	}
	return out, nil
}

func c19Restore(dir string, files map[string][]byte) error {
	ents, err := os.ReadDir(dir)
	if err != nil {
		return err
	}
	for _, e := range ents {
		if err := os.Remove(filepath.Join(dir, e.Name())); err != nil {
			return err
		}
	}
	for n, b := range files {
		if err := os.WriteFile(filepath.Join(dir, n), b, 0o600); err != nil {
			return err
		}
	}
	return nil
}

func c19RunHelper(root, helper string, sc *c19Scenario, sysName string, when int) (*c19Run, error) {
	dir, err := os.MkdirTemp(root, "run-")
	if err != nil {
		return nil, err
	}
	res := &c19Run{dir: dir}
	stateDir := filepath.Join(dir, "data")
	if err := os.Mkdir(stateDir, 0o700); err != nil {
		return nil, err
	}
	path := filepath.Join(stateDir, c19StateName)
	mode := "first"
	if sc.prev != nil {
		mode = "replace"
	}
	if sc.files != nil {
		if err := c19Restore(stateDir, sc.files); err != nil {
			return nil, err
		}
	} else {
		if sc.prev != nil {
			if err := os.WriteFile(path, sc.prev.bytes, 0o600); err != nil {
				return nil, err
			}
		}
		if sc.strayTemp {
			for _, n := range []string{c19StateName + ".tmp", c19StateName + ".123456789.tmp"} {
				if err := os.WriteFile(filepath.Join(stateDir, n), c19StrayGarbage(), 0o600); err != nil {
					return nil, err
				}
			}
		}
	}
	nextPath := filepath.Join(dir, "next.json")
	if err := os.WriteFile(nextPath, sc.next.bytes, 0o600); err != nil {
		return nil, err
	}
	trace := filepath.Join(dir, "trace.txt")
	args := []string{"-f", "-o", trace, "-e", "trace=" + c19Syscalls}
	if sysName != "" {
		args = append(args, "-e", fmt.Sprintf("inject=%s:signal=SIGKILL:when=%d", sysName, when))
	}
	args = append(args, helper, path, mode, nextPath)
	cmd := exec.Command("/usr/bin/strace", args...)
	cmd.Env = append(os.Environ(), "GODEBUG=asyncpreemptoff=1", "GOMAXPROCS=2")
	var stderr bytes.Buffer
	cmd.Stderr = &stderr
	runErr := cmd.Run()
	calls, killed, perr := c19ParseTrace(trace)
	if perr != nil {
		return nil, fmt.Errorf("cannot read strace log (is ptrace permitted?): %v; strace stderr: %s", perr, stderr.String())
	}
	res.calls, res.marker = calls, c19MarkerIndex(calls)
	switch {
	case killed:
		res.exit = "killed"
	case runErr == nil:
		res.exit = "ok"
	default:
		var ee *exec.ExitError
		if errors.As(runErr, &ee) {
			if ws, ok := ee.Sys().(syscall.WaitStatus); ok && ws.Signaled() && ws.Signal() == syscall.SIGKILL {
				res.exit = "killed"
				break
			}
		}
		res.exit = fmt.Sprintf("helper failed: %v; stderr: %s", runErr, strings.TrimSpace(stderr.String()))
	}
	// where was it killed?
	if res.exit == "killed" && len(calls) > 0 {
		last := calls[len(calls)-1]
		res.killedAt = last.name
		if res.marker >= 0 && len(calls)-1 > res.marker {
			res.position = len(calls) - 1 - res.marker
		}
	}
	for i, c := range calls {
		if i > res.marker && res.marker >= 0 && strings.HasPrefix(c.name, "rename") && c.result == "0" {
			res.renamed = true
		}
	}
	// what does the directory hold now?
	if res.files, err = c19Snapshot(stateDir); err != nil {
		return nil, err
	}
	for n := range res.files {
		if n != c19StateName {
			res.temps++
		}
	}
	res.loaded, res.loadErr = statefile.New(path).Load(context.Background())
	return res, nil
}

// c19Judge is the crash oracle: after a kill at any point (or a completed Save) the file must
// decode to the previous or the new complete state.
func c19Judge(sc *c19Scenario, res *c19Run, sysName string, when int) {
	rp := c19CrashReplay{Kind: "crash", Scenario: sc.name, Syscall: sysName, When: when}
	if sc.first != nil {
		rp = *sc.first
		rp.Second, rp.Syscall2, rp.When2 = true, sysName, when
	}
	where := fmt.Sprintf("scenario %s, kill on entry of %s #%d (Save syscall %d: %s), %d stray file(s) in the directory", sc.name, sysName, when, res.position, res.killedAt, res.temps)
	if sysName == "" {
		where = fmt.Sprintf("scenario %s, Save completed (exit %s)", sc.name, res.exit)
	}
	res.where, res.rp = where, rp
	fail := func(fp, format string, a ...any) {
		res.viol = &ev.Violation{Fingerprint: fp, Message: fmt.Sprintf(format, a...) + " | " + where, System: "save-crash-points", Replay: rp}
	}
	if res.loadErr != nil {
		if errors.Is(res.loadErr, os.ErrNotExist) {
			res.outcome = "absent"
			switch {
			case sc.prev != nil:
				fail("C19:state-file-missing-after-crash", "the previous state file existed before Save but no state file exists after the crash")
			case res.renamed || res.exit == "ok":
				fail("C19:state-file-missing-after-rename", "first save: the rename completed but no state file exists")
			}
			return
		}
		res.outcome = "undecodable"
		if res.exit == "ok" {
			fail("C19:completed-save-not-loadable", "Save returned nil but Store.Load fails: %v", res.loadErr)
			return
		}
		fail("C19:crash-leaves-undecodable-file", "Store.Load fails after the crash: %v", res.loadErr)
		return
	}
	got := c19Canon(res.loaded)
	sum, err := state.Checksum(res.loaded)
	if err != nil || sum != res.loaded.Checksum {
		fail("C19:loaded-state-checksum-invalid", "loaded state carries checksum %q, recomputed %q (%v)", res.loaded.Checksum, sum, err)
		return
	}
	switch {
	case got == sc.next.canon:
		res.outcome = "new"
	case sc.prev != nil && got == sc.prev.canon:
		res.outcome = "old"
	default:
		res.outcome = "foreign"
		fail("C19:crash-leaves-foreign-state", "loaded state is neither the previous nor the new state: revision %d applied %d checksum %s", res.loaded.Revision, res.loaded.AppliedRaftIndex, res.loaded.Checksum)
		return
	}
	if res.exit == "ok" && res.outcome != "new" {
		fail("C19:completed-save-not-visible", "Save returned nil but Load returns the %s state", res.outcome)
	}
}

// ---------------------------------------------------------------- crash section

type c19Point struct {
	sys      string
	when     int
	position int // expected position among Save's syscalls (0 = before Save)
}

func c19CrashSection(r *ev.R, root, helper string, fix map[string]*c19Fixture, follows map[string][]c19Follow) {
	e := r.NewEnum("save-crash-points")
	e2 := r.NewEnum("save-after-crash")
	var followOK, followWithLeftover, followRefused, secondCrashes int
	scenarios := c19Scenarios(fix, r.Thorough())
	var (
		mu          sync.Mutex
		saveCalls   = map[string][]string{}
		covered     = map[string]map[int]bool{}
		outcomes    = map[string]map[string]int{}
		tempsSeen   int
		sampled     = map[string]bool{}
		preSaveRuns int
	)
	record := func(sc *c19Scenario, p c19Point, res *c19Run) {
		c19Judge(sc, res, p.sys, p.when)
		var frs []c19FollowResult
		if res.viol == nil {
			frs = c19RunFollowUps(res, follows[sc.next.name], res.rp, res.where)
		}
		mu.Lock()
		defer mu.Unlock()
		for _, fr := range frs {
			e2.Case(fmt.Sprintf("%s/%s/%d/%s", sc.name, p.sys, p.when, fr.kind), res.temps > 0, fr.outcome)
			if strings.HasPrefix(fr.outcome, "saved-and-loaded") {
				followOK++
				if res.temps > 0 {
					followWithLeftover++
				}
			}
			if fr.outcome == "save-refused" {
				followRefused++
			}
			if fr.viol != nil {
				r.Violation(*fr.viol)
			}
			k := "follow/" + fr.outcome
			if !sampled[k] && res.temps > 0 {
				sampled[k] = true
				r.Sample(map[string]any{"scenario": sc.name, "inject": p.sys, "when": p.when, "killed_at_save_syscall": res.position, "files_left_by_crash": len(res.files), "later_save": fr.kind, "result": fr.outcome})
			}
		}
		if sc.first != nil && p.sys != "" {
			secondCrashes++
		}
		if covered[sc.name] == nil {
			covered[sc.name] = map[int]bool{}
			outcomes[sc.name] = map[string]int{}
		}
		inSave := res.position > 0 || p.sys == ""
		if res.exit == "killed" {
			covered[sc.name][res.position] = true
		}
		if inSave {
			outcomes[sc.name][res.outcome]++
		} else {
			preSaveRuns++
		}
		if res.temps > 0 && res.exit == "killed" {
			tempsSeen++
		}
		label := res.outcome
		if !inSave {
			label = "before-save:" + res.outcome
		}
		e.Case(fmt.Sprintf("%s/%s/%d", sc.name, p.sys, p.when), inSave && p.sys != "", label)
		if res.viol != nil {
			r.Violation(*res.viol)
		}
		key := sc.name + "/" + res.outcome
		if !sampled[key] && inSave {
			sampled[key] = true
			r.Sample(map[string]any{"scenario": sc.name, "inject": p.sys, "when": p.when, "killed_at_save_syscall": res.position, "killed_syscall": res.killedAt,
				"exit": res.exit, "stray_files_after_crash": res.temps, "load": res.outcome})
		}
	}

	for _, sc := range scenarios {
		base, err := c19RunHelper(root, helper, sc, "", 0)
		if err != nil {
			r.HarnessError("%s: baseline run: %v", sc.name, err)
			return
		}
		if base.exit != "ok" || base.marker < 0 {
			r.HarnessError("%s: baseline helper run did not complete (exit %q, marker %d, %d syscalls traced)", sc.name, base.exit, base.marker, len(base.calls))
			return
		}
		record(sc, c19Point{}, base)
		os.RemoveAll(base.dir)
		// per-syscall counters before Save and the crash points inside Save
		before := map[string]int{}
		for _, c := range base.calls[:base.marker+1] {
			before[c.name]++
		}
		var points []c19Point
		seen := map[string]int{}
		var names []string
		for i, c := range base.calls[base.marker+1:] {
			seen[c.name]++
			names = append(names, c.name)
			points = append(points, c19Point{sys: c.name, when: before[c.name] + seen[c.name], position: i + 1})
		}
		saveCalls[sc.name] = names
		// one trivial point before Save (the marker itself), all of them in the thorough tier
		pre := []c19Point{{sys: "openat", when: before["openat"], position: 0}}
		if r.Thorough() {
			pre = nil
			keys := make([]string, 0, len(before))
			for k := range before {
				keys = append(keys, k)
			}
			sort.Strings(keys)
			for _, k := range keys {
				for n := 1; n <= before[k]; n++ {
					pre = append(pre, c19Point{sys: k, when: n, position: 0})
				}
			}
		}
		points = append(points, pre...)
		if s := r.Seed(); s != 0 && len(points) > 1 { // the seed only rotates the order
			k := int(s % int64(len(points)))
			points = append(points[k:], points[:k]...)
		}
		run := func(list []c19Point) {
			var wg sync.WaitGroup
			sem := make(chan struct{}, 6)
			for _, p := range list {
				wg.Add(1)
				sem <- struct{}{}
				go func(p c19Point) {
					defer wg.Done()
					defer func() { <-sem }()
					res, err := c19RunHelper(root, helper, sc, p.sys, p.when)
					if err != nil {
						r.HarnessError("%s: %s #%d: %v", sc.name, p.sys, p.when, err)
						return
					}
					defer os.RemoveAll(res.dir)
					if res.exit != "killed" && res.exit != "ok" {
						r.HarnessError("%s: %s #%d: %s", sc.name, p.sys, p.when, res.exit)
						return
					}
					if res.exit == "ok" {
						return // the counter was never reached: not a crash point
					}
					record(sc, p, res)
					seeded := 0
					if sc.strayTemp {
						seeded = 2
					}
					if r.Thorough() && res.viol == nil && res.position > 0 && res.temps > seeded {
						c19SecondCrash(r, root, helper, sc, p, res, fix["tiny"], record)
					}
				}(p)
			}
			wg.Wait()
		}
		run(points)
		// Startup noise could shift a counter; retry neighbours for Save positions not hit.
		var retry []c19Point
		mu.Lock()
		for _, p := range points {
			if p.position > 0 && !covered[sc.name][p.position] {
				for _, d := range []int{-1, 1, -2, 2} {
					if p.when+d > 0 {
						retry = append(retry, c19Point{sys: p.sys, when: p.when + d, position: p.position})
					}
				}
			}
		}
		mu.Unlock()
		if len(retry) > 0 {
			r.Count("crash_point_retries", int64(len(retry)))
			run(retry)
		}
		missing := []int{}
		for i := range names {
			if !covered[sc.name][i+1] {
				missing = append(missing, i+1)
			}
		}
		if len(missing) > 0 {
			r.HarnessError("%s: Save syscall positions %v of %v were never hit by an injected kill", sc.name, missing, names)
		}
	}

	// vacuity guards
	okShape, okBoth := true, true
	var shapes []string
	for _, sc := range scenarios {
		names := saveCalls[sc.name]
		shapes = append(shapes, sc.name+"="+strings.Join(names, ","))
		hasRename, hasWrite := false, false
		for _, n := range names {
			hasRename = hasRename || strings.HasPrefix(n, "rename")
			hasWrite = hasWrite || n == "write" || n == "pwrite64"
		}
		if len(names) < 4 || !hasWrite {
			okShape = false
		}
		_ = hasRename
		o := outcomes[sc.name]
		if o["new"] < 1 || o["old"]+o["absent"] < 1 {
			okBoth = false
		}
	}
	r.Guard("save-syscalls-traced", okShape, "file syscalls of Save on the main thread per scenario: %s", strings.Join(shapes, " | "))
	r.Guard("both-outcomes-per-scenario", okBoth, "load results per scenario (Save-phase points): %v", outcomes)
	r.Guard("stray-temp-files-present-at-load", tempsSeen >= len(scenarios), "crash points after which Load ran with temp files in the directory: %d", tempsSeen)
	r.Count("crash_points_before_save", int64(preSaveRuns))
	r.Count("second_crash_points", int64(secondCrashes))
	r.Count("later_saves_refused", int64(followRefused))
	r.Guard("later-saves-succeed-over-leftover-temp-files", followOK >= 50 && followWithLeftover >= 30, "later Saves that returned nil and were loaded back=%d, of which with temp files left in the directory=%d, refused=%d", followOK, followWithLeftover, followRefused)
	if r.Thorough() {
		r.Guard("two-crashes-in-a-row", secondCrashes >= 100, "second-Save crash points executed from a post-crash directory=%d", secondCrashes)
	}
	kinds := map[string][]string{}
	for n, fs := range follows {
		for _, f := range fs {
			kinds[n] = append(kinds[n], fmt.Sprintf("%s=%dB", f.kind, len(f.fx.bytes)))
		}
	}
	e2.Done(true, map[string]any{"later_saves_per_crash_point": kinds}, "after every crash point (and after every completed Save) the post-crash directory image is restored once per later state and a real Store.Save + Store.Load of a shorter / equal-size / longer state runs in the test process; non-trivial = temp files were present in the directory")
	bounds := map[string]any{"scenarios": len(scenarios), "syscall_set": c19Syscalls, "save_syscalls": saveCalls}
	e.Done(true, bounds, "one real process kill (SIGKILL on syscall entry, injected by strace) per file syscall instance of Store.Save, plus the completed Save; non-trivial = kill inside Save")
}

// c19SecondCrash (thorough): the directory left by the first crash is the start of a second
// helper process that saves the much-shorter state and is killed at every file syscall of that
// Save as well; the oracle is the same (previous = what Load returned after the first crash).
func c19SecondCrash(r *ev.R, root, helper string, sc *c19Scenario, p c19Point, res *c19Run, tiny *c19Fixture, record func(*c19Scenario, c19Point, *c19Run)) {
	sc2 := &c19Scenario{
		name:  fmt.Sprintf("%s >> killed at Save syscall %d (%s) >> second Save (much-shorter state)", sc.name, res.position, res.killedAt),
		next:  tiny,
		files: res.files,
		first: &c19CrashReplay{Kind: "crash", Scenario: sc.name, Syscall: p.sys, When: p.when},
	}
	if res.loadErr == nil {
		sc2.prev = &c19Fixture{name: "state-after-first-crash", canon: c19Canon(res.loaded)}
	}
	base, err := c19RunHelper(root, helper, sc2, "", 0)
	if err != nil {
		r.HarnessError("%s: baseline: %v", sc2.name, err)
		return
	}
	defer os.RemoveAll(base.dir)
	if base.exit != "ok" || base.marker < 0 {
		r.HarnessError("%s: baseline helper run did not complete (exit %q)", sc2.name, base.exit)
		return
	}
	record(sc2, c19Point{}, base)
	before, seen := map[string]int{}, map[string]int{}
	for _, c := range base.calls[:base.marker+1] {
		before[c.name]++
	}
	for i, c := range base.calls[base.marker+1:] {
		seen[c.name]++
		p2 := c19Point{sys: c.name, when: before[c.name] + seen[c.name], position: i + 1}
		res2, err := c19RunHelper(root, helper, sc2, p2.sys, p2.when)
		if err != nil {
			r.HarnessError("%s: %s #%d: %v", sc2.name, p2.sys, p2.when, err)
			return
		}
		if res2.exit == "killed" {
			record(sc2, p2, res2)
		} else if res2.exit != "ok" {
			r.HarnessError("%s: %s #%d: %s", sc2.name, p2.sys, p2.when, res2.exit)
		}
		os.RemoveAll(res2.dir)
	}
}

// ---------------------------------------------------------------- corruption section

type c19CorruptReplay struct {
	Kind    string `json:"kind"`
	Fixture string `json:"fixture"`
	Op      string `json:"op"` // truncate | set | tamper
	Offset  int    `json:"offset"`
	Value   int    `json:"value"`
	Tamper  string `json:"tamper,omitempty"`
}

func c19ErrClass(err error) string {
	var se *json.SyntaxError
	var te *json.UnmarshalTypeError
	switch {
	case errors.Is(err, state.ErrChecksumMismatch):
		return "rejected:checksum"
	case errors.Is(err, state.ErrUnsupportedSchema):
		return "rejected:schema"
	case errors.Is(err, state.ErrInvalidState):
		return "rejected:invalid-state"
	case errors.As(err, &se), strings.Contains(err.Error(), "unexpected end of JSON"), strings.Contains(err.Error(), "unexpected EOF"), strings.Contains(err.Error(), "EOF"):
		return "rejected:json-syntax"
	case errors.As(err, &te):
		return "rejected:json-type"
	case strings.Contains(err.Error(), "unknown field"):
		return "rejected:unknown-field"
	case strings.Contains(err.Error(), "parsing time"), strings.Contains(err.Error(), "Time.UnmarshalJSON"):
		return "rejected:time-format"
	case strings.Contains(err.Error(), "base64"):
		return "rejected:base64"
	case strings.Contains(err.Error(), "invalid character"), strings.Contains(err.Error(), "invalid use of"):
		return "rejected:json-syntax"
	default:
		return "rejected:other-decode-error"
	}
}

// c19LoadBytes loads data through the real Store (file on tmpfs).
func c19LoadBytes(path string, data []byte) (state.ClusterState, error) {
	if err := os.WriteFile(path, data, 0o600); err != nil {
		panic(err)
	}
	return statefile.New(path).Load(context.Background())
}

func c19CorruptCase(path string, fx *c19Fixture, rp c19CorruptReplay, data []byte) (string, *ev.Violation) {
	st, err := c19LoadBytes(path, data)
	if err != nil {
		if errors.Is(err, os.ErrNotExist) {
			return "", &ev.Violation{Fingerprint: "C19:harness-file-missing", Message: "corrupted file vanished", System: "file-corruption", Replay: rp}
		}
		return c19ErrClass(err), nil
	}
	if c19Canon(st) == fx.canon {
		return "identical-state", nil
	}
	what := fmt.Sprintf("%s at offset %d value 0x%02x", rp.Op, rp.Offset, rp.Value)
	if rp.Op == "truncate" {
		what = fmt.Sprintf("truncation to %d of %d bytes", rp.Offset, len(fx.bytes))
	} else if rp.Op == "tamper" {
		what = "tampering " + rp.Tamper
	}
	fp := "C19:corrupted-file-loaded"
	if rp.Op == "truncate" {
		fp = "C19:truncated-file-loaded"
	} else if rp.Op == "tamper" {
		fp = "C19:tampered-file-loaded"
	}
	return "LOADED-DIFFERENT", &ev.Violation{Fingerprint: fp, System: "file-corruption", Replay: rp,
		Message: fmt.Sprintf("fixture %s: %s is accepted by Store.Load and yields a different state (revision %d, checksum %s; original checksum %s)", fx.name, what, st.Revision, st.Checksum, fx.st.Checksum)}
}

func c19Mutations(thorough bool, orig byte) []byte {
	cands := []byte{orig ^ 0x01, orig ^ 0x80, 0x00, 0xFF}
	if thorough {
		cands = cands[:0]
		for b := 0; b < 8; b++ {
			cands = append(cands, orig^(1<<b))
		}
		cands = append(cands, 0x00, 0xFF, ' ')
	}
	out := cands[:0:0]
	for _, c := range cands {
		dup := c == orig
		for _, o := range out {
			dup = dup || o == c
		}
		if !dup {
			out = append(out, c)
		}
	}
	return out
}

// c19Tamperings: syntactically valid files whose payload and checksum disagree.
func c19Tamperings(fx *c19Fixture, other *c19Fixture) map[string][]byte {
	out := map[string][]byte{}
	rewrite := func(name string, f func(m map[string]any)) {
		var m map[string]any
		dec := json.NewDecoder(bytes.NewReader(fx.bytes))
		dec.UseNumber()
		if err := dec.Decode(&m); err != nil {
			panic(err)
		}
		f(m)
		b, err := json.Marshal(m)
		if err != nil {
			panic(err)
		}
		out[name] = b
	}
	rewrite("revision+1-keep-checksum", func(m map[string]any) { m["revision"] = json.Number(fmt.Sprint(fx.st.Revision + 1)) })
	rewrite("applied-index+1-keep-checksum", func(m map[string]any) { m["applied_raft_index"] = json.Number(fmt.Sprint(fx.st.AppliedRaftIndex + 1)) })
	rewrite("cluster-id-changed-keep-checksum", func(m map[string]any) { m["cluster_id"] = "wk-c19x" })
	rewrite("drop-last-node-keep-checksum", func(m map[string]any) { n := m["nodes"].([]any); m["nodes"] = n[:len(n)-1] })
	rewrite("checksum-removed", func(m map[string]any) { delete(m, "checksum") })
	rewrite("checksum-empty", func(m map[string]any) { m["checksum"] = "" })
	rewrite("checksum-of-other-state", func(m map[string]any) { m["checksum"] = other.st.Checksum })
	rewrite("checksum-uppercase-hex", func(m map[string]any) {
		m["checksum"] = "crc32c:" + strings.ToUpper(strings.TrimPrefix(fx.st.Checksum, "crc32c:"))
	})
	rewrite("checksum-wrong-algorithm-tag", func(m map[string]any) { m["checksum"] = "crc32:" + strings.TrimPrefix(fx.st.Checksum, "crc32c:") })
	rewrite("schema-version-2", func(m map[string]any) { m["schema_version"] = json.Number("2") })
	rewrite("extra-unknown-field", func(m map[string]any) { m["zz_extra"] = json.Number("1") })
	out["two-documents"] = append(append([]byte{}, fx.bytes...), fx.bytes...)
	out["trailing-garbage"] = append(append([]byte{}, fx.bytes...), []byte("x")...)
	out["other-file-appended"] = append(append([]byte{}, fx.bytes...), other.bytes...)
	out["empty-object"] = []byte("{}")
	out["json-null"] = []byte("null")
	return out
}

func c19CorruptionSection(r *ev.R, root string, fix map[string]*c19Fixture) {
	e := r.NewEnum("file-corruption")
	names := []string{"small", "large"}
	if r.Thorough() {
		names = append(names, "mid")
	}
	type job struct {
		fx *c19Fixture
		rp c19CorruptReplay
	}
	jobs := make(chan []job, 64)
	var wg sync.WaitGroup
	var mu sync.Mutex
	identical, sampled := 0, map[string]bool{}
	workers := 8
	for w := 0; w < workers; w++ {
		wg.Add(1)
		go func(w int) {
			defer wg.Done()
			path := filepath.Join(root, fmt.Sprintf("corrupt-%d", w), c19StateName)
			if err := os.MkdirAll(filepath.Dir(path), 0o700); err != nil {
				r.HarnessError("mkdir: %v", err)
				return
			}
			for batch := range jobs {
				for _, j := range batch {
					data := c19Apply(j.fx, j.rp, fix)
					outcome, v := c19CorruptCase(path, j.fx, j.rp, data)
					e.CaseByConstruction(true, outcome)
					mu.Lock()
					if outcome == "identical-state" {
						identical++
					}
					k := j.rp.Op + "/" + outcome
					take := !sampled[k]
					sampled[k] = true
					mu.Unlock()
					if take {
						r.Sample(map[string]any{"fixture": j.fx.name, "file_bytes": len(j.fx.bytes), "op": j.rp.Op, "offset": j.rp.Offset, "value": j.rp.Value, "tamper": j.rp.Tamper, "load": outcome})
					}
					if v != nil {
						r.Violation(*v)
					}
				}
			}
		}(w)
	}
	total := 0
	for _, n := range names {
		fx := fix[n]
		var batch []job
		flush := func() {
			if len(batch) > 0 {
				jobs <- batch
				total += len(batch)
				batch = nil
			}
		}
		for l := 0; l < len(fx.bytes); l++ {
			batch = append(batch, job{fx, c19CorruptReplay{Kind: "corrupt", Fixture: n, Op: "truncate", Offset: l}})
			if len(batch) >= 256 {
				flush()
			}
		}
		for off := 0; off < len(fx.bytes); off++ {
			for _, v := range c19Mutations(r.Thorough(), fx.bytes[off]) {
				batch = append(batch, job{fx, c19CorruptReplay{Kind: "corrupt", Fixture: n, Op: "set", Offset: off, Value: int(v)}})
			}
			if len(batch) >= 256 {
				flush()
			}
		}
		other := fix["large"]
		if n == "large" {
			other = fix["small"]
		}
		tn := make([]string, 0)
		for k := range c19Tamperings(fx, other) {
			tn = append(tn, k)
		}
		sort.Strings(tn)
		for _, k := range tn {
			batch = append(batch, job{fx, c19CorruptReplay{Kind: "corrupt", Fixture: n, Op: "tamper", Tamper: k}})
		}
		flush()
	}
	close(jobs)
	wg.Wait()
	sizes := map[string]int{}
	for _, n := range names {
		sizes[n] = len(fix[n].bytes)
	}
	r.Guard("corruption-rejections-by-checksum-and-by-syntax", e.Outcome("rejected:checksum") >= 100 && e.Outcome("rejected:json-syntax") >= 100,
		"checksum rejections=%d, JSON syntax rejections=%d, unknown-field=%d, invalid-state=%d, schema=%d", e.Outcome("rejected:checksum"), e.Outcome("rejected:json-syntax"),
		e.Outcome("rejected:unknown-field"), e.Outcome("rejected:invalid-state"), e.Outcome("rejected:schema"))
	r.Count("corruptions_decoding_to_identical_state", int64(identical))
	e.Done(true, map[string]any{"file_sizes": sizes, "byte_values": map[bool]string{false: "bit0 flip, bit7 flip, 0x00, 0xFF", true: "all 8 single-bit flips, 0x00, 0xFF, 0x20"}[r.Thorough()],
		"tamperings_per_file": 16}, "every truncation, every single-byte replacement from the value menu at every offset, and a menu of checksum/payload tamperings of files written by the real Store.Save; each corrupted file is loaded with the real Store.Load")
}

// c19Apply builds the corrupted image of one case.
func c19Apply(fx *c19Fixture, rp c19CorruptReplay, fix map[string]*c19Fixture) []byte {
	switch rp.Op {
	case "truncate":
		return fx.bytes[:rp.Offset]
	case "set":
		d := append([]byte(nil), fx.bytes...)
		d[rp.Offset] = byte(rp.Value)
		return d
	default:
		other := fix["large"]
		if fx.name == "large" {
			other = fix["small"]
		}
		return c19Tamperings(fx, other)[rp.Tamper]
	}
}

// ---------------------------------------------------------------- test

func TestVerifC19(t *testing.T) {
	r := ev.Start(t, "C19")
	defer r.Finish()

	root, err := os.MkdirTemp("/dev/shm", "verif-c19-")
	if err != nil {
		r.HarnessError("cannot create scratch dir: %v", err)
		return
	}
	defer os.RemoveAll(root)
	fix := map[string]*c19Fixture{}
	for name, st := range map[string]state.ClusterState{"tiny": c19Tiny(), "small": c19Small(), "mid": c19Mid(), "large": c19Large()} {
		fx, err := c19MakeFixture(root, name, st)
		if err != nil {
			r.HarnessError("%v", err)
			return
		}
		fix[name] = &fx
	}
	follows := map[string][]c19Follow{}
	for _, name := range []string{"tiny", "small", "mid", "large"} {
		fs, err := c19MakeFollows(root, fix[name], fix["tiny"])
		if err != nil {
			r.HarnessError("%v", err)
			return
		}
		follows[name] = fs
	}
	helper := os.Getenv("VERIF_HELPER_STATEFILE")

	if rf := r.Replay(); rf != nil {
		var kind struct {
			Kind string `json:"kind"`
		}
		_ = json.Unmarshal(rf.Replay, &kind)
		switch kind.Kind {
		case "crash":
			var rp c19CrashReplay
			_ = json.Unmarshal(rf.Replay, &rp)
			sc := c19FindScenario(rp.Scenario, fix)
			if sc == nil {
				r.HarnessError("replay: unknown scenario %q", rp.Scenario)
				return
			}
			res, err := c19RunHelper(root, helper, sc, rp.Syscall, rp.When)
			if err != nil {
				r.HarnessError("replay: %v", err)
				return
			}
			c19Judge(sc, res, rp.Syscall, rp.When)
			fmt.Printf("replay crash %s inject=%s when=%d: exit=%s killed at Save syscall %d (%s), load=%s err=%v\n", rp.Scenario, rp.Syscall, rp.When, res.exit, res.position, res.killedAt, res.outcome, res.loadErr)
			if rp.Second && res.viol == nil {
				sc2 := &c19Scenario{name: sc.name + " >> second Save (much-shorter state)", next: fix["tiny"], files: res.files,
					first: &c19CrashReplay{Kind: "crash", Scenario: sc.name, Syscall: rp.Syscall, When: rp.When}}
				if res.loadErr == nil {
					sc2.prev = &c19Fixture{name: "state-after-first-crash", canon: c19Canon(res.loaded)}
				}
				sc = sc2
				if res, err = c19RunHelper(root, helper, sc2, rp.Syscall2, rp.When2); err != nil {
					r.HarnessError("replay: %v", err)
					return
				}
				c19Judge(sc2, res, rp.Syscall2, rp.When2)
				fmt.Printf("replay second crash inject=%s when=%d: exit=%s killed at Save syscall %d (%s), load=%s err=%v\n", rp.Syscall2, rp.When2, res.exit, res.position, res.killedAt, res.outcome, res.loadErr)
			}
			if res.viol == nil {
				for _, fr := range c19RunFollowUps(res, follows[sc.next.name], res.rp, res.where) {
					fmt.Printf(" later Save %s: %s\n", fr.kind, fr.outcome)
					if fr.viol != nil && res.viol == nil {
						res.viol = fr.viol
					}
				}
			}
			if res.viol != nil {
				fmt.Printf(" VIOLATES: [%s] %s\n", res.viol.Fingerprint, res.viol.Message)
				r.MarkReplayReproduced()
				r.Violation(*res.viol)
			}
			r.Section(ev.Section{Name: "save-crash-points", Kind: "enum", Evaluations: 1, Note: "replay"})
		case "corrupt":
			var rp c19CorruptReplay
			_ = json.Unmarshal(rf.Replay, &rp)
			fx := fix[rp.Fixture]
			if fx == nil {
				r.HarnessError("replay: unknown fixture %q", rp.Fixture)
				return
			}
			outcome, v := c19CorruptCase(filepath.Join(root, c19StateName), fx, rp, c19Apply(fx, rp, fix))
			fmt.Printf("replay corruption %+v: %s\n", rp, outcome)
			if v != nil {
				fmt.Printf(" VIOLATES: [%s] %s\n", v.Fingerprint, v.Message)
				r.MarkReplayReproduced()
				r.Violation(*v)
			}
			r.Section(ev.Section{Name: "file-corruption", Kind: "enum", Evaluations: 1, Note: "replay"})
		default:
			r.HarnessError("replay: unknown payload kind %q", kind.Kind)
		}
		return
	}

	if helper == "" {
		r.HarnessError("VERIF_HELPER_STATEFILE is not set (run through /verif/check)")
		return
	}
	if _, err := os.Stat("/usr/bin/strace"); err != nil {
		r.HarnessError("strace is not available: %v", err)
		return
	}
	c19CrashSection(r, root, helper, fix, follows)
	c19CorruptionSection(r, root, fix)

	r.Assume("crash model = process kill (SIGKILL) between file-system calls of the saving thread; a kill is delivered on syscall entry, so each syscall of Save either happened completely or not at all (power loss / torn pages below the syscall level are not modelled)")
	r.Assume("strace signal injection keeps one counter per syscall number per thread; the helper pins Load+Save to the main OS thread, and every (syscall, n) instance that the uninjected run shows inside Save is injected once")
	r.Assume("'identical state' after a corruption means: Store.Load succeeds and the decoded state re-encodes to the same JSON (incl. checksum) as the uncorrupted file's state")
}

func c19Scenarios(fix map[string]*c19Fixture, thorough bool) []*c19Scenario {
	all := []*c19Scenario{
		{name: "replace-small-by-large", prev: fix["small"], next: fix["large"]},
		{name: "replace-large-by-small+stray-temps", prev: fix["large"], next: fix["small"], strayTemp: true},
		{name: "first-save-large", next: fix["large"]},
	}
	if thorough {
		all = append(all,
			&c19Scenario{name: "first-save-small+stray-temps", next: fix["small"], strayTemp: true},
			&c19Scenario{name: "replace-mid-by-large", prev: fix["mid"], next: fix["large"]},
			&c19Scenario{name: "replace-large-by-mid", prev: fix["large"], next: fix["mid"]},
		)
	}
	return all
}

func c19FindScenario(name string, fix map[string]*c19Fixture) *c19Scenario {
	for _, s := range c19Scenarios(fix, true) {
		if s.name == name {
			return s
		}
	}
	return nil
}
