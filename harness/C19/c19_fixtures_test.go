package statefile_test

import (
	"time"

	"github.com/WuKongIM/WuKongIM/pkg/controller/state"
)

func c19T0() time.Time { return time.Date(2026, 5, 24, 10, 0, 0, 0, time.UTC) }

func c19Nodes() []state.Node {
	mk := func(id uint64, roles ...state.NodeRole) state.Node {
		return state.Node{NodeID: id, Name: "n" + string(rune('0'+id)), Addr: "10.0.0." + string(rune('0'+id)) + ":7000", Roles: roles,
			JoinState: state.NodeJoinStateActive, Status: state.NodeStatusAlive, CapacityWeight: 10}
	}
	return []state.Node{
		mk(1, state.NodeRoleControllerVoter, state.NodeRoleData),
		mk(2, state.NodeRoleControllerVoter, state.NodeRoleData),
		mk(3, state.NodeRoleData),
	}
}

// c19Small is a freshly initialised cluster state (no slots, no tasks).
func c19Small() state.ClusterState {
	table, err := state.BuildInitialHashSlotTable(2, 4)
	if err != nil {
		panic(err)
	}
	return state.ClusterState{
		SchemaVersion:    state.CurrentSchemaVersion,
		ClusterID:        "wk-c19",
		Revision:         1,
		AppliedRaftIndex: 1,
		UpdatedAt:        c19T0(),
		Config:           state.ClusterConfig{SlotCount: 2, HashSlotCount: 4, ReplicaCount: 2, DefaultCapacityWeight: 10},
		Controllers: []state.ControllerVoter{
			{NodeID: 1, Addr: "10.0.0.1:7000", Role: state.ControllerRoleVoter},
			{NodeID: 2, Addr: "10.0.0.2:7000", Role: state.ControllerRoleVoter},
		},
		Nodes:     c19Nodes(),
		Slots:     []state.SlotAssignment{},
		HashSlots: table,
		Tasks:     []state.ReconcileTask{},
	}
}

// c19Large is a later state of the same cluster: both slots assigned, an active bootstrap
// task with participant progress, a staged replica move, health reports, a backup plan with
// history (non-ASCII text, escapes) and MCP credentials - every optional section is present.
func c19Large() state.ClusterState {
	st := c19Small()
	st.Revision = 9
	st.AppliedRaftIndex = 14
	st.UpdatedAt = c19T0().Add(90 * time.Minute)
	st.Slots = []state.SlotAssignment{
		{SlotID: 1, DesiredPeers: []uint64{1, 2}, ConfigEpoch: 1, PreferredLeader: 1},
		{SlotID: 2, DesiredPeers: []uint64{1, 2}, ConfigEpoch: 3, PreferredLeader: 2},
	}
	st.Tasks = []state.ReconcileTask{
		{TaskID: "slot-1-bootstrap-1", SlotID: 1, Kind: state.TaskKindBootstrap, Step: state.TaskStepCreateSlot, TargetNode: 1,
			TargetPeers: []uint64{1, 2}, CompletionPolicy: state.TaskCompletionPolicyAllTargetPeers,
			ParticipantProgress: []state.TaskParticipantProgress{
				{NodeID: 1, Status: state.TaskParticipantStatusDone},
				{NodeID: 2, Attempt: 1, Status: state.TaskParticipantStatusFailed, LastError: "dial tcp: \"n2\" unreachable <é中>\n"},
			}, ConfigEpoch: 1, Attempt: 2, Status: state.TaskStatusFailed, LastError: "participant 2 failed"},
		{TaskID: "slot-2-move-3", SlotID: 2, Kind: state.TaskKindSlotReplicaMove, Step: state.TaskStepAddLearner, SourceNode: 2, TargetNode: 3,
			TargetPeers: []uint64{1, 3}, CompletionPolicy: state.TaskCompletionPolicySingleObserver, ConfigEpoch: 3, Status: state.TaskStatusRunning,
			PhaseIndex: 1, ObservedConfigIndex: 77, ObservedVoters: []uint64{1, 2}, ObservedLearners: []uint64{3}},
	}
	st.NodeHealthReports = []state.NodeHealthReport{
		{NodeID: 1, Status: state.NodeStatusAlive, RuntimeReady: true, ObservedControlRevision: 8, ObservedSlotRevision: 4, ReportSeq: 12, ReportedAtUnixMilli: 1780000000000, AppliedRaftIndex: 13},
		{NodeID: 3, Status: state.NodeStatusSuspect, ObservedControlRevision: 7, ReportSeq: 3, ReportedAtUnixMilli: 1780000001000, AppliedRaftIndex: 12, ErrorCode: "slot_runtime_not_ready"},
	}
	st.ScheduledBackup = &state.ScheduledBackupState{
		Revision: 4, ManagerSessionEpoch: 2,
		Plan: &state.BackupPlan{Revision: 2, Enabled: true, Store: state.BackupStoreConfig{Kind: state.BackupStoreKindS3, Endpoint: "https://s3.example", Region: "eu-1",
			Bucket: "wk-backup", Prefix: "c19/", PathStyle: true, CredentialCiphertext: []byte{0, 1, 2, 250, 251, 252, 253, 254, 255}, CredentialRevision: 5},
			RepositoryVerification: &state.BackupRepositoryVerification{Status: state.BackupRepositoryVerificationVerified, VerifiedAtUnixMillis: 1780000000500},
			Cron:                   "0 3 * * *", TimeZone: "Asia/Shanghai", RetentionCount: 7, RateBytesPerSec: 1 << 20, WorkersPerNode: 2, MaxDurationMillis: 2 * 60 * 60 * 1000,
			ScheduleCursorUnixMillis: 1780000000000, CreatedUnixMillis: 1770000000000, UpdatedUnixMillis: 1775000000000},
		History: []state.BackupTaskRecord{
			{ID: "bk-1", Kind: "backup", Trigger: state.BackupTriggerInitial, Status: "succeeded", StartedUnixMillis: 1771000000000, CompletedUnixMillis: 1771000300000},
			{ID: "rs-1", Kind: "restore", Initiator: "ops@example", Status: "failed", StartedUnixMillis: 1772000000000, CompletedUnixMillis: 1772000100000, ErrorCode: "archive_missing"},
		},
	}
	st.OpsMCP = &state.OpsMCPState{Enabled: true, OwnerNodeID: 2, ProfileFenceUntilUnixMillis: 1780000009000, Credentials: []state.OpsMCPCredential{
		{ID: "tok-a", DigestSHA256: "00112233445566778899aabbccddeeff00112233445566778899aabbccddeeff", CreatedAtUnixMillis: 1779000000000},
		{ID: "tok-b", DigestSHA256: "ffeeddccbbaa99887766554433221100ffeeddccbbaa99887766554433221100", CreatedAtUnixMillis: 1779500000000},
	}}
	return st
}

// c19Mid is between the two: one assigned slot with a pending bootstrap task, MCP disabled.
func c19Mid() state.ClusterState {
	st := c19Small()
	st.Revision = 3
	st.AppliedRaftIndex = 5
	st.UpdatedAt = c19T0().Add(7 * time.Minute)
	st.Slots = []state.SlotAssignment{{SlotID: 2, DesiredPeers: []uint64{2, 3}, ConfigEpoch: 1, PreferredLeader: 3}}
	st.Tasks = []state.ReconcileTask{{TaskID: "slot-2-bootstrap-1", SlotID: 2, Kind: state.TaskKindBootstrap, Step: state.TaskStepCreateSlot, TargetNode: 3,
		TargetPeers: []uint64{2, 3}, CompletionPolicy: state.TaskCompletionPolicyAllTargetPeers,
		ParticipantProgress: []state.TaskParticipantProgress{{NodeID: 2, Status: state.TaskParticipantStatusPending}, {NodeID: 3, Status: state.TaskParticipantStatusPending}},
		ConfigEpoch:         1, Status: state.TaskStatusPending}}
	st.OpsMCP = &state.OpsMCPState{Enabled: false, Credentials: []state.OpsMCPCredential{}}
	return st
}

// c19Tiny encodes shorter than every other fixture (no node names, short ids and addresses).
func c19Tiny() state.ClusterState {
	st := c19Small()
	st.ClusterID = "wk"
	st.Config.DefaultCapacityWeight = 0
	for i := range st.Nodes {
		st.Nodes[i].Name = ""
		st.Nodes[i].Addr = "a" + string(rune('0'+st.Nodes[i].NodeID))
		st.Nodes[i].CapacityWeight = 1
	}
	for i := range st.Controllers {
		st.Controllers[i].Addr = "a" + string(rune('0'+st.Controllers[i].NodeID))
	}
	return st
}
