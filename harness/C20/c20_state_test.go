package state_test

// C20 / run "ctrlstate": the controller's durable initial hash-slot layout
// (state.BuildInitialHashSlotTable) maps every hash slot to exactly one physical slot.
// Black box: every (hash-slot count, slot count) of the menu.

import (
	"fmt"
	"testing"

	"github.com/WuKongIM/WuKongIM/pkg/controller/state"
	"github.com/WuKongIM/WuKongIM/pkg/zzverif/ev"
)

func TestVerifC20State(t *testing.T) {
	r := ev.Start(t, "C20")
	defer r.Finish()
	maxH := ev.Pick(r, 1024, 4096)
	hs := make([]int, 0, maxH+4)
	for h := 1; h <= maxH; h++ {
		hs = append(hs, h)
	}
	hs = append(hs, 4096, 16384, 65535)
	run := func(S, H int) (string, *ev.Violation) {
		tbl, err := state.BuildInitialHashSlotTable(uint32(S), uint16(H))
		if err != nil {
			if S <= H && S >= 1 {
				return "", &ev.Violation{Fingerprint: "C20:initial-layout-rejected", Message: fmt.Sprintf("BuildInitialHashSlotTable(%d,%d) failed: %v", S, H, err)}
			}
			return "rejected", nil
		}
		if S > H || S < 1 {
			// more physical slots than hash slots cannot give every slot a range; the
			// property does not say what to do, an accepted layout is still checked below
		}
		if int(tbl.SlotCount) != H {
			return "", &ev.Violation{Fingerprint: "C20:initial-layout-wrong-count", Message: fmt.Sprintf("BuildInitialHashSlotTable(%d,%d).SlotCount=%d", S, H, tbl.SlotCount)}
		}
		cover := make([]uint8, H)
		for _, rg := range tbl.Ranges {
			if rg.SlotID == 0 || int(rg.SlotID) > S {
				return "", &ev.Violation{Fingerprint: "C20:initial-layout-unknown-slot", Message: fmt.Sprintf("BuildInitialHashSlotTable(%d,%d): range %+v names slot %d", S, H, rg, rg.SlotID)}
			}
			if rg.From > rg.To || int(rg.To) >= H {
				return "", &ev.Violation{Fingerprint: "C20:initial-layout-bad-range", Message: fmt.Sprintf("BuildInitialHashSlotTable(%d,%d): range %+v", S, H, rg)}
			}
			for h := int(rg.From); h <= int(rg.To); h++ {
				if cover[h] < 2 {
					cover[h]++
				}
			}
		}
		for h, c := range cover {
			if c == 0 {
				return "", &ev.Violation{Fingerprint: "C20:hash-slot-unassigned", Message: fmt.Sprintf("BuildInitialHashSlotTable(%d,%d): hash slot %d is in no range", S, H, h)}
			}
			if c > 1 {
				return "", &ev.Violation{Fingerprint: "C20:hash-slot-assigned-twice", Message: fmt.Sprintf("BuildInitialHashSlotTable(%d,%d): hash slot %d is in more than one range", S, H, h)}
			}
		}
		return "total-map", nil
	}
	if rf := r.Replay(); rf != nil {
		var S, H int
		fmt.Sscanf(string(rf.Replay), "\"%d/%d\"", &S, &H)
		if _, v := run(S, H); v != nil {
			v.System, v.Replay = "initial-layout", fmt.Sprintf("%d/%d", S, H)
			r.Violation(*v)
			r.MarkReplayReproduced()
		}
		return
	}
	e := r.NewEnum("initial-layout")
	for _, H := range hs {
		for S := 0; S <= 65; S++ {
			out, v := run(S, H)
			if v != nil {
				v.System, v.Replay = "initial-layout", fmt.Sprintf("%d/%d", S, H)
				r.Violation(*v)
				e.CaseByConstruction(true, "violation")
				continue
			}
			e.CaseByConstruction(S >= 2 && S <= H, out)
		}
	}
	e.Done(true, map[string]any{"hash_slot_counts": fmt.Sprintf("1..%d, 4096, 16384, 65535", maxH), "slot_counts": "0..65"},
		"every accepted layout is checked for exactly-one coverage; slot counts 0 and > hash-slot count are expected to be rejected")
	r.Guard("accepted-and-rejected", e.Outcome("total-map") >= 1000 && e.Outcome("rejected") >= 100, "total-map=%d rejected=%d", e.Outcome("total-map"), e.Outcome("rejected"))
	r.Sample(map[string]any{"system": "initial-layout", "case": "BuildInitialHashSlotTable(3,10)", "observed": fmt.Sprint(state.BuildInitialHashSlotTable(3, 10))})
}
