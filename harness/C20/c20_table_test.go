package hashslot_test

// C20 - The hash-slot table assigns every hash slot to exactly one slot.
//
// Black-box explicit-state exploration of the real hashslot.HashSlotTable and the real
// plan functions: for every small shape (H hash slots x S initial physical slots) a BFS over
// every sequence of Reassign / StartMigration / AdvanceMigration / FinalizeMigration /
// AbortMigration / add-, remove- and rebalance-plan (computed by the real planner and applied
// through the real migration lifecycle), merging on the table content read back through the
// exported API. Plus a deterministic grid of large shapes with worst-case skews.
//
// Oracle (the statement of C20, read literally):
//   * total map: every hash slot < H has one non-zero physical slot, HashSlotsOf partitions;
//   * Decode(Encode(t)) == t (version, count, assignment, active migrations), re-encode equal;
//   * every effective change of the content strictly increases Version();
//   * a plan moves a hash slot at most once, From == current owner, To != From, To != 0;
//   * after applying a plan every participating slot is within one hash slot of T/n.
//
// Known limitation of the repository (coordinator decision, fingerprints
// C20:add-plan-leaves-preexisting-skew / C20:remove-plan-leaves-preexisting-skew): add and
// remove plans only fill the new slot / drain the removed slot; a table that was not
// balanced before the plan (two active slots differ by >= 2 hash slots) may stay more than
// one off. These occurrences are collected and reported once (smallest example); every other
// balance failure has a different fingerprint.

import (
	"bytes"
	"encoding/binary"
	"encoding/json"
	"fmt"
	"reflect"
	"runtime"
	"sort"
	"strconv"
	"strings"
	"sync"
	"sync/atomic"
	"testing"

	"github.com/WuKongIM/WuKongIM/pkg/hashslot"
	"github.com/WuKongIM/WuKongIM/pkg/slot/multiraft"
	"github.com/WuKongIM/WuKongIM/pkg/zzverif/ev"
	"github.com/WuKongIM/WuKongIM/pkg/zzverif/mc"
)

const (
	c20FpAddSkew    = "C20:add-plan-leaves-preexisting-skew"
	c20FpRemoveSkew = "C20:remove-plan-leaves-preexisting-skew"
)

// ------------------------------------------------------------------ shared statistics

type c20Stats struct {
	effective, noops                     atomic.Int64
	plansNonEmpty, plansEmpty            atomic.Int64
	plansOnSkewed, plansOnBalanced       atomic.Int64
	skewFindings                         atomic.Int64
	roundtripsWithMigrations, roundtrips atomic.Int64
	lifecycleSteps                       atomic.Int64
	staleSourceFinalize                  atomic.Int64
}

// c20Finding is one occurrence of the known add/remove-plan limitation.
type c20Finding struct {
	rank   int // smaller shape first
	system string
	path   []string
	grid   *c20GridCase
	msg    string
}

type c20Collector struct {
	mu   sync.Mutex
	best map[string]*c20Finding
	n    map[string]int64
}

func newC20Collector() *c20Collector {
	return &c20Collector{best: map[string]*c20Finding{}, n: map[string]int64{}}
}

func (c *c20Collector) add(fp string, f *c20Finding) {
	c.mu.Lock()
	defer c.mu.Unlock()
	c.n[fp]++
	b := c.best[fp]
	if b == nil || c20Less(f, b) {
		c.best[fp] = f
	}
}

func c20Less(a, b *c20Finding) bool {
	if a.rank != b.rank {
		return a.rank < b.rank
	}
	if len(a.path) != len(b.path) {
		return len(a.path) < len(b.path)
	}
	return strings.Join(a.path, ";") < strings.Join(b.path, ";")
}

// ------------------------------------------------------------------ helpers on the real table

// c20Content is the observable content of a table (everything except the version), read
// through the exported API only (not through Encode, which is under test).
func c20Content(t *hashslot.HashSlotTable) string {
	n := int(t.HashSlotCount())
	buf := make([]byte, 0, 4+n*2+16)
	buf = binary.AppendUvarint(buf, uint64(n))
	for h := 0; h < n; h++ {
		buf = binary.AppendUvarint(buf, uint64(t.Lookup(uint16(h))))
	}
	for _, m := range t.ActiveMigrations() {
		buf = append(buf, 0xff)
		buf = binary.AppendUvarint(buf, uint64(m.HashSlot))
		buf = binary.AppendUvarint(buf, uint64(m.Source))
		buf = binary.AppendUvarint(buf, uint64(m.Target))
		buf = append(buf, byte(m.Phase))
	}
	return string(buf)
}

func c20Counts(t *hashslot.HashSlotTable) map[multiraft.SlotID]int {
	out := map[multiraft.SlotID]int{}
	n := int(t.HashSlotCount())
	for h := 0; h < n; h++ {
		out[t.Lookup(uint16(h))]++
	}
	return out
}

func c20SortedSlots(m map[multiraft.SlotID]int) []multiraft.SlotID {
	out := make([]multiraft.SlotID, 0, len(m))
	for s := range m {
		out = append(out, s)
	}
	sort.Slice(out, func(i, j int) bool { return out[i] < out[j] })
	return out
}

func c20CountsString(m map[multiraft.SlotID]int) string {
	var b strings.Builder
	b.WriteByte('{')
	for i, s := range c20SortedSlots(m) {
		if i > 0 {
			b.WriteByte(' ')
		}
		fmt.Fprintf(&b, "%d:%d", s, m[s])
	}
	b.WriteByte('}')
	return b.String()
}

// c20Step runs one mutation of the real table and applies the version oracle: an effective
// change of the content must strictly increase the version; the version never decreases.
func c20Step(t *hashslot.HashSlotTable, what string, _ int, st *c20Stats, f func()) (changed bool, err error) {
	before, v0 := c20Content(t), t.Version()
	f()
	after, v1 := c20Content(t), t.Version()
	changed = before != after
	if v1 < v0 {
		return changed, mc.Violatef("C20:version-decreased", "%s: version went from %d to %d", what, v0, v1)
	}
	if changed && v1 <= v0 {
		return changed, mc.Violatef("C20:version-not-increased-on-effective-change", "%s changed the table content but the version stayed %d", what, v0)
	}
	if changed {
		st.effective.Add(1)
	} else {
		st.noops.Add(1)
	}
	return changed, nil
}

// c20Stepper is c20Step or c20StepLocal.
type c20Stepper func(t *hashslot.HashSlotTable, what string, h int, st *c20Stats, f func()) (bool, error)

// c20StepLocal is the version oracle for large tables: the operation addresses hash slot h,
// and only that hash slot's assignment and migration record (plus the hash-slot count) are
// compared before/after (O(1) instead of O(H)); h < 0 falls back to the full comparison.
// That an operation on h leaves every other hash slot alone is covered by the exhaustive
// small shapes, which always compare the full content.
func c20StepLocal(t *hashslot.HashSlotTable, what string, h int, st *c20Stats, f func()) (changed bool, err error) {
	if h < 0 {
		return c20Step(t, what, h, st, f)
	}
	v0, n0, a0, m0 := t.Version(), t.HashSlotCount(), t.Lookup(uint16(h)), t.GetMigration(uint16(h))
	f()
	v1, n1, a1, m1 := t.Version(), t.HashSlotCount(), t.Lookup(uint16(h)), t.GetMigration(uint16(h))
	changed = n0 != n1 || a0 != a1 || (m0 == nil) != (m1 == nil) || (m0 != nil && *m0 != *m1)
	if v1 < v0 {
		return changed, mc.Violatef("C20:version-decreased", "%s: version went from %d to %d", what, v0, v1)
	}
	if changed && v1 <= v0 {
		return changed, mc.Violatef("C20:version-not-increased-on-effective-change", "%s changed the table content but the version stayed %d", what, v0)
	}
	if changed {
		st.effective.Add(1)
	} else {
		st.noops.Add(1)
	}
	return changed, nil
}

// c20CheckTable is the state invariant: total map, partition, encode/decode round trip.
func c20CheckTable(t *hashslot.HashSlotTable, H uint16, univ []multiraft.SlotID, st *c20Stats) error {
	if t.HashSlotCount() != H {
		return mc.Violatef("C20:hash-slot-count-changed", "HashSlotCount()=%d, table was created with %d", t.HashSlotCount(), H)
	}
	inUniv := func(s multiraft.SlotID) bool {
		for _, u := range univ {
			if u == s {
				return true
			}
		}
		return false
	}
	for h := 0; h < int(H); h++ {
		s := t.Lookup(uint16(h))
		if s == 0 {
			return mc.Violatef("C20:hash-slot-unassigned", "hash slot %d of %d maps to no physical slot", h, H)
		}
		if !inUniv(s) {
			return mc.Violatef("C20:hash-slot-assigned-to-unknown-slot", "hash slot %d maps to physical slot %d which no operation ever named", h, s)
		}
	}
	// HashSlotsOf must partition the hash slots consistently with Lookup ("exactly one").
	total := 0
	for _, u := range univ {
		for _, h := range t.HashSlotsOf(u) {
			total++
			if h >= H || t.Lookup(h) != u {
				return mc.Violatef("C20:hashslotsof-disagrees-with-lookup", "HashSlotsOf(%d) lists hash slot %d but Lookup says %d", u, h, t.Lookup(h))
			}
		}
	}
	if total != int(H) {
		return mc.Violatef("C20:hashslotsof-not-a-partition", "HashSlotsOf over all slots lists %d hash slots, table has %d", total, H)
	}
	// encode / decode round trip, including active migrations
	enc := t.Encode()
	d, err := hashslot.DecodeHashSlotTable(enc)
	if err != nil {
		return mc.Violatef("C20:decode-rejects-own-encoding", "DecodeHashSlotTable(Encode(t)) failed: %v", err)
	}
	if d.Version() != t.Version() {
		return mc.Violatef("C20:roundtrip-version-differs", "version %d decoded as %d", t.Version(), d.Version())
	}
	if d.HashSlotCount() != t.HashSlotCount() {
		return mc.Violatef("C20:roundtrip-count-differs", "hash slot count %d decoded as %d", t.HashSlotCount(), d.HashSlotCount())
	}
	for h := 0; h < int(H); h++ {
		if d.Lookup(uint16(h)) != t.Lookup(uint16(h)) {
			return mc.Violatef("C20:roundtrip-assignment-differs", "hash slot %d: slot %d decoded as %d", h, t.Lookup(uint16(h)), d.Lookup(uint16(h)))
		}
	}
	am, dm := t.ActiveMigrations(), d.ActiveMigrations()
	if len(am) != len(dm) || (len(am) > 0 && !reflect.DeepEqual(am, dm)) {
		return mc.Violatef("C20:roundtrip-migrations-differ", "active migrations %v decoded as %v", am, dm)
	}
	if !bytes.Equal(d.Encode(), enc) {
		return mc.Violatef("C20:reencode-differs", "Encode(Decode(Encode(t))) differs from Encode(t)")
	}
	st.roundtrips.Add(1)
	if len(am) > 0 {
		st.roundtripsWithMigrations.Add(1)
	}
	return nil
}

// c20PlanKind is add / remove / rebalance.
type c20PlanKind int

const (
	c20Add c20PlanKind = iota
	c20Remove
	c20Rebalance
)

func (k c20PlanKind) String() string { return [...]string{"add", "remove", "rebalance"}[k] }

// c20PlanResult describes one evaluated plan.
type c20PlanResult struct {
	obs       string
	skewFP    string // non-empty: the known add/remove limitation occurred
	skewMsg   string
	planMoves int
}

// c20RunPlan computes a plan with the real planner, checks its structure, applies it to t
// through the real migration lifecycle (and to a clone through Reassign), and checks the
// balance claim. t is left in the post-plan state.
func c20RunPlan(t *hashslot.HashSlotTable, H uint16, kind c20PlanKind, slot multiraft.SlotID, st *c20Stats, step c20Stepper) (c20PlanResult, error) {
	var res c20PlanResult
	what := kind.String()
	if kind != c20Rebalance {
		what += fmt.Sprintf("(%d)", slot)
	}
	pre := c20Counts(t)
	var plan []hashslot.MigrationPlan
	if _, err := step(t, "computing the "+what+" plan", -1, st, func() {
		switch kind {
		case c20Add:
			plan = hashslot.ComputeAddSlotPlan(t, slot)
		case c20Remove:
			plan = hashslot.ComputeRemoveSlotPlan(t, slot)
		default:
			plan = hashslot.ComputeRebalancePlan(t)
		}
	}); err != nil {
		return res, err
	}
	res.planMoves = len(plan)
	// ---- structure: each hash slot at most once, only away from its current owner
	seen := map[uint16]bool{}
	for _, m := range plan {
		if m.HashSlot >= H {
			return res, mc.Violatef("C20:plan-moves-nonexistent-hash-slot", "%s plan moves hash slot %d, table has %d", what, m.HashSlot, H)
		}
		if seen[m.HashSlot] {
			return res, mc.Violatef("C20:plan-moves-hash-slot-twice", "%s plan moves hash slot %d more than once: %v", what, m.HashSlot, plan)
		}
		seen[m.HashSlot] = true
		if cur := t.Lookup(m.HashSlot); m.From != cur {
			return res, mc.Violatef("C20:plan-from-not-current-owner", "%s plan moves hash slot %d from %d but its owner is %d", what, m.HashSlot, m.From, cur)
		}
		if m.To == m.From {
			return res, mc.Violatef("C20:plan-moves-to-current-owner", "%s plan moves hash slot %d from %d to itself", what, m.HashSlot, m.From)
		}
		if m.To == 0 {
			return res, mc.Violatef("C20:plan-moves-to-no-slot", "%s plan moves hash slot %d to slot 0", what, m.HashSlot)
		}
	}
	if len(plan) == 0 {
		st.plansEmpty.Add(1)
	} else {
		st.plansNonEmpty.Add(1)
	}
	// ---- apply: clone through Reassign, the table itself through the migration lifecycle
	viaReassign := t.Clone()
	for _, m := range plan {
		viaReassign.Reassign(m.HashSlot, m.To)
	}
	type lifecycleStep struct {
		name string
		f    func()
	}
	for _, m := range plan {
		m := m
		var steps []lifecycleStep
		if t.GetMigration(m.HashSlot) != nil {
			// a stale migration of this hash slot is aborted first, as a controller would
			steps = append(steps, lifecycleStep{"AbortMigration (stale, before the plan move)", func() { t.AbortMigration(m.HashSlot) }})
		}
		steps = append(steps,
			lifecycleStep{"StartMigration", func() { t.StartMigration(m.HashSlot, m.From, m.To) }},
			lifecycleStep{"AdvanceMigration(delta)", func() { t.AdvanceMigration(m.HashSlot, hashslot.PhaseDelta) }},
			lifecycleStep{"AdvanceMigration(switching)", func() { t.AdvanceMigration(m.HashSlot, hashslot.PhaseSwitching) }},
			lifecycleStep{"FinalizeMigration", func() { t.FinalizeMigration(m.HashSlot) }},
		)
		for _, s := range steps {
			if _, err := step(t, fmt.Sprintf("%s of hash slot %d (%s plan)", s.name, m.HashSlot, what), int(m.HashSlot), st, s.f); err != nil {
				return res, err
			}
			st.lifecycleSteps.Add(1)
		}
	}
	for _, m := range plan {
		if a, b := viaReassign.Lookup(m.HashSlot), t.Lookup(m.HashSlot); a != m.To || b != m.To {
			return res, mc.Violatef("C20:plan-application-did-not-move-hash-slot", "%s plan: hash slot %d should be at %d, Reassign gives %d, migration lifecycle gives %d", what, m.HashSlot, m.To, a, b)
		}
	}
	post := c20Counts(t)
	if !reflect.DeepEqual(post, c20Counts(viaReassign)) {
		return res, mc.Violatef("C20:plan-application-paths-disagree", "%s plan: counts via Reassign %s differ from counts via migrations %s", what, c20CountsString(c20Counts(viaReassign)), c20CountsString(post))
	}

	// ---- balance
	T := int(H)
	preActive := map[multiraft.SlotID]bool{}
	minC, maxC := 1<<30, 0
	for s, c := range pre {
		if s != 0 && c > 0 {
			preActive[s] = true
			if c < minC {
				minC = c
			}
			if c > maxC {
				maxC = c
			}
		}
	}
	preSkewed := len(preActive) > 0 && maxC-minC >= 2
	part := map[multiraft.SlotID]bool{}
	for s := range preActive {
		part[s] = true
	}
	degenerate := false
	switch kind {
	case c20Add:
		if slot == 0 || preActive[slot] {
			degenerate = true
		} else {
			part[slot] = true
		}
	case c20Remove:
		if !preActive[slot] || len(preActive) == 1 {
			degenerate = true
		} else {
			delete(part, slot)
		}
	}
	n := len(part)
	if n == 0 {
		res.obs = what2obs(kind, "no-slots", len(plan))
		return res, nil
	}
	if preSkewed {
		st.plansOnSkewed.Add(1)
	} else {
		st.plansOnBalanced.Add(1)
	}
	floor, ceil := T/n, (T+n-1)/n
	within := func(c int) bool { d := c*n - T; return d <= n && d >= -n }
	if degenerate {
		// add of an existing slot, remove of an absent / the only slot: nothing is demanded
		// beyond structure; an empty plan is what the planner gives.
		res.obs = what2obs(kind, "degenerate", len(plan))
		return res, nil
	}
	if kind == c20Remove && post[slot] != 0 {
		return res, mc.Violatef("C20:remove-plan-not-drained", "remove(%d) plan leaves %d hash slots on the removed slot: before %s after %s", slot, post[slot], c20CountsString(pre), c20CountsString(post))
	}
	if kind == c20Add && !within(post[slot]) {
		return res, mc.Violatef("C20:add-plan-new-slot-off-ideal", "add(%d) plan leaves the new slot with %d hash slots, ideal share %d/%d: before %s after %s", slot, post[slot], T, n, c20CountsString(pre), c20CountsString(post))
	}
	for _, m := range plan {
		if !(kind == c20Remove && m.From == slot) && part[m.From] && post[m.From] < floor {
			return res, mc.Violatef("C20:plan-donor-pushed-below-ideal", "%s plan takes from slot %d until it holds %d < floor(%d/%d): before %s after %s", what, m.From, post[m.From], T, n, c20CountsString(pre), c20CountsString(post))
		}
		if part[m.To] && post[m.To] > ceil {
			return res, mc.Violatef("C20:plan-receiver-pushed-above-ideal", "%s plan gives to slot %d until it holds %d > ceil(%d/%d): before %s after %s", what, m.To, post[m.To], T, n, c20CountsString(pre), c20CountsString(post))
		}
	}
	var off []string
	for _, s := range c20SortedSlots(post) {
		if part[s] && !within(post[s]) {
			off = append(off, fmt.Sprintf("slot %d holds %d", s, post[s]))
		}
	}
	for s := range part {
		if _, ok := post[s]; !ok && !within(0) {
			off = append(off, fmt.Sprintf("slot %d holds 0", s))
		}
	}
	sort.Strings(off)
	if len(off) == 0 {
		res.obs = what2obs(kind, map[bool]string{true: "within-one-from-skewed", false: "within-one-from-balanced"}[preSkewed], len(plan))
		return res, nil
	}
	detail := fmt.Sprintf("after applying the %s plan (%d moves) %s; ideal share %d/%d=%.2f; counts before %s after %s", what, len(plan), strings.Join(off, ", "), T, n, float64(T)/float64(n), c20CountsString(pre), c20CountsString(post))
	switch {
	case kind == c20Rebalance:
		return res, mc.Violatef("C20:rebalance-plan-not-within-one", "%s", detail)
	case !preSkewed && kind == c20Add:
		return res, mc.Violatef("C20:add-plan-not-within-one-from-balanced-table", "%s", detail)
	case !preSkewed && kind == c20Remove:
		return res, mc.Violatef("C20:remove-plan-not-within-one-from-balanced-table", "%s", detail)
	case kind == c20Add:
		res.skewFP = c20FpAddSkew
	default:
		res.skewFP = c20FpRemoveSkew
	}
	st.skewFindings.Add(1)
	res.skewMsg = "table was already skewed before the plan (two active slots differ by >= 2) and " + detail
	res.obs = what2obs(kind, "known-skew-left", len(plan))
	return res, nil
}

func what2obs(kind c20PlanKind, verdict string, moves int) string {
	m := "moves=0"
	if moves == 1 {
		m = "moves=1"
	} else if moves > 1 {
		m = "moves>1"
	}
	return kind.String() + ":" + verdict + ":" + m
}

// ------------------------------------------------------------------ mc instance

type c20Shape struct {
	H     uint16
	S     int
	Depth int
}

func (s c20Shape) name() string { return fmt.Sprintf("table-H%d-S%d", s.H, s.S) }

type c20Inst struct {
	t      *hashslot.HashSlotTable
	shape  c20Shape
	univ   []multiraft.SlotID
	events []string
	hist   []string
	st     *c20Stats
	col    *c20Collector // nil: report the known limitation as an error (replay mode)
	rank   int
	// exploring is true for instances produced by Clone (mc clones the replayed base once
	// per explored transition); instances that replay a prefix do not count statistics.
	exploring bool
}

var c20Discard c20Stats

func (in *c20Inst) stats() *c20Stats {
	if in.exploring {
		return in.st
	}
	return &c20Discard
}

func c20Events(sh c20Shape, univ []multiraft.SlotID) []string {
	var evs []string
	H := int(sh.H)
	for h := 0; h < H; h++ {
		for _, s := range univ {
			evs = append(evs, fmt.Sprintf("reassign:%d:%d", h, s))
		}
	}
	for h := 0; h < H; h++ {
		for _, s := range univ {
			evs = append(evs, fmt.Sprintf("start:%d:%d", h, s))
		}
	}
	for h := 0; h < H; h++ {
		for p := 0; p < 4; p++ {
			evs = append(evs, fmt.Sprintf("advance:%d:%d", h, p))
		}
	}
	for h := 0; h < H; h++ {
		evs = append(evs, fmt.Sprintf("finalize:%d", h))
	}
	for h := 0; h < H; h++ {
		evs = append(evs, fmt.Sprintf("abort:%d", h))
	}
	evs = append(evs, "rebalance")
	for _, s := range univ {
		evs = append(evs, fmt.Sprintf("add:%d", s))
	}
	for _, s := range univ {
		evs = append(evs, fmt.Sprintf("remove:%d", s))
	}
	// boundary: hash slot index == H (out of range), wrong migration source
	evs = append(evs, fmt.Sprintf("reassign:%d:1", H), fmt.Sprintf("start:%d:%d", H, univ[len(univ)-1]),
		fmt.Sprintf("finalize:%d", H), fmt.Sprintf("abort:%d", H), "startbad:0")
	return evs
}

func (in *c20Inst) Events() []string { return in.events }

func (in *c20Inst) Clone() mc.Instance {
	cp := *in
	cp.t = in.t.Clone()
	cp.hist = append(make([]string, 0, len(in.hist)+1), in.hist...)
	cp.exploring = true
	return &cp
}

func (in *c20Inst) Apply(evl string, _ *mc.Env) (string, error) {
	in.hist = append(in.hist, evl)
	parts := strings.Split(evl, ":")
	arg := func(i int) int { v, _ := strconv.Atoi(parts[i]); return v }
	t := in.t
	simple := func(f func()) (string, error) {
		changed, err := c20Step(t, evl, -1, in.stats(), f)
		if err != nil {
			return "", err
		}
		if changed {
			return parts[0] + ":effective", nil
		}
		return parts[0] + ":noop", nil
	}
	switch parts[0] {
	case "reassign":
		return simple(func() { t.Reassign(uint16(arg(1)), multiraft.SlotID(arg(2))) })
	case "start":
		h := uint16(arg(1))
		return simple(func() { t.StartMigration(h, t.Lookup(h), multiraft.SlotID(arg(2))) })
	case "startbad":
		// source is not the current owner
		h := uint16(arg(1))
		cur := t.Lookup(h)
		src, tgt := in.univ[0], in.univ[len(in.univ)-1]
		if src == cur {
			src = in.univ[1%len(in.univ)]
		}
		if src == cur { // single-slot universe cannot name a wrong source
			src = cur + 100
		}
		return simple(func() { t.StartMigration(h, src, tgt) })
	case "advance":
		return simple(func() { t.AdvanceMigration(uint16(arg(1)), hashslot.MigrationPhase(arg(2))) })
	case "finalize":
		h := uint16(arg(1))
		if m := t.GetMigration(h); m != nil && m.Source != t.Lookup(h) {
			in.stats().staleSourceFinalize.Add(1)
		}
		return simple(func() { t.FinalizeMigration(h) })
	case "abort":
		return simple(func() { t.AbortMigration(uint16(arg(1))) })
	case "add", "remove", "rebalance":
		kind := map[string]c20PlanKind{"add": c20Add, "remove": c20Remove, "rebalance": c20Rebalance}[parts[0]]
		slot := multiraft.SlotID(0)
		if kind != c20Rebalance {
			slot = multiraft.SlotID(arg(1))
		}
		res, err := c20RunPlan(t, in.shape.H, kind, slot, in.stats(), c20Step)
		if err != nil {
			return "", err
		}
		if res.skewFP != "" {
			if in.col == nil {
				return res.obs, mc.Violatef(res.skewFP, "%s", res.skewMsg)
			}
			if in.exploring {
				in.col.add(res.skewFP, &c20Finding{rank: in.rank, system: in.shape.name(), path: append([]string(nil), in.hist...), msg: res.skewMsg})
			}
		}
		return res.obs, nil
	}
	panic("unknown event " + evl)
}

func (in *c20Inst) Canon() string { return c20Content(in.t) }

func (in *c20Inst) Check() error { return c20CheckTable(in.t, in.shape.H, in.univ, in.stats()) }

func c20Universe(S int) []multiraft.SlotID {
	u := make([]multiraft.SlotID, 0, S+1)
	for i := 1; i <= S+1; i++ {
		u = append(u, multiraft.SlotID(i))
	}
	return u
}

func c20System(sh c20Shape, rank int, st *c20Stats, col *c20Collector) mc.System {
	univ := c20Universe(sh.S)
	events := c20Events(sh, univ)
	return mc.System{
		Name: sh.name(),
		New: func() mc.Instance {
			return &c20Inst{t: hashslot.NewHashSlotTable(sh.H, sh.S), shape: sh, univ: univ, events: events, st: st, col: col, rank: rank}
		},
		MaxDepth: sh.Depth,
		Bounds:   map[string]any{"hash_slots": sh.H, "initial_physical_slots": sh.S, "slot_universe": len(univ), "events": len(events)},
		Note: "merging on the table content read back through Lookup/ActiveMigrations; the version is excluded from the key " +
			"(no table operation reads it, the oracle only compares it before/after one transition)",
	}
}

// c20Shapes: (H, S, depth). Depth 0 entries are skipped. Tiny shapes get a depth large
// enough for the BFS to close (frontier empties: every reachable table visited).
func c20Shapes(thorough bool) []c20Shape {
	const closes = 60 // larger than the diameter: the BFS stops when the frontier empties
	if !thorough {
		return []c20Shape{
			{1, 1, closes}, {1, 2, closes}, {2, 1, closes}, {2, 2, closes}, {3, 1, closes}, {2, 3, closes},
			{3, 2, 5}, {4, 2, 4}, {5, 2, 4}, {4, 3, 4}, {3, 4, 4}, {6, 3, 3}, {7, 3, 3}, {7, 4, 3}, {9, 2, 3}, {12, 1, 3}, {12, 4, 2},
		}
	}
	var out []c20Shape
	for H := 1; H <= 12; H++ {
		for S := 1; S <= 4; S++ {
			d := 3
			switch {
			case H <= 2, H == 3 && S <= 2:
				d = closes
			case H == 3 && S == 3:
				d = 6
			case H == 3, H == 5 && S == 4:
				d = 5 - (H-3)/2
			case H == 8 && S == 4:
				d = 3
			case H <= 5:
				d = 5
			case H <= 8:
				d = 4
			}
			out = append(out, c20Shape{uint16(H), S, d})
		}
	}
	return out
}

// ------------------------------------------------------------------ large-shape grid (enum)

type c20GridCase struct {
	Kind string `json:"kind"` // "grid"
	H    int    `json:"hash_slots"`
	S    int    `json:"slots"`
	Skew string `json:"skew"`
	Op   string `json:"op"` // rebalance | add:<id> | remove:<id>
}

var c20Skews = []string{"balanced", "all-on-first", "all-on-last", "staircase", "two-off", "one-slot-emptied", "alternating-heavy"}

// c20ApplySkew reshapes a fresh table through real Reassign calls (version oracle applied).
func c20ApplySkew(t *hashslot.HashSlotTable, H, S int, skew string, st *c20Stats) error {
	re := func(h int, s int) error {
		_, err := c20StepLocal(t, "Reassign", h, st, func() { t.Reassign(uint16(h), multiraft.SlotID(s)) })
		return err
	}
	active := S
	if active > H {
		active = H
	}
	switch skew {
	case "balanced":
	case "all-on-first", "all-on-last":
		heavy := 1
		if skew == "all-on-last" {
			heavy = active
		}
		// keep exactly one hash slot on every other slot
		kept := map[multiraft.SlotID]bool{}
		for h := 0; h < H; h++ {
			cur := t.Lookup(uint16(h))
			if int(cur) != heavy && !kept[cur] {
				kept[cur] = true
				continue
			}
			if err := re(h, heavy); err != nil {
				return err
			}
		}
	case "staircase":
		// slot j gets a share proportional to j
		tot := active * (active + 1) / 2
		h := 0
		for j := 1; j <= active; j++ {
			cnt := H * j / tot
			if cnt == 0 {
				cnt = 1
			}
			for i := 0; i < cnt && h < H; i++ {
				if err := re(h, j); err != nil {
					return err
				}
				h++
			}
		}
		for ; h < H; h++ {
			if err := re(h, active); err != nil {
				return err
			}
		}
	case "two-off":
		// smallest possible skew: one hash slot from the last active slot to slot 1
		if active >= 2 {
			hs := t.HashSlotsOf(multiraft.SlotID(active))
			if len(hs) >= 2 {
				return re(int(hs[0]), 1)
			}
		}
	case "one-slot-emptied":
		if active >= 2 {
			for _, h := range t.HashSlotsOf(2) {
				if err := re(int(h), 1); err != nil {
					return err
				}
			}
		}
	case "alternating-heavy":
		// odd slots take every hash slot but one of their right neighbour
		for j := 1; j+1 <= active; j += 2 {
			hs := t.HashSlotsOf(multiraft.SlotID(j + 1))
			for _, h := range hs[:len(hs)-1] {
				if err := re(int(h), j); err != nil {
					return err
				}
			}
		}
	}
	return nil
}

// c20RunGridCase executes one grid case on the real code. It returns the outcome label, an
// optional known-limitation finding and a violation.
func c20RunGridCase(c c20GridCase, st *c20Stats) (string, *c20PlanResult, error) {
	H, S := c.H, c.S
	t := hashslot.NewHashSlotTable(uint16(H), S)
	univ := make([]multiraft.SlotID, 0, S+2)
	for i := 1; i <= S+2; i++ {
		univ = append(univ, multiraft.SlotID(i))
	}
	chk := func() error { return c20CheckTable(t, uint16(H), univ, st) }
	if err := chk(); err != nil {
		return "", nil, err
	}
	if err := c20ApplySkew(t, H, S, c.Skew, st); err != nil {
		return "", nil, err
	}
	if err := chk(); err != nil {
		return "", nil, err
	}
	// migrations in flight on every 5th hash slot, all four phases, then encode/decode
	nUniv := len(univ)
	for h := 0; h < H; h += 5 {
		h := h
		cur := t.Lookup(uint16(h))
		tgt := univ[(int(cur)+h)%nUniv]
		if _, err := c20StepLocal(t, "StartMigration", h, st, func() { t.StartMigration(uint16(h), cur, tgt) }); err != nil {
			return "", nil, err
		}
		ph := hashslot.MigrationPhase((h / 5) % 4)
		if _, err := c20StepLocal(t, "AdvanceMigration", h, st, func() { t.AdvanceMigration(uint16(h), ph) }); err != nil {
			return "", nil, err
		}
	}
	if err := chk(); err != nil {
		return "", nil, err
	}
	// half of them abort, half finalize back (finalize would change the skew: abort all but
	// keep every 10th in flight while the plan runs)
	for h := 0; h < H; h += 5 {
		h := h
		if (h/5)%2 == 0 {
			if _, err := c20StepLocal(t, "AbortMigration", h, st, func() { t.AbortMigration(uint16(h)) }); err != nil {
				return "", nil, err
			}
		}
	}
	if err := chk(); err != nil {
		return "", nil, err
	}
	kind, slot := c20Rebalance, multiraft.SlotID(0)
	if strings.HasPrefix(c.Op, "add:") {
		v, _ := strconv.Atoi(c.Op[4:])
		kind, slot = c20Add, multiraft.SlotID(v)
	} else if strings.HasPrefix(c.Op, "remove:") {
		v, _ := strconv.Atoi(c.Op[7:])
		kind, slot = c20Remove, multiraft.SlotID(v)
	}
	res, err := c20RunPlan(t, uint16(H), kind, slot, st, c20StepLocal)
	if err != nil {
		return "", nil, err
	}
	if err := chk(); err != nil {
		return "", nil, err
	}
	// a rebalance plan afterwards must reach within-one from whatever the first plan left
	res2, err := c20RunPlan(t, uint16(H), c20Rebalance, 0, st, c20StepLocal)
	if err != nil {
		return "", nil, err
	}
	if err := chk(); err != nil {
		return "", nil, err
	}
	if res.skewFP != "" {
		return res.obs + "|then-" + res2.obs, &res, nil
	}
	return res.obs + "|then-" + res2.obs, nil, nil
}

func c20GridCases(thorough bool) []c20GridCase {
	Hs := []int{256, 4096}
	Ss := []int{1, 2, 3, 5, 8, 16, 33, 63, 64}
	if thorough {
		Hs = []int{1, 2, 3, 7, 63, 64, 65, 255, 256, 257, 1000, 1023, 1024, 4095, 4096}
		Ss = nil
		for s := 1; s <= 64; s++ {
			Ss = append(Ss, s)
		}
	}
	var out []c20GridCase
	for _, H := range Hs {
		for _, S := range Ss {
			active := S
			if active > H {
				active = H
			}
			ops := []string{"rebalance", fmt.Sprintf("add:%d", S+1), fmt.Sprintf("add:%d", S+2), "add:1",
				"remove:1", fmt.Sprintf("remove:%d", active), fmt.Sprintf("remove:%d", (active+1)/2), "remove:2"}
			seenOp := map[string]bool{}
			for _, skew := range c20Skews {
				for _, op := range ops {
					k := skew + "|" + op
					if seenOp[k] {
						continue
					}
					seenOp[k] = true
					out = append(out, c20GridCase{Kind: "grid", H: H, S: S, Skew: skew, Op: op})
				}
			}
		}
	}
	return out
}

// ------------------------------------------------------------------ codec boundary enumeration

// c20CodecCases round-trips tables whose version field holds boundary values (reachable
// only through Decode) and checks that one more effective change still increases it.
func c20CodecCases(r *ev.R, st *c20Stats) {
	e := r.NewEnum("codec-version-boundaries")
	versions := []uint64{0, 1, 2, 255, 256, 65535, 65536, 1<<32 - 1, 1 << 32, 1<<63 - 1, 1 << 63, 1<<64 - 2}
	for _, H := range []int{1, 2, 5, 64} {
		for _, S := range []int{1, 2, 3} {
			for _, v := range versions {
				for _, withMig := range []bool{false, true} {
					t := hashslot.NewHashSlotTable(uint16(H), S)
					if withMig {
						t.StartMigration(0, t.Lookup(0), multiraft.SlotID(S+1))
						t.AdvanceMigration(0, hashslot.PhaseSwitching)
					}
					enc := t.Encode()
					binary.BigEndian.PutUint64(enc[4:12], v)
					d, err := hashslot.DecodeHashSlotTable(enc)
					key := fmt.Sprintf("%d/%d/%d/%v", H, S, v, withMig)
					if err != nil {
						r.Violation(ev.Violation{Fingerprint: "C20:decode-rejects-own-encoding", System: "codec-version-boundaries",
							Message: fmt.Sprintf("table H=%d S=%d version=%d migrations=%v: decode failed: %v", H, S, v, withMig, err), Replay: map[string]any{"kind": "codec", "case": key}})
						e.Case(key, true, "violation")
						continue
					}
					if d.Version() != v {
						r.Violation(ev.Violation{Fingerprint: "C20:roundtrip-version-differs", System: "codec-version-boundaries",
							Message: fmt.Sprintf("table H=%d S=%d: version %d decoded as %d", H, S, v, d.Version()), Replay: map[string]any{"kind": "codec", "case": key}})
						e.Case(key, true, "violation")
						continue
					}
					if err := c20CheckTable(d, uint16(H), c20Universe(S), st); err != nil {
						r.Violation(ev.Violation{Fingerprint: c20FP(err), System: "codec-version-boundaries", Message: key + ": " + err.Error(), Replay: map[string]any{"kind": "codec", "case": key}})
						e.Case(key, true, "violation")
						continue
					}
					if _, err := c20Step(d, "Reassign on decoded table", 0, st, func() { d.Reassign(0, multiraft.SlotID(S+1)) }); err != nil {
						r.Violation(ev.Violation{Fingerprint: c20FP(err), System: "codec-version-boundaries", Message: key + ": " + err.Error(), Replay: map[string]any{"kind": "codec", "case": key}})
						e.Case(key, true, "violation")
						continue
					}
					e.Case(key, true, "ok")
				}
			}
		}
	}
	e.Done(true, map[string]any{"versions": versions, "hash_slots": []int{1, 2, 5, 64}, "slots": []int{1, 2, 3}},
		"tables re-decoded with boundary version values (excluding 2^64-1, where one more change wraps; not reachable by counting)")
}

func c20FP(err error) string {
	if f, ok := err.(mc.Fingerprinter); ok {
		return f.Fingerprint()
	}
	return "C20:unclassified"
}

// ------------------------------------------------------------------ test

func TestVerifC20(t *testing.T) {
	r := ev.Start(t, "C20")
	defer r.Finish()
	th := r.Thorough()
	st := &c20Stats{}
	col := newC20Collector()
	replay := r.Replay()
	if replay != nil {
		col = nil // strict: the known limitation is returned as a violation
	}

	shapes := c20Shapes(th)
	if s := r.Seed(); s != 0 && replay == nil {
		// the seed only permutes the order in which shapes are explored
		k := int(s % int64(len(shapes)))
		shapes = append(append([]c20Shape(nil), shapes[k:]...), shapes[:k]...)
	}
	rankOf := func(sh c20Shape) int { return int(sh.H)*100 + sh.S }

	// replay of a grid / codec case
	if replay != nil {
		var probe struct {
			Kind string `json:"kind"`
		}
		_ = json.Unmarshal(replay.Replay, &probe)
		if probe.Kind == "grid" {
			var gc c20GridCase
			if err := json.Unmarshal(replay.Replay, &gc); err != nil {
				r.HarnessError("bad grid replay: %v", err)
				return
			}
			out, kf, err := c20RunGridCase(gc, st)
			fmt.Printf("replay grid case %+v -> %s\n", gc, out)
			if err != nil {
				r.MarkReplayReproduced()
				r.Violation(ev.Violation{Fingerprint: c20FP(err), Message: err.Error(), System: "large-shapes", Replay: gc})
			} else if kf != nil {
				r.MarkReplayReproduced()
				r.Violation(ev.Violation{Fingerprint: kf.skewFP, Message: kf.skewMsg, System: "large-shapes", Replay: gc})
			}
			return
		}
		if probe.Kind == "codec" {
			c20CodecCases(r, st)
			if r.ViolationCount() > 0 {
				r.MarkReplayReproduced()
			}
			return
		}
	}

	var totalStates, totalTrans int64
	closed := 0
	outcomes := 0
	for _, sh := range shapes {
		if sh.Depth <= 0 {
			continue
		}
		res := mc.Run(r, c20System(sh, rankOf(sh), st, col))
		totalStates += res.States
		totalTrans += res.Transitions
		if res.Exhaustive && res.Depth < sh.Depth {
			closed++
		}
		if res.Outcomes > outcomes {
			outcomes = res.Outcomes
		}
	}
	if replay != nil {
		return
	}

	// ---- large shapes
	cases := c20GridCases(th)
	e := r.NewEnum("large-shapes")
	var wg sync.WaitGroup
	work := make(chan c20GridCase, 64)
	nw := runtime.GOMAXPROCS(0)
	for w := 0; w < nw; w++ {
		wg.Add(1)
		go func() {
			defer wg.Done()
			for c := range work {
				out, kf, err := c20RunGridCase(c, st)
				if err != nil {
					r.Violation(ev.Violation{Fingerprint: c20FP(err), Message: fmt.Sprintf("large shape %+v: %v", c, err), System: "large-shapes", Replay: c})
					e.CaseByConstruction(true, "violation")
					continue
				}
				if kf != nil {
					cc := c
					col.add(kf.skewFP, &c20Finding{rank: 1000000 + c.H*100 + c.S, system: "large-shapes", grid: &cc, path: []string{c.Skew, c.Op}, msg: kf.skewMsg})
				}
				e.CaseByConstruction(c.S > 1 || c.Op != "rebalance", out)
			}
		}()
	}
	off := int(r.Seed()) % len(cases)
	if off < 0 {
		off = 0
	}
	for i := range cases {
		work <- cases[(i+off)%len(cases)]
	}
	close(work)
	wg.Wait()
	e.Done(true, map[string]any{"cases": len(cases), "skews": c20Skews}, "product of hash-slot counts x slot counts x skews x plan operations; every case runs the real table, codec and planner")
	r.Sample(map[string]any{"system": "large-shapes", "case": cases[len(cases)/2]})

	c20CodecCases(r, st)

	// ---- the known add/remove-plan limitation: one report per fingerprint, smallest example
	for _, fpn := range []string{c20FpAddSkew, c20FpRemoveSkew} {
		f := col.best[fpn]
		r.Count("known_skew_occurrences:"+fpn, col.n[fpn])
		if f == nil {
			continue
		}
		var rp any
		var where string
		if f.grid != nil {
			rp = *f.grid
			where = fmt.Sprintf("large shape %+v", *f.grid)
		} else {
			type step struct {
				Ev string `json:"ev"`
			}
			p := make([]step, len(f.path))
			for i, s := range f.path {
				p[i] = step{s}
			}
			rp = map[string]any{"system": f.system, "path": p}
			where = f.system + " path: " + strings.Join(f.path, " ; ")
			// re-execute twice on fresh strict instances: must reproduce identically
			sh := c20Shape{}
			for _, s := range shapes {
				if s.name() == f.system {
					sh = s
				}
			}
			msgs := [2]string{}
			for k := 0; k < 2; k++ {
				inst := c20System(sh, 0, &c20Stats{}, nil).New()
				for _, evl := range f.path {
					_, err := inst.Apply(evl, &mc.Env{})
					msgs[k] = ""
					if err != nil {
						msgs[k] = err.Error()
					}
				}
			}
			if msgs[0] == "" || msgs[0] != msgs[1] {
				r.HarnessError("known-skew example on %s did not reproduce identically (%q vs %q)", where, msgs[0], msgs[1])
				continue
			}
		}
		r.Violation(ev.Violation{Fingerprint: fpn, System: "plans-on-skewed-tables", Replay: rp,
			Message: fmt.Sprintf("%s | %s | occurrences in this run: %d", f.msg, where, col.n[fpn])})
	}

	// ---- counters and vacuity guards
	r.Count("effective_changes", st.effective.Load())
	r.Count("noop_operations", st.noops.Load())
	r.Count("plans_nonempty", st.plansNonEmpty.Load())
	r.Count("plans_empty", st.plansEmpty.Load())
	r.Count("plans_on_skewed_tables", st.plansOnSkewed.Load())
	r.Count("plans_on_balanced_tables", st.plansOnBalanced.Load())
	r.Count("roundtrips", st.roundtrips.Load())
	r.Count("roundtrips_with_active_migrations", st.roundtripsWithMigrations.Load())
	r.Count("migration_lifecycle_steps_in_plans", st.lifecycleSteps.Load())
	r.Count("finalize_with_stale_source", st.staleSourceFinalize.Load())
	r.Count("shapes_closed", int64(closed))
	r.Guard("state-space-nontrivial", totalStates >= 2000, "states=%d transitions=%d over %d shapes", totalStates, totalTrans, len(shapes))
	r.Guard("some-shapes-closed", closed >= 3, "%d shapes reached a fixpoint (frontier emptied before the depth bound)", closed)
	r.Guard("effective-and-noop-operations", st.effective.Load() >= 1000 && st.noops.Load() >= 1000, "effective=%d noop=%d", st.effective.Load(), st.noops.Load())
	r.Guard("roundtrip-with-migrations", st.roundtripsWithMigrations.Load() >= 1000, "round trips with >=1 active migration: %d", st.roundtripsWithMigrations.Load())
	r.Guard("plans-move-hash-slots", st.plansNonEmpty.Load() >= 500, "non-empty plans: %d (empty: %d)", st.plansNonEmpty.Load(), st.plansEmpty.Load())
	r.Guard("plans-on-balanced-and-skewed", st.plansOnBalanced.Load() >= 200 && st.plansOnSkewed.Load() >= 200, "balanced=%d skewed=%d", st.plansOnBalanced.Load(), st.plansOnSkewed.Load())
	r.Guard("distinct-observations", outcomes >= 12, "max distinct observations in one shape: %d", outcomes)
	r.Assume("physical slot ids are non-zero (slot 0 means 'unassigned' in the table); the menus never reassign to slot 0")
	r.Assume("'ideal share' is T/n over the participating slots (add: active slots + new slot; remove: active slots minus the removed one; rebalance: active slots); 'within one' is |count - T/n| <= 1")
	r.Assume("a table counts as balanced before a plan when no two active slots differ by 2 or more hash slots; only on tables that are not balanced the add/remove plan's residual skew is classified under the known-limitation fingerprints")
}
