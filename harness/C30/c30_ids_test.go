package app

// C30 - Message ids are unique and increasing.
//
// Controlled-scheduler exploration (engine E3) of the real nodeMessageIDs: app.go is
// compiled with sync/atomic replaced by the vatomic shim, so every atomic Load/CAS of the
// floor is a scheduling point; ALL interleavings of 2 allocator threads (2 Next() each) and
// one SetFloor thread are enumerated (preemption bound = unbounded for this tiny space).

import (
	"fmt"
	"sort"
	"testing"

	"github.com/WuKongIM/WuKongIM/pkg/zzverif/ev"
	"github.com/WuKongIM/WuKongIM/pkg/zzverif/vsched"
	"github.com/WuKongIM/WuKongIM/pkg/zzverif/vsync"
)

type c30Run struct {
	ids      [2][]uint64
	floor    uint64
	floorErr error
	floorAt  int // number of ids already returned (globally) when SetFloor returned
	order    []uint64
}

func c30Scenario(name string, floorMode string, bound int, nextPerThread int) vsched.Scenario {
	return vsched.Scenario{
		Name:     name,
		Property: "C30",
		Bound:    bound,
		Horizon:  4000,
		Bounds:   map[string]any{"allocator_threads": 2, "next_calls_per_thread": nextPerThread, "set_floor": floorMode},
		Body: func(x *vsched.Exec) {
			g, err := newNodeMessageIDs(7)
			if err != nil {
				panic(err)
			}
			run := &c30Run{}
			x.Data["run"] = run
			// a first id so that "below / between / above" floors can be chosen relative to it
			base := g.Next()
			switch floorMode {
			case "below":
				run.floor = base - 1
			case "equal":
				run.floor = base
			case "just-above":
				run.floor = base + 1
			case "far-future":
				run.floor = base + (1 << 40)
			case "same-ms-high-bits":
				// a restored maximum minted in the allocator's current millisecond by a node /
				// sequence with larger low bits (snowflake: 10 node bits + 12 sequence bits)
				run.floor = base | 0x3FFFFF
			}
			var wg vsync.WaitGroup
			for th := 0; th < 2; th++ {
				th := th
				wg.Add(1)
				vsched.GoNamed(fmt.Sprintf("alloc%d", th), func() {
					defer wg.Done()
					for i := 0; i < nextPerThread; i++ {
						id := g.Next()
						run.ids[th] = append(run.ids[th], id)
						run.order = append(run.order, id)
					}
				})
			}
			wg.Add(1)
			vsched.GoNamed("setfloor", func() {
				defer wg.Done()
				run.floorErr = g.SetFloor(run.floor)
				run.floorAt = len(run.order)
			})
			wg.Wait()
			// observations are ranks, not raw ids (the snowflake clock is real time)
			all := append([]uint64(nil), run.order...)
			sort.Slice(all, func(i, j int) bool { return all[i] < all[j] })
			rank := map[uint64]int{}
			for i, v := range all {
				rank[v] = i
			}
			for th := 0; th < 2; th++ {
				for _, id := range run.ids[th] {
					x.Log("t%d:rank%d", th, rank[id])
				}
			}
			x.Log("floor:%s:err=%v:at=%d", floorMode, run.floorErr != nil, run.floorAt)
		},
		Check: func(x *vsched.Exec) error {
			run := x.Data["run"].(*c30Run)
			seen := map[uint64]bool{}
			for th := 0; th < 2; th++ {
				if len(run.ids[th]) != nextPerThread {
					return vsched.Violatef("C30:allocator-did-not-finish", "thread %d returned %d ids", th, len(run.ids[th]))
				}
				var prev uint64
				for _, id := range run.ids[th] {
					if seen[id] {
						return vsched.Violatef("C30:duplicate-id", "id %d issued twice", id)
					}
					seen[id] = true
					if id <= prev {
						return vsched.Violatef("C30:ids-not-increasing-for-caller", "thread %d got %d after %d", th, id, prev)
					}
					prev = id
				}
			}
			// globally: return order must be increasing in the order the CAS succeeded; the
			// recorded order is append order right after Next() returned, which can be
			// reordered by preemption between return and append, so only uniqueness and the
			// per-caller order are demanded (the property's wording).
			if run.floorErr == nil {
				for i := run.floorAt; i < len(run.order); i++ {
					if run.order[i] <= run.floor {
						return vsched.Violatef("C30:id-at-or-below-floor-after-setfloor", "id %d issued after a successful SetFloor(%d)", run.order[i], run.floor)
					}
				}
			}
			return nil
		},
	}
}

func TestVerifC30(t *testing.T) {
	r := ev.Start(t, "C30")
	defer r.Finish()
	bound := ev.Pick(r, 3, 6)
	n := ev.Pick(r, 2, 2)
	var total int64
	outcomes := 0
	for _, mode := range []string{"below", "equal", "just-above", "far-future", "same-ms-high-bits"} {
		st := vsched.Explore(r, c30Scenario("ids-floor-"+mode, mode, bound, n))
		total += st.Executions
		outcomes += st.Outcomes
	}
	if r.Replay() != nil {
		return
	}
	r.Guard("interleavings", total >= 200, "executions=%d", total)
	r.Guard("outcomes", outcomes >= 8, "distinct outcomes=%d", outcomes)
	r.Assume("snowflake.Node.Generate (external library, real mutex) is an atomic step; its clock is the frozen virtual clock, so all ids of one execution fall into one millisecond")
	r.Assume("data races are outside this check (hand-offs are happens-before edges); a free-running -race pass is separate")
}
