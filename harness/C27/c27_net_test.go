package clusternet_test

// C27 (node RPC envelope header): pkg/cluster/net/codec.go PutHeader / CheckHeader.
// Black-box: exported API only. All codec logic executed is the repository's.

import (
	"fmt"
	"testing"

	clusternet "github.com/WuKongIM/WuKongIM/pkg/cluster/net"
	kit "github.com/WuKongIM/WuKongIM/pkg/zzverif/c27kit"
)

type c27Envelope struct {
	Version, Kind uint8
	Payload       []byte
}

func c27NetCodec(wantVersion, wantKind uint8) *kit.Codec {
	payloads := [][]byte{nil, {0}, {0xff}, []byte("abc"), make([]byte, 127), make([]byte, 128), []byte{wantVersion, wantKind}}
	var values []kit.Value
	for i, p := range payloads {
		values = append(values, kit.Value{Label: fmt.Sprintf("payload#%d(len=%d)", i, len(p)), V: c27Envelope{wantVersion, wantKind, p}})
	}
	return &kit.Codec{
		Name: fmt.Sprintf("clusternet.Header(v=%d,k=%d)", wantVersion, wantKind),
		Encode: func(v any) ([]byte, error) {
			e := v.(c27Envelope)
			return append(clusternet.PutHeader(nil, e.Version, e.Kind), e.Payload...), nil
		},
		Decode: func(b []byte) (any, error) {
			p, err := clusternet.CheckHeader(b, wantVersion, wantKind)
			if err != nil {
				return nil, err
			}
			return c27Envelope{wantVersion, wantKind, p}, nil
		},
		// the payload after the 2-byte header is opaque: a prefix that keeps the header is a
		// valid envelope with a shorter payload
		PrefixMayDecode: func(enc []byte, n int) bool { return n >= 2 },
		MustReject: func(in []byte) string {
			switch {
			case len(in) < 2:
				return "shorter than the 2-byte header"
			case in[0] != wantVersion:
				return "version byte differs from the expected version"
			case in[1] != wantKind:
				return "kind byte differs from the expected kind"
			}
			return ""
		},
		StrictStability: true,
		// "CheckHeader validates a cluster version/kind header and returns the payload": the result
		// is the tail of the caller's frame by design (callers decode it synchronously)
		AliasByContract: "CheckHeader is documented to return the payload of the caller's frame (a sub-slice); pkg/cluster/control decodes it synchronously",
		Values:          values,
		Headers:         [][]byte{{wantVersion}, {wantVersion, wantKind}},
	}
}

func TestVerifC27Net(t *testing.T) {
	kit.Main(t, "C27", func() []*kit.Codec {
		var codecs []*kit.Codec
		for _, w := range [][2]uint8{{1, 1}, {1, 2}, {0, 0}, {255, 255}, {7, 19}, {2, 1}} {
			codecs = append(codecs, c27NetCodec(w[0], w[1]))
		}
		return codecs
	}, nil)
}
