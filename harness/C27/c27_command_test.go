package command_test

// C27 (controller commands): pkg/controller/command/codec.go Encode / Decode (versioned JSON
// envelope). Black-box: exported API only.

import (
	"encoding/json"
	"math"
	"testing"
	"time"

	"github.com/WuKongIM/WuKongIM/pkg/controller/command"
	"github.com/WuKongIM/WuKongIM/pkg/controller/state"
	kit "github.com/WuKongIM/WuKongIM/pkg/zzverif/c27kit"
	"github.com/WuKongIM/WuKongIM/pkg/zzverif/ev"
)

func c27CommandValues() []kit.Value {
	rev := uint64(7)
	maxRev := uint64(math.MaxUint64)
	now := time.Date(2026, 5, 24, 12, 0, 0, 123456789, time.UTC)
	nodes := []state.Node{
		{NodeID: 1, Name: "n<1>&", Addr: "127.0.0.1:1", Roles: []state.NodeRole{state.NodeRoleControllerVoter, state.NodeRoleData}, JoinState: state.NodeJoinStateActive, Status: state.NodeStatusAlive, CapacityWeight: 10},
		{NodeID: math.MaxUint64, Addr: "", Roles: nil, Status: state.NodeStatusDown},
	}
	voters := []state.ControllerVoter{{NodeID: 1, Addr: "n1", Role: state.ControllerRoleVoter}, {NodeID: 2, Addr: "é中", Role: ""}}
	task := state.ReconcileTask{TaskID: "slot-2-bootstrap-3", SlotID: 2, Kind: state.TaskKindBootstrap, Step: state.TaskStepCreateSlot, SourceNode: 1, TargetNode: 2,
		TargetPeers: []uint64{1, 2, 3}, ParticipantProgress: []state.TaskParticipantProgress{{NodeID: 1, Attempt: 1, Status: state.TaskParticipantStatusDone}, {NodeID: 2, Status: state.TaskParticipantStatusFailed, LastError: "boom \"quoted\""}},
		ConfigEpoch: 3, Attempt: 1, Status: state.TaskStatusRunning, LastError: "previous transient error", PhaseIndex: 2, ObservedConfigIndex: 9}
	table := state.HashSlotTable{Version: 3, SlotCount: 2, Ranges: []state.HashSlotRange{{From: 0, To: 7, SlotID: 1}, {From: 8, To: 65535, SlotID: math.MaxUint32}}}
	return []kit.Value{
		{Label: "zero", V: command.Command{}},
		{Label: "init", V: command.Command{Kind: command.KindInitClusterState, IssuedAt: now, Init: &command.InitClusterState{ClusterID: "wk", Config: state.ClusterConfig{SlotCount: 4, HashSlotCount: 16, ReplicaCount: 3, DefaultCapacityWeight: 10},
			Controllers: voters, Nodes: nodes}, HashSlots: &table}},
		{Label: "upsert-node", V: command.Command{Kind: command.KindUpsertNode, IssuedAt: now, ExpectedRevision: &rev, Node: &nodes[0]}},
		{Label: "voters+promotion", V: command.Command{Kind: command.KindPromoteControllerVoter, ExpectedRevision: &maxRev, Controllers: voters,
			ControllerVoterPromotion: &command.ControllerVoterPromotion{TargetNodeID: 3, TargetAddr: "n3", ExpectedPreviousVoters: []uint64{1, 2}, ObservedConfigIndex: 128, ObservedVoters: []uint64{1, 2, 3}}}},
		{Label: "assignment+task", V: command.Command{Kind: command.KindUpsertSlotAssignmentAndTask, IssuedAt: now.Add(time.Minute), ExpectedRevision: &rev,
			Assignment: &state.SlotAssignment{SlotID: 2, DesiredPeers: []uint64{1, 2, 3}, ConfigEpoch: 3, PreferredLeader: 2}, Task: &task}},
		{Label: "move-phase+commit", V: command.Command{Kind: command.KindAdvanceSlotReplicaMovePhase,
			SlotReplicaMovePhase:  &command.SlotReplicaMovePhaseAdvance{TaskID: "t", SlotID: 1, ConfigEpoch: 2, Attempt: 3, ExpectedPhaseIndex: 4, NextStep: state.TaskStepAddLearner, ObservedConfigIndex: 5, ObservedVoters: []uint64{1}, ObservedLearners: []uint64{4}},
			SlotReplicaMoveCommit: &command.SlotReplicaMoveCommit{TaskID: "t", SlotID: math.MaxUint32, ConfigEpoch: math.MaxUint64, Attempt: 1, ObservedConfigIndex: 6, ObservedVoters: []uint64{}}}},
		{Label: "task-result+progress", V: command.Command{Kind: command.KindReportTaskProgress,
			TaskResult:   &command.TaskResult{TaskID: "t", SlotID: 2, TaskKind: state.TaskKindBootstrap, ConfigEpoch: 3, Attempt: 1, Err: "e", FinishedAt: now},
			TaskProgress: &command.TaskProgress{TaskID: "t", SlotID: 2, TaskKind: state.TaskKindLeaderTransfer, ConfigEpoch: 3, TaskAttempt: 1, ParticipantNodeID: 2, ParticipantAttempt: 1, Status: state.TaskParticipantStatusDone}}},
		{Label: "node-health", V: command.Command{Kind: command.KindReportNodeHealth, NodeHealth: &state.NodeHealthReport{NodeID: 1, Status: state.NodeStatusSuspect, RuntimeReady: true, ObservedControlRevision: 9, ObservedSlotRevision: 8,
			ReportSeq: 7, ReportedAtUnixMilli: -1, AppliedRaftIndex: 6, ErrorCode: "x"}}},
		{Label: "hash-slots+backup+mcp", V: command.Command{Kind: command.KindReplaceHashSlotTable, HashSlots: &table, ScheduledBackup: &state.ScheduledBackupState{Revision: 1, ManagerSessionEpoch: 2},
			OpsMCP: &state.OpsMCPState{Enabled: true, OwnerNodeID: 1, ProfileFenceUntilUnixMillis: 5, Credentials: []state.OpsMCPCredential{{ID: "a", DigestSHA256: "00ff", CreatedAtUnixMillis: 1}}}}},
	}
}

func TestVerifC27Command(t *testing.T) {
	values := c27CommandValues()
	codec := &kit.Codec{
		Name:   "controller.Command",
		Encode: func(v any) ([]byte, error) { return command.Encode(v.(command.Command)) },
		Decode: func(b []byte) (any, error) {
			v, err := command.Decode(b)
			if err != nil {
				return nil, err
			}
			return v, nil
		},
		// envelope rules of codec.go: one JSON value, nothing but whitespace after it, version 1
		MustReject: func(in []byte) string {
			if !json.Valid(in) {
				return "not exactly one well-formed JSON value"
			}
			var env struct {
				Version *uint32 `json:"version"`
			}
			if err := json.Unmarshal(in, &env); err != nil {
				return ""
			}
			if env.Version == nil || *env.Version != 1 {
				return "envelope version is not 1"
			}
			return ""
		},
		Values: values,
		// json.Marshal of the envelope fails after most of the document was produced: a time.Time
		// outside the years 0..9999 cannot be marshalled
		FailEncode: []kit.Value{
			{Label: "issued-at-year-10000", V: command.Command{Kind: command.KindUpsertNode, IssuedAt: time.Date(10000, 1, 1, 0, 0, 0, 0, time.UTC), Node: values[2].V.(command.Command).Node}},
			{Label: "task-result-finished-at-year-10000", V: command.Command{Kind: command.KindReportTaskProgress, TaskResult: &command.TaskResult{TaskID: "t", FinishedAt: time.Date(10000, 1, 1, 0, 0, 0, 0, time.UTC)}}},
		},
		Headers: [][]byte{[]byte(`{`), []byte(`{"version":1,"command":`), []byte(`{"version":1,"command":{"kind":"`), []byte(`{"version":`)},
	}
	kit.Main(t, "C27", func() []*kit.Codec { return []*kit.Codec{codec} }, func(r *ev.R, replaying bool) {
		if !replaying {
			r.Guard("command-menu", len(values) >= 8, "values=%d", len(values))
		}
	})
}
