// Package c27kit is the codec-enumeration helper of the /verif C27 harness (it is injected
// as a virtual package pkg/zzverif/c27kit by harness.json "virtual"; it is NOT part of
// /verif/lib). It contains no codec knowledge: every Encode/Decode it calls is the
// repository's real function, handed in by the per-package harness file as a Codec.
//
// For every Codec it enumerates, completely, within the stated bounds:
//
//	roundtrip    every menu value v:            Decode(Encode(v)) == v
//	truncation   every strict prefix of every encoding: must be rejected
//	             (unless the per-codec PrefixMayDecode says the format is tail-opaque there)
//	mutation     every position x every replacement byte of every encoding
//	blowup       every position x every "huge length" pattern (uvarint / fixed 32/64 bit)
//	shortstrings every byte string of length <= L, alone and after every valid header
//
// and checks for every single decode call: no panic, and the bytes allocated by that call
// (runtime.MemStats.TotalAlloc delta, single-threaded, monotonic so GC is irrelevant) stay
// under Ceiling(len(input)) = 1 MiB + 64*len(input).
package c27kit

import (
	"encoding/hex"
	"encoding/json"
	"fmt"
	"hash/fnv"
	"reflect"
	"runtime"
	"sort"
	"time"

	"github.com/WuKongIM/WuKongIM/pkg/zzverif/ev"
)

// BaseCeiling is the input-independent part of the allocation ceiling of one decode call.
const BaseCeiling = 1 << 20

// Ceiling is the allocation ceiling (bytes) for decoding an input of n bytes.
func Ceiling(n int) uint64 { return BaseCeiling + 64*uint64(n) }

// Value is one menu value of a codec.
type Value struct {
	Label string
	V     any
}

// Seed is a valid encoding that is not produced from a menu value by Encode (for example a
// legacy wire version produced by the repository's own versioned encoder).
type Seed struct {
	Label string
	Bytes []byte
}

// Codec adapts one real encoder/decoder pair.
type Codec struct {
	// Name is stable and structural ("replication.ExchangeBatch"); it is part of fingerprints.
	Name string
	// Encode / Decode call the repository's real functions.
	Encode func(v any) ([]byte, error)
	Decode func(b []byte) (any, error)
	// Equal is the value equality used by the oracle (nil: LaxEqual).
	Equal func(a, b any) bool
	// PrefixMayDecode reports that the strict prefix enc[:n] of a valid encoding may
	// legitimately decode (formats whose tail is opaque / optional by design). nil: every
	// strict prefix must be rejected.
	PrefixMayDecode func(enc []byte, n int) bool
	// MustReject returns a non-empty reason when the frame-header rules documented next to
	// the codec (version / kind / magic / minimum length) say the input is not a frame of
	// this codec at all; accepting such an input is a violation. nil: no such rule checked.
	MustReject func(in []byte) string
	// StrictStability makes "an accepted non-menu input decodes to a value that does not
	// round-trip" a violation; otherwise it is only counted.
	StrictStability bool
	Values          []Value
	Seeds           []Seed
	// Boundary values sit at the declared maximum (max-1, max) of a length-bounded field; they
	// must round-trip like menu values but are not expanded into truncations / mutations.
	Boundary []Value
	// OverMax values exceed a declared maximum by one: the encoder or the decoder must reject
	// them, within the allocation ceiling.
	OverMax []Value
	// Headers are the valid frame prefixes after which all short byte strings are tried.
	Headers [][]byte
	// LightHeaders are further valid prefixes (legacy versions) that always get the quick-tier
	// short-string menu (all strings <=1, 2-byte strings over the boundary menu).
	LightHeaders [][]byte

	// ---- section "sequences" (kit_sequences.go)
	// FailEncode are values the encoder is expected to reject (every failing path of the encoder,
	// in particular the ones that fail after part of the output was produced); they are used as
	// intervening calls. A value the encoder accepts is used as an ordinary call.
	FailEncode []Value
	// SeqCalls are further real calls of the package used as intervening calls.
	SeqCalls []SeqCall
	// AliasByContract is non-empty (the reason) when the decoder is documented / visibly used as
	// zero-copy: its values may be views of the caller's buffer; detachment is then counted,
	// not demanded.
	AliasByContract string
	// SeqSkip is non-empty (the reason) when the codec is left out of the sequences section.
	SeqSkip string
}

// Bounds are the tier-dependent enumeration bounds.
type Bounds struct {
	// Replacements returns the replacement bytes tried at a position holding byte b.
	AllReplacements bool
	// ShortLen is the maximum length of the exhaustively enumerated byte strings.
	ShortLen int
	// ShortMenu2 is the byte menu used for 2-byte strings when ShortLen < 2.
	ShortMenu2 []byte
}

// QuickBounds / ThoroughBounds are the two tiers.
func QuickBounds() Bounds {
	return Bounds{ShortLen: 1, ShortMenu2: []byte{0x00, 0x01, 0x02, 0x03, 0x07, 0x08, 0x7f, 0x80, 0x81, 0xfe, 0xff, '{', '}', '"'}}
}
func ThoroughBounds() Bounds { return Bounds{AllReplacements: true, ShortLen: 2} }

type kind uint8

const (
	kTrunc kind = iota
	kMut
	kBlow
	kShort
)

var kindName = [...]string{"truncation", "mutation", "blowup", "shortstrings"}

type job struct {
	c     *Codec
	k     kind
	in    []byte
	seed  int // index into seeds (-1 for short strings)
	n     int // truncation length / position
	note  string
	v     any
	err   error
	pan   any
	alloc uint64 // only set when measured individually
}

type seedRec struct {
	label string
	enc   []byte
	v     any // nil for raw seeds whose value is the decode of enc
}

// Runner drives the enumeration of all codecs of one package.
type Runner struct {
	R      *ev.R
	B      Bounds
	enums  [4]*ev.Enum
	rt     *ev.Enum
	batch  []job
	stats  map[string]int64
	maxAll uint64
	maxOne int64
	// tripped: codecs with an over-ceiling allocation; their enumeration is cut short (the
	// violation is already recorded) so that larger lengths cannot exhaust the machine
	tripped map[string]bool
	cut     bool
	unstab  int64
	msA     runtime.MemStats
	msB     runtime.MemStats
	sample  map[string]bool
}

const batchSize = 48

// blowBatchSize keeps the memory held by one batch of huge-length cases small.
const blowBatchSize = 8

var sink []byte

// NewRunner starts the sections of one run.
func NewRunner(r *ev.R) *Runner {
	k := &Runner{R: r, stats: map[string]int64{}, sample: map[string]bool{}, tripped: map[string]bool{}}
	if r.Thorough() {
		k.B = ThoroughBounds()
	} else {
		k.B = QuickBounds()
	}
	k.rt = r.NewEnum("roundtrip")
	for i := range k.enums {
		k.enums[i] = r.NewEnum(kindName[i])
	}
	if runtime.GOMAXPROCS(0) != 1 {
		r.HarnessError("C27 allocation accounting needs GOMAXPROCS=1 (harness.json gomaxprocs), got %d", runtime.GOMAXPROCS(0))
	}
	// self-test of the allocation meter: a 2 MiB allocation must be seen, an empty call must not
	big := k.measure(func() { sink = make([]byte, 2<<20) })
	sink = nil
	none := k.measure(func() {})
	r.Guard("alloc-meter-self-test", big >= 2<<20 && none < 4096, "2MiB allocation measured as %d bytes, empty call as %d bytes", big, none)
	return k
}

func (k *Runner) measure(f func()) uint64 {
	runtime.ReadMemStats(&k.msA)
	f()
	runtime.ReadMemStats(&k.msB)
	return k.msB.TotalAlloc - k.msA.TotalAlloc
}

func safeDecode(c *Codec, in []byte) (v any, err error, pan any) {
	defer func() {
		if p := recover(); p != nil {
			pan = p
		}
	}()
	v, err = c.Decode(in)
	return
}

func safeEncode(c *Codec, v any) (b []byte, err error, pan any) {
	defer func() {
		if p := recover(); p != nil {
			pan = p
		}
	}()
	b, err = c.Encode(v)
	return
}

func (c *Codec) eq(a, b any) bool {
	if c.Equal != nil {
		return c.Equal(a, b)
	}
	return LaxEqual(a, b)
}

type replay struct {
	Codec string `json:"codec"`
	Kind  string `json:"kind"`
	Input string `json:"input_hex"`
	Seed  string `json:"seed_hex,omitempty"`
	N     int    `json:"n"`
	Label string `json:"label,omitempty"`
}

func (k *Runner) violate(c *Codec, class, kindName string, in, seed []byte, n int, label, format string, args ...any) {
	if kindName == "roundtrip" && len(in) > 4096 {
		in, seed = nil, nil // replayed from the value label
	}
	k.R.Violation(ev.Violation{
		Fingerprint: "C27:" + class + ":" + c.Name,
		Message:     fmt.Sprintf("%s [%s] %s", c.Name, kindName, fmt.Sprintf(format, args...)),
		System:      c.Name,
		Replay:      replay{Codec: c.Name, Kind: kindName, Input: hex.EncodeToString(in), Seed: hex.EncodeToString(seed), N: n, Label: label},
	})
}

func short(v any) string {
	s := fmt.Sprintf("%+v", v)
	if len(s) > 300 {
		s = s[:300] + "..."
	}
	return s
}

func hexs(b []byte) string {
	if len(b) > 96 {
		return hex.EncodeToString(b[:96]) + fmt.Sprintf("...(%d bytes)", len(b))
	}
	return hex.EncodeToString(b)
}

// Run enumerates everything for the given codecs and closes the sections.
func (k *Runner) Run(codecs []*Codec) {
	r := k.R
	if rf := r.Replay(); rf != nil {
		k.replay(codecs, rf)
		return
	}
	// fresh-state answers of the sequences section: before anything else ran in this process
	seqMenu := k.prepareSeq(codecs)
	names := map[string]bool{}
	totalSeeds := 0
	for _, c := range codecs {
		if names[c.Name] {
			r.HarnessError("duplicate codec name %s", c.Name)
		}
		names[c.Name] = true
		seeds := k.roundtrip(c)
		totalSeeds += len(seeds)
		// VERIF_SEED only rotates the order in which seeds are expanded
		if len(seeds) > 0 {
			rot := int(uint64(r.Seed()) % uint64(len(seeds)))
			seeds = append(append([]seedRec(nil), seeds[rot:]...), seeds[:rot]...)
		}
		k.expand(c, seeds)
		k.flush()
	}
	k.flush()
	k.runSeq(seqMenu)
	bounds := map[string]any{"codecs": len(codecs), "seed_encodings": totalSeeds, "alloc_ceiling": "1MiB+64*len(input)"}
	k.rt.Done(true, bounds, "every menu value: Decode(Encode(v)) must equal v (nil and empty slices are equal, times by instant, errors by text)")
	repl := "boundary replacement bytes {00,01,7f,80,ff,b^01,b^80,b^ff,b+1,b-1}"
	if k.B.AllReplacements {
		repl = "all 255 other byte values"
	}
	k.enums[kTrunc].Done(!k.cut, map[string]any{"prefixes": "every n in [0,len)"}, "every strict prefix of every seed encoding")
	k.enums[kMut].Done(!k.cut, map[string]any{"replacements": repl}, "every position of every seed encoding x replacement bytes")
	k.enums[kBlow].Done(!k.cut, map[string]any{"patterns": len(blowPatterns())}, "every position of every seed encoding x huge-length patterns (uvarint splice, 32/64-bit overwrite)")
	k.enums[kShort].Done(!k.cut, map[string]any{"max_len_all_bytes": k.B.ShortLen, "two_byte_menu_for_light_headers_and_quick": len(menu2Bounds())}, "all short byte strings alone and after every valid header")
	for name, n := range k.stats {
		r.Count(name, n)
	}
	tag := "?"
	if len(codecs) > 0 {
		tag = codecs[0].Name
		for i := 0; i < len(tag); i++ {
			if tag[i] == '.' {
				tag = tag[:i]
				break
			}
		}
	}
	r.Count("max_single_batch_alloc_bytes["+tag+"]", int64(k.maxAll))
	r.Count("max_single_decode_alloc_bytes_in_remeasured_batches["+tag+"]", k.maxOne)
	r.Count("accepted_inputs_whose_value_does_not_roundtrip", k.unstab)
	tr, mu, bl := k.enums[kTrunc], k.enums[kMut], k.enums[kBlow]
	r.Guard("roundtrip-values", k.rt.Evals() >= int64(len(codecs)) && k.rt.Outcome("equal") >= 1, "roundtrip cases=%d equal=%d codecs=%d", k.rt.Evals(), k.rt.Outcome("equal"), len(codecs))
	r.Guard("truncations-rejected", tr.Outcome("reject") >= 1, "rejected truncations=%d of %d", tr.Outcome("reject"), tr.Evals())
	r.Guard("mutations-both-outcomes", mu.Outcome("reject") >= 1 && mu.Outcome("accept-other-value")+mu.Outcome("accept-same-value") >= 1,
		"mutations: reject=%d accept-other=%d accept-same=%d", mu.Outcome("reject"), mu.Outcome("accept-other-value"), mu.Outcome("accept-same-value"))
	r.Guard("blowups-rejected", bl.Outcome("reject") >= 1, "huge-length cases rejected=%d of %d", bl.Outcome("reject"), bl.Evals())
	r.Assume("allocation of one decode call = runtime.MemStats.TotalAlloc delta measured with GOMAXPROCS=1 around batches of <=48 calls; a batch under 1 MiB clears all its calls, a larger batch is re-measured call by call")
	r.Assume("declared allocation bound is checked as the ceiling 1 MiB + 64 x len(input) per decode call on inputs <= ~4 KiB")
}

func (k *Runner) roundtrip(c *Codec) []seedRec {
	var seeds []seedRec
	seen := map[string]bool{}
	for _, v := range c.OverMax {
		enc, err, pan := safeEncode(c, v.V)
		out := "encoder-rejects"
		switch {
		case pan != nil:
			out = "encode-panic"
			k.violate(c, "encode-panic", "roundtrip", nil, nil, 0, v.Label, "Encode(%s) panicked: %v", v.Label, pan)
		case err == nil:
			var got any
			var derr error
			var dp any
			alloc := k.measure(func() { got, derr, dp = safeDecode(c, enc) })
			out = "decoder-rejects"
			switch {
			case dp != nil:
				out = "panic"
				k.violate(c, "decode-panic", "roundtrip", nil, nil, 0, v.Label, "decoding the over-maximum value %s panicked: %v", v.Label, dp)
			case derr == nil:
				out = "over-maximum-accepted"
				k.violate(c, "over-maximum-accepted", "roundtrip", nil, nil, 0, v.Label, "value %s exceeds a declared maximum but is accepted by the encoder and the decoder (decoded %s)", v.Label, short(got))
			}
			if alloc > Ceiling(len(enc)) {
				k.violate(c, "alloc-over-ceiling", "roundtrip", nil, nil, 0, v.Label, "rejecting the %d-byte over-maximum encoding %s allocated %d bytes (> %d)", len(enc), v.Label, alloc, Ceiling(len(enc)))
			}
		}
		k.rt.Case(c.Name+"/overmax/"+v.Label, true, out)
	}
	nMenu := len(c.Values)
	for vi, v := range append(append([]Value(nil), c.Values...), c.Boundary...) {
		boundary := vi >= nMenu
		enc, err, pan := safeEncode(c, v.V)
		if pan != nil {
			k.violate(c, "encode-panic", "roundtrip", nil, nil, 0, v.Label, "Encode(%s) panicked: %v", v.Label, pan)
			k.rt.Case(c.Name+"/"+v.Label, true, "encode-panic")
			continue
		}
		if err != nil {
			k.R.HarnessError("%s: menu value %s rejected by the encoder: %v", c.Name, v.Label, err)
			continue
		}
		var got any
		var derr error
		var dp any
		alloc := k.measure(func() { got, derr, dp = safeDecode(c, enc) })
		out := "equal"
		switch {
		case dp != nil:
			out = "panic"
			k.violate(c, "decode-panic", "roundtrip", enc, enc, 0, v.Label, "decoding the encoding of %s panicked: %v", v.Label, dp)
		case derr != nil:
			out = "decode-error"
			k.violate(c, "roundtrip-decode-error", "roundtrip", enc, enc, 0, v.Label, "own encoding of %s (%s) rejected: %v", v.Label, hexs(enc), derr)
		case !c.eq(v.V, got):
			out = "mismatch"
			k.violate(c, "roundtrip-mismatch", "roundtrip", enc, enc, 0, v.Label, "value %s = %s decodes to %s", v.Label, short(v.V), short(got))
		}
		if alloc > Ceiling(len(enc)) {
			k.violate(c, "alloc-over-ceiling", "roundtrip", enc, enc, 0, v.Label, "decoding a valid %d-byte encoding allocated %d bytes (> %d)", len(enc), alloc, Ceiling(len(enc)))
		}
		k.rt.Case(c.Name+"/"+v.Label+"/"+string(enc), true, out)
		if !k.sample[c.Name] {
			k.sample[c.Name] = true
			k.R.Sample(map[string]any{"codec": c.Name, "section": "roundtrip", "value": v.Label, "encoding_hex": hexs(enc), "outcome": out})
		}
		if boundary {
			k.stats["boundary_length_values_roundtripped"]++
			continue
		}
		if out == "equal" && !seen[string(enc)] {
			seen[string(enc)] = true
			seeds = append(seeds, seedRec{label: v.Label, enc: enc, v: v.V})
		}
	}
	for _, s := range c.Seeds {
		got, derr, dp := safeDecode(c, s.Bytes)
		out := "stable"
		switch {
		case dp != nil:
			out = "panic"
			k.violate(c, "decode-panic", "roundtrip", s.Bytes, s.Bytes, 0, s.Label, "decoding seed %s panicked: %v", s.Label, dp)
		case derr != nil:
			out = "decode-error"
			k.violate(c, "roundtrip-decode-error", "roundtrip", s.Bytes, s.Bytes, 0, s.Label, "repository-produced encoding %s (%s) rejected: %v", s.Label, hexs(s.Bytes), derr)
		default:
			// the decoded value must itself round-trip through the current encoder
			if msg := k.stability(c, got); msg != "" {
				out = "unstable"
				k.violate(c, "roundtrip-mismatch", "roundtrip", s.Bytes, s.Bytes, 0, s.Label, "seed %s: %s", s.Label, msg)
			}
		}
		k.rt.Case(c.Name+"/"+s.Label+"/"+string(s.Bytes), true, out)
		if (out == "stable") && !seen[string(s.Bytes)] {
			seen[string(s.Bytes)] = true
			seeds = append(seeds, seedRec{label: s.Label, enc: s.Bytes, v: got})
		}
	}
	return seeds
}

// stability: Decode(Encode(v)) must equal v; "" when it holds or v is not encodable.
func (k *Runner) stability(c *Codec, v any) string {
	enc, err, pan := safeEncode(c, v)
	if pan != nil {
		return fmt.Sprintf("Encode(decoded value) panicked: %v", pan)
	}
	if err != nil {
		k.stats["accepted_values_not_encodable"]++
		return ""
	}
	v2, derr, dp := safeDecode(c, enc)
	if dp != nil {
		return fmt.Sprintf("Decode(Encode(decoded value)) panicked: %v", dp)
	}
	if derr != nil {
		return fmt.Sprintf("decoded value %s re-encodes to %s which is rejected: %v", short(v), hexs(enc), derr)
	}
	if !c.eq(v, v2) {
		return fmt.Sprintf("decoded value %s re-encodes and decodes to %s", short(v), short(v2))
	}
	return ""
}

func menu2Bounds() []byte { return QuickBounds().ShortMenu2 }

func replacements(b byte, all bool) []byte {
	if all {
		out := make([]byte, 0, 255)
		for x := 0; x < 256; x++ {
			if byte(x) != b {
				out = append(out, byte(x))
			}
		}
		return out
	}
	cand := []byte{0x00, 0x01, 0x7f, 0x80, 0xff, b ^ 0x01, b ^ 0x80, b ^ 0xff, b + 1, b - 1}
	var out []byte
	for _, x := range cand {
		dup := x == b
		for _, y := range out {
			dup = dup || x == y
		}
		if !dup {
			out = append(out, x)
		}
	}
	return out
}

type blowPattern struct {
	name    string
	bytes   []byte
	replace int // number of original bytes replaced at the position
}

func uvar(x uint64) []byte {
	var out []byte
	for x >= 0x80 {
		out = append(out, byte(x)|0x80)
		x >>= 7
	}
	return append(out, byte(x))
}

func blowPatterns() []blowPattern {
	ff := func(n int) []byte {
		b := make([]byte, n)
		for i := range b {
			b[i] = 0xff
		}
		return b
	}
	// ascending: expand() runs one pass per pattern over all positions and stops a codec at
	// the first over-ceiling allocation, so a decoder that trusts a length is caught by the
	// 2^20 pass (MiB-sized allocations) before the 2^40..2^64 passes could exhaust memory
	return []blowPattern{
		{"uvarint-2^20", uvar(1 << 20), 1},
		{"be32-0000ffff", []byte{0x00, 0x00, 0xff, 0xff}, 4},
		{"be32-00ffffff", []byte{0x00, 0xff, 0xff, 0xff}, 4},
		{"json-1e12-digits", []byte("999999999999"), 1},
		{"uvarint-overlong", append(ff(10), 0x01), 1},
		{"uvarint-2^31-1", uvar(1<<31 - 1), 1},
		{"be32-7fffffff", []byte{0x7f, 0xff, 0xff, 0xff}, 4},
		{"be32-80000000", []byte{0x80, 0, 0, 0}, 4},
		{"be32-ffffffff", ff(4), 4},
		{"uvarint-2^32", uvar(1 << 32), 1},
		{"uvarint-2^40", uvar(1 << 40), 1},
		{"be64-7fffffffffffffff", append([]byte{0x7f}, ff(7)...), 8},
		{"be64-ffffffffffffffff", ff(8), 8},
		{"uvarint-2^62", uvar(1 << 62), 1},
		{"uvarint-2^63-1", uvar(1<<63 - 1), 1},
		{"uvarint-2^63", uvar(1 << 63), 1},
		{"uvarint-2^64-1", uvar(1<<64 - 1), 1},
	}
}

func (k *Runner) expand(c *Codec, seeds []seedRec) {
	pats := blowPatterns()
	// huge-length splices first, one pass per pattern in ascending order (see blowPatterns)
	for _, p := range pats {
		for si, s := range seeds {
			enc := s.enc
			for pos := 0; pos+p.replace <= len(enc); pos++ {
				in := make([]byte, 0, len(enc)+len(p.bytes))
				in = append(in, enc[:pos]...)
				in = append(in, p.bytes...)
				in = append(in, enc[pos+p.replace:]...)
				k.add(job{c: c, k: kBlow, in: in, seed: si, n: pos, note: p.name}, seeds)
				if k.tripped[c.Name] {
					break
				}
			}
		}
		k.flushWith(seeds)
		if k.tripped[c.Name] {
			k.cut = true
			k.R.Count("codecs_cut_after_over_ceiling_allocation", 1)
			return
		}
	}
	for si, s := range seeds {
		enc := s.enc
		for n := 0; n < len(enc); n++ {
			k.add(job{c: c, k: kTrunc, in: enc[:n:n], seed: si, n: n}, seeds)
		}
		for pos := 0; pos < len(enc); pos++ {
			for _, x := range replacements(enc[pos], k.B.AllReplacements) {
				in := append([]byte(nil), enc...)
				in[pos] = x
				k.add(job{c: c, k: kMut, in: in, seed: si, n: pos}, seeds)
			}
		}
		if k.tripped[c.Name] {
			k.cut = true
			k.R.Count("codecs_cut_after_over_ceiling_allocation", 1)
			return
		}
	}
	heads := append([][]byte{nil}, c.Headers...)
	nFull := len(heads)
	heads = append(heads, c.LightHeaders...)
	menu2 := k.B.ShortMenu2
	if len(menu2) == 0 {
		menu2 = QuickBounds().ShortMenu2
	}
	for hi, h := range heads {
		emit := func(tail ...byte) {
			in := append(append([]byte(nil), h...), tail...)
			k.add(job{c: c, k: kShort, in: in, seed: -1, n: len(h)}, seeds)
		}
		emit()
		for a := 0; a < 256; a++ {
			emit(byte(a))
		}
		if k.B.ShortLen >= 2 && hi < nFull {
			for a := 0; a < 256; a++ {
				for b := 0; b < 256; b++ {
					emit(byte(a), byte(b))
				}
			}
		} else {
			for _, a := range menu2 {
				for _, b := range menu2 {
					emit(a, b)
				}
			}
		}
	}
	k.flushWith(seeds)
}

var curSeeds []seedRec

func (k *Runner) add(j job, seeds []seedRec) {
	k.batch = append(k.batch, j)
	if len(k.batch) >= batchSize || (j.k == kBlow && len(k.batch) >= blowBatchSize) {
		k.flushWith(seeds)
	}
}

func (k *Runner) flush() { k.flushWith(curSeeds) }

func (k *Runner) flushWith(seeds []seedRec) {
	curSeeds = seeds
	if len(k.batch) == 0 {
		return
	}
	b := k.batch
	k.noteBatch(b, seeds)
	total := k.measure(func() {
		for i := range b {
			b[i].v, b[i].err, b[i].pan = safeDecode(b[i].c, b[i].in)
		}
	})
	if total > k.maxAll {
		k.maxAll = total
	}
	if total > BaseCeiling {
		// re-measure call by call; only a call over its own ceiling is a violation
		k.stats["batches_remeasured_individually"]++
		for i := range b {
			j := &b[i]
			j.alloc = k.measure(func() { j.v, j.err, j.pan = safeDecode(j.c, j.in) })
			if int64(j.alloc) > k.maxOne {
				k.maxOne = int64(j.alloc)
			}
			if j.alloc > Ceiling(len(j.in)) {
				k.tripped[j.c.Name] = true
				k.violate(j.c, "alloc-over-ceiling", kindName[j.k], j.in, k.seedBytes(seeds, j), j.n, j.note,
					"decoding %d bytes (%s at %d %s) allocated %d bytes, ceiling %d; result err=%v", len(j.in), kindName[j.k], j.n, j.note, j.alloc, Ceiling(len(j.in)), j.err)
			}
		}
	}
	for i := range b {
		k.judge(&b[i], seeds)
	}
	k.batch = k.batch[:0]
}

func (k *Runner) seedBytes(seeds []seedRec, j *job) []byte {
	if j.seed >= 0 && j.seed < len(seeds) {
		return seeds[j.seed].enc
	}
	return nil
}

func (k *Runner) judge(j *job, seeds []seedRec) {
	c := j.c
	e := k.enums[j.k]
	h := fnv.New64a()
	h.Write([]byte(c.Name))
	h.Write([]byte{0})
	h.Write(j.in)
	key := h.Sum64()
	seed := k.seedBytes(seeds, j)
	out := "reject"
	switch {
	case j.pan != nil:
		out = "panic"
		k.violate(c, "decode-panic", kindName[j.k], j.in, seed, j.n, j.note, "decoding %s panicked: %v", hexs(j.in), j.pan)
	case j.err != nil:
	default:
		var orig any
		if j.seed >= 0 {
			orig = seeds[j.seed].v
		}
		if j.seed >= 0 && c.eq(orig, j.v) {
			out = "accept-same-value"
		} else {
			out = "accept-other-value"
		}
		if why := ""; c.MustReject != nil && func() bool { why = c.MustReject(j.in); return why != "" }() {
			out = "garbage-accepted"
			k.violate(c, "garbage-accepted", kindName[j.k], j.in, seed, j.n, j.note, "input %s must be rejected (%s) but decodes to %s", hexs(j.in), why, short(j.v))
		} else if j.k == kTrunc && (c.PrefixMayDecode == nil || !c.PrefixMayDecode(seed, j.n)) {
			out = "truncation-accepted"
			k.violate(c, "truncation-accepted", kindName[j.k], j.in, seed, j.n, j.note,
				"the %d-byte strict prefix of the %d-byte encoding of %s decodes without error to %s", j.n, len(seed), seeds[j.seed].label, short(j.v))
		} else if msg := k.stability(c, j.v); msg != "" {
			k.unstab++
			if c.StrictStability {
				out = "accept-unstable"
				k.violate(c, "accepted-value-does-not-roundtrip", kindName[j.k], j.in, seed, j.n, j.note, "input %s accepted; %s", hexs(j.in), msg)
			}
		}
	}
	e.CaseHash(key, len(j.in) > 0, out)
	sk := c.Name + "/" + kindName[j.k] + "/" + out
	if !k.sample[sk] && len(k.sample) < 40 && j.k != kShort {
		k.sample[sk] = true
		k.R.Sample(map[string]any{"codec": c.Name, "section": kindName[j.k], "position": j.n, "pattern": j.note, "input_hex": hexs(j.in), "outcome": out})
	}
}

func (k *Runner) replay(codecs []*Codec, rf *ev.ReplayFile) {
	var p replay
	if err := json.Unmarshal(rf.Replay, &p); err != nil {
		k.R.HarnessError("replay: bad payload: %v", err)
		return
	}
	if p.Kind == "sequences" {
		k.replaySeq(codecs, p)
		k.rt.Done(true, nil, "replay")
		return
	}
	for _, c := range codecs {
		if c.Name != p.Codec {
			continue
		}
		if p.Kind == "roundtrip" {
			cc := *c
			var vals []Value
			for _, v := range c.Values {
				if v.Label == p.Label {
					vals = append(vals, v)
				}
			}
			var sds []Seed
			for _, s := range c.Seeds {
				if s.Label == p.Label {
					sds = append(sds, s)
				}
			}
			cc.Values, cc.Seeds = vals, sds
			cc.Boundary, cc.OverMax = nil, nil
			for _, v := range c.Boundary {
				if v.Label == p.Label {
					cc.Boundary = append(cc.Boundary, v)
				}
			}
			for _, v := range c.OverMax {
				if v.Label == p.Label {
					cc.OverMax = append(cc.OverMax, v)
				}
			}
			k.roundtrip(&cc)
		} else {
			in, _ := hex.DecodeString(p.Input)
			sd, _ := hex.DecodeString(p.Seed)
			var kk kind
			for i, n := range kindName {
				if n == p.Kind {
					kk = kind(i)
				}
			}
			seeds := []seedRec{}
			si := -1
			if len(sd) > 0 {
				v, _, _ := safeDecode(c, sd)
				seeds = append(seeds, seedRec{label: "replayed seed", enc: sd, v: v})
				si = 0
			}
			j := job{c: c, k: kk, in: in, seed: si, n: p.N, note: p.Label}
			k.noteBatch([]job{j}, seeds)
			j.alloc = k.measure(func() { j.v, j.err, j.pan = safeDecode(c, in) })
			fmt.Printf("replay %s %s input=%s -> value=%s err=%v panic=%v alloc=%d\n", c.Name, p.Kind, hexs(in), short(j.v), j.err, j.pan, j.alloc)
			if j.alloc > Ceiling(len(in)) {
				k.violate(c, "alloc-over-ceiling", p.Kind, in, sd, p.N, p.Label, "decoding %d bytes allocated %d bytes, ceiling %d", len(in), j.alloc, Ceiling(len(in)))
			}
			k.judge(&j, seeds)
		}
		if k.R.ViolationCount() > 0 {
			k.R.MarkReplayReproduced()
		}
		k.rt.Done(true, nil, "replay")
		return
	}
	k.R.HarnessError("replay: unknown codec %q", p.Codec)
}

// ---------------------------------------------------------------- equality

// ErrorEqual compares two non-nil errors (per-package harness may replace it).
var ErrorEqual = func(a, b error) bool { return a.Error() == b.Error() }

var (
	timeType  = reflect.TypeOf(time.Time{})
	errorType = reflect.TypeOf((*error)(nil)).Elem()
)

// LaxEqual is reflect.DeepEqual except that nil and empty slices are equal, time.Time values
// are compared as instants and error values with ErrorEqual.
func LaxEqual(a, b any) bool { return eqv(reflect.ValueOf(a), reflect.ValueOf(b)) }

func eqv(a, b reflect.Value) bool {
	if !a.IsValid() || !b.IsValid() {
		return a.IsValid() == b.IsValid()
	}
	if a.Type() != b.Type() {
		return false
	}
	switch a.Kind() {
	case reflect.Pointer:
		if a.IsNil() || b.IsNil() {
			return a.IsNil() == b.IsNil()
		}
		return eqv(a.Elem(), b.Elem())
	case reflect.Interface:
		if a.IsNil() || b.IsNil() {
			return a.IsNil() == b.IsNil()
		}
		if a.Type().Implements(errorType) && a.CanInterface() && b.CanInterface() {
			ea, oka := a.Interface().(error)
			eb, okb := b.Interface().(error)
			if oka && okb {
				return ErrorEqual(ea, eb)
			}
		}
		return eqv(a.Elem(), b.Elem())
	case reflect.Struct:
		if a.Type() == timeType && a.CanInterface() && b.CanInterface() {
			return a.Interface().(time.Time).Equal(b.Interface().(time.Time))
		}
		for i := 0; i < a.NumField(); i++ {
			if !eqv(a.Field(i), b.Field(i)) {
				return false
			}
		}
		return true
	case reflect.Slice:
		if a.Len() != b.Len() {
			return false
		}
		for i := 0; i < a.Len(); i++ {
			if !eqv(a.Index(i), b.Index(i)) {
				return false
			}
		}
		return true
	case reflect.Array:
		for i := 0; i < a.Len(); i++ {
			if !eqv(a.Index(i), b.Index(i)) {
				return false
			}
		}
		return true
	case reflect.Map:
		if a.Len() != b.Len() {
			return false
		}
		keys := a.MapKeys()
		sort.Slice(keys, func(i, j int) bool { return fmt.Sprint(keys[i]) < fmt.Sprint(keys[j]) })
		for _, key := range keys {
			bv := b.MapIndex(key)
			if !bv.IsValid() || !eqv(a.MapIndex(key), bv) {
				return false
			}
		}
		return true
	case reflect.Func:
		return a.IsNil() && b.IsNil()
	case reflect.Bool:
		return a.Bool() == b.Bool()
	case reflect.Int, reflect.Int8, reflect.Int16, reflect.Int32, reflect.Int64:
		return a.Int() == b.Int()
	case reflect.Uint, reflect.Uint8, reflect.Uint16, reflect.Uint32, reflect.Uint64, reflect.Uintptr:
		return a.Uint() == b.Uint()
	case reflect.Float32, reflect.Float64:
		return a.Float() == b.Float()
	case reflect.Complex64, reflect.Complex128:
		return a.Complex() == b.Complex()
	case reflect.String:
		return a.String() == b.String()
	default:
		return false
	}
}
