package c27kit

// Section "sequences": short call SEQUENCES on one process state.
//
// The other sections evaluate one call per input and consume its result at once. A breakage of
// the STATE-LEAK class - an encoder that hands out a pooled buffer which a later call
// overwrites, scratch memory that a failing call leaves dirty so that the next encoding starts
// with garbage, a decoder whose values are views of the caller's (reused) buffer or of an
// internal slab, a memo that keeps the caller's slice - is invisible to them: every single
// call on fresh state is right. The deterministic form of "another user of the recycled memory
// ran in between" is a sequence on one goroutine (GOMAXPROCS=1: sync.Pool hands the object of
// the last Put back to the next Get; the oracle does not rely on that, without recycled state
// every call is a pure function of its arguments).
//
// Menu of one package (built from the codecs' own value menus, nothing is sampled):
//
//	enc       Encode of n menu values per codec (shortest / longest / median encoding)
//	enc-fail  every declared failing Encode (Codec.FailEncode, cheap Codec.OverMax values)
//	call      further real calls of the package (Codec.SeqCalls: checked / versioned encoders)
//	dec       Decode of the same n encodings, of one legacy-version seed, and of up to two
//	          single-bit variants of the longest encoding that still decode (same length,
//	          other value: what a memo keyed on too little confuses)
//	dec-bad   Decode of the longest encoding cut by one byte, cut in half, with its first
//	          byte inverted, and of 0xff filling
//
// The fresh-state answer of every menu call (bytes / error-ness / decoded value) is taken at
// process start, before any other section runs. Enumerated completely:
//
//	retain   A ; X [; Y] ; judge A ; B     A in enc+dec, X (,Y) in the whole menu, B in enc
//	         - every call returns its fresh-state answer (history independence),
//	         - A's retained bytes are unchanged and decode to A's value / A's retained decoded
//	           value still equals A's value,
//	         - Encode(B) equals B's fresh-state encoding.
//	alias    Decode(a) from ONE caller buffer ; retain ; overwrite the buffer in place with w ;
//	         Decode(w) from the same buffer ; the retained value still equals a's value -
//	         demanded only where the decoder's contract is a detached value (explicit copies in
//	         the decoder; inbound RPC payloads are recycled transport slabs); a decoder that is
//	         documented zero-copy (Codec.AliasByContract) is counted, not judged.
//	mutate   Encode(u) ; retain ; the caller changes u's byte slices in place ; Encode(u) again:
//	         equals the fresh-state encoding of the changed value, the retained bytes are unchanged.

import (
	"bytes"
	"fmt"
	"reflect"
	"sort"
	"strings"

	"github.com/WuKongIM/WuKongIM/pkg/zzverif/ev"
)

// SeqCall is one further real call of the package used as an intervening call of the
// sequences section (for example a checked encoder that rejects its argument).
type SeqCall struct {
	Label string
	Call  func() ([]byte, error)
}

type seqKind uint8

const (
	opEnc seqKind = iota
	opEncFail
	opCall
	opDec
	opDecBad
)

var seqKindName = [...]string{"enc", "enc-fail", "call", "dec", "dec-bad"}

type seqOp struct {
	kind   seqKind
	c      *Codec
	label  string
	v      any    // enc: the value; dec / dec-bad: the fresh-state decoded value (when it decodes)
	in     []byte // dec / dec-bad: the input (harness-owned, handed to the codec as a copy only)
	ref    []byte // enc / enc-fail / call: the fresh-state output
	refErr bool   // the fresh-state call returned an error
	call   func() ([]byte, error)
	mutRef []byte // enc: fresh-state encoding of the value with its byte slices changed (nil: none)
}

type seqRes struct {
	out []byte
	val any
}

type seqMenu struct {
	ops      []*seqOp
	enc      []*seqOp            // kind opEnc
	aOps     []*seqOp            // enc + dec (calls whose result is retained)
	byCodec  map[string][]*seqOp // all ops of one codec
	encBy    map[string][]*seqOp
	failing  []*seqOp // ops whose fresh-state answer is an error (enc-fail, call, dec-bad)
	codecs   int
	skipped  int
	excluded int64
	perCodec int
}

type seqRun struct {
	k        *Runner
	e        *ev.Enum
	m        *seqMenu
	reported map[string]bool
	stats    map[string]int64
	bad      string // fingerprint class of the first finding of the current sequence
	trace    []string
	mode     string
}

// ---------------------------------------------------------------- menu and fresh-state answers

func cloneBytes(b []byte) []byte { return append([]byte(nil), b...) }

// prepareSeq builds the menu and records the fresh-state answer of every call. It must run
// before any other section (the answers are the reference of history independence).
func (k *Runner) prepareSeq(codecs []*Codec) *seqMenu {
	m := &seqMenu{byCodec: map[string][]*seqOp{}, encBy: map[string][]*seqOp{}}
	m.perCodec = 2
	if len(codecs) <= 6 || k.R.Thorough() {
		m.perCodec = 3
	}
	add := func(op *seqOp) {
		op.label = op.c.Name + "/" + seqKindName[op.kind] + "/" + op.label
		m.ops = append(m.ops, op)
		m.byCodec[op.c.Name] = append(m.byCodec[op.c.Name], op)
		switch {
		case op.kind == opEnc:
			m.enc = append(m.enc, op)
			m.encBy[op.c.Name] = append(m.encBy[op.c.Name], op)
			m.aOps = append(m.aOps, op)
		case op.kind == opDec:
			m.aOps = append(m.aOps, op)
		}
		if op.refErr {
			m.failing = append(m.failing, op)
		}
	}
	for _, c := range codecs {
		if c.SeqSkip != "" {
			m.skipped++
			continue
		}
		m.codecs++
		// ---- encodable values whose fresh-state round trip is right (the others are judged by
		// the roundtrip section), distinct encodings, ordered by length
		type cand struct {
			v   Value
			enc []byte
		}
		var cands []cand
		seen := map[string]bool{}
		for _, v := range c.Values {
			enc, err, pan := safeEncode(c, v.V)
			if pan != nil || err != nil || seen[string(enc)] {
				continue
			}
			got, derr, dp := safeDecode(c, cloneBytes(enc))
			if dp != nil || derr != nil || !c.eq(v.V, got) {
				m.excluded++
				continue
			}
			seen[string(enc)] = true
			cands = append(cands, cand{v, cloneBytes(enc)})
		}
		sort.SliceStable(cands, func(i, j int) bool { return len(cands[i].enc) < len(cands[j].enc) })
		var pick []cand
		switch {
		case len(cands) <= m.perCodec:
			pick = cands
		case m.perCodec == 2:
			pick = []cand{cands[0], cands[len(cands)-1]}
		default:
			pick = []cand{cands[0], cands[len(cands)/2], cands[len(cands)-1]}
		}
		for _, p := range pick {
			op := &seqOp{kind: opEnc, c: c, label: p.v.Label, v: p.v.V, ref: p.enc}
			if hasBytes(reflect.ValueOf(p.v.V)) {
				w := deepClone(reflect.ValueOf(p.v.V))
				if mutateBytes(w) > 0 {
					if enc, err, pan := safeEncode(c, w.Interface()); pan == nil && err == nil && !bytes.Equal(enc, p.enc) {
						op.mutRef = cloneBytes(enc)
					}
				}
			}
			add(op)
		}
		for _, p := range pick {
			add(&seqOp{kind: opDec, c: c, label: p.v.Label, v: p.v.V, in: p.enc})
		}
		// one legacy-version encoding produced by the repository's own versioned encoder
		for _, s := range c.Seeds {
			got, derr, dp := safeDecode(c, cloneBytes(s.Bytes))
			if dp == nil && derr == nil && !seen[string(s.Bytes)] {
				add(&seqOp{kind: opDec, c: c, label: "seed:" + s.Label, v: got, in: cloneBytes(s.Bytes)})
				break
			}
		}
		// ---- failing encodes
		for _, v := range c.FailEncode {
			enc, err, pan := safeEncode(c, v.V)
			if pan != nil {
				continue // judged by the roundtrip section's encode-panic rule when it is a menu value
			}
			add(&seqOp{kind: opEncFail, c: c, label: v.Label, v: v.V, ref: cloneBytes(enc), refErr: err != nil})
		}
		for _, v := range c.OverMax {
			enc, err, pan := safeEncode(c, v.V)
			if pan != nil || err == nil {
				continue // accepted by the encoder: the decoder's business, judged by the roundtrip section
			}
			add(&seqOp{kind: opEncFail, c: c, label: "overmax:" + v.Label, v: v.V, ref: cloneBytes(enc), refErr: true})
		}
		for _, sc := range c.SeqCalls {
			sc := sc
			out, err, pan := safeCall(sc.Call)
			if pan != nil {
				continue
			}
			add(&seqOp{kind: opCall, c: c, label: sc.Label, call: sc.Call, ref: cloneBytes(out), refErr: err != nil})
		}
		if len(pick) == 0 {
			continue
		}
		// ---- same-length variants of the longest encoding that still decode to another value
		long := pick[len(pick)-1]
		flips := 0
		for _, pos := range flipOrder(len(long.enc)) {
			if flips >= 2 {
				break
			}
			in := cloneBytes(long.enc)
			in[pos] ^= 0x01
			got, derr, dp := safeDecode(c, cloneBytes(in))
			if dp != nil || derr != nil || c.eq(long.v.V, got) {
				continue
			}
			flips++
			add(&seqOp{kind: opDec, c: c, label: fmt.Sprintf("%s^bit0@%d", long.v.Label, pos), v: got, in: in})
		}
		// ---- invalid inputs
		bad := []struct {
			label string
			in    []byte
		}{
			{"cut-1:" + long.v.Label, cloneBytes(long.enc[:len(long.enc)-1])},
			{"cut-half:" + long.v.Label, cloneBytes(long.enc[:len(long.enc)/2])},
		}
		if len(long.enc) > 0 {
			inv := cloneBytes(long.enc)
			inv[0] ^= 0xff
			bad = append(bad, struct {
				label string
				in    []byte
			}{"byte0-inverted:" + long.v.Label, inv})
		}
		bad = append(bad, struct {
			label string
			in    []byte
		}{"ff-fill:" + long.v.Label, bytes.Repeat([]byte{0xff}, len(long.enc)+1)})
		for _, b := range bad {
			got, derr, dp := safeDecode(c, cloneBytes(b.in))
			if dp != nil {
				continue // judged by the truncation / mutation sections
			}
			add(&seqOp{kind: opDecBad, c: c, label: b.label, v: got, in: b.in, refErr: derr != nil})
		}
	}
	return m
}

// flipOrder: positions from the end towards the start interleaved with positions from the
// start (payload bytes usually sit at the end, scalar fields at the start).
func flipOrder(n int) []int {
	var out []int
	for i, j := n-1, 0; i >= j; i, j = i-1, j+1 {
		out = append(out, i)
		if j != i {
			out = append(out, j)
		}
	}
	return out
}

func safeCall(f func() ([]byte, error)) (b []byte, err error, pan any) {
	defer func() {
		if p := recover(); p != nil {
			pan = p
		}
	}()
	b, err = f()
	return
}

// ---------------------------------------------------------------- reflection helpers

var bytesType = reflect.TypeOf([]byte(nil))

func isErrorValue(v reflect.Value) bool {
	return v.Type().Implements(errorType)
}

// hasBytes reports whether v contains a non-empty byte slice.
func hasBytes(v reflect.Value) bool {
	if !v.IsValid() {
		return false
	}
	switch v.Kind() {
	case reflect.Pointer, reflect.Interface:
		if v.IsNil() || isErrorValue(v) {
			return false
		}
		return hasBytes(v.Elem())
	case reflect.Struct:
		if v.Type() == timeType {
			return false
		}
		for i := 0; i < v.NumField(); i++ {
			if v.Type().Field(i).IsExported() && hasBytes(v.Field(i)) {
				return true
			}
		}
	case reflect.Slice:
		if v.Type().Elem().Kind() == reflect.Uint8 {
			return v.Len() > 0
		}
		for i := 0; i < v.Len(); i++ {
			if hasBytes(v.Index(i)) {
				return true
			}
		}
	case reflect.Array:
		if v.Type().Elem().Kind() == reflect.Uint8 {
			return false
		}
		for i := 0; i < v.Len(); i++ {
			if hasBytes(v.Index(i)) {
				return true
			}
		}
	}
	return false
}

// deepClone copies v so that no byte slice, slice or pointer target is shared with v (error
// values keep their identity: sentinel errors are compared by identity).
func deepClone(v reflect.Value) reflect.Value {
	if !v.IsValid() {
		return v
	}
	switch v.Kind() {
	case reflect.Pointer:
		if v.IsNil() || isErrorValue(v) {
			return v
		}
		n := reflect.New(v.Type().Elem())
		n.Elem().Set(deepClone(v.Elem()))
		return n
	case reflect.Interface:
		if v.IsNil() || isErrorValue(v) {
			return v
		}
		out := reflect.New(v.Type()).Elem()
		out.Set(deepClone(v.Elem()))
		return out
	case reflect.Struct:
		out := reflect.New(v.Type()).Elem()
		out.Set(v)
		if v.Type() == timeType {
			return out
		}
		for i := 0; i < v.NumField(); i++ {
			if v.Type().Field(i).IsExported() && out.Field(i).CanSet() {
				out.Field(i).Set(deepClone(v.Field(i)))
			}
		}
		return out
	case reflect.Slice:
		if v.IsNil() {
			return v
		}
		out := reflect.MakeSlice(v.Type(), v.Len(), v.Len())
		for i := 0; i < v.Len(); i++ {
			out.Index(i).Set(deepClone(v.Index(i)))
		}
		return out
	case reflect.Array:
		out := reflect.New(v.Type()).Elem()
		for i := 0; i < v.Len(); i++ {
			out.Index(i).Set(deepClone(v.Index(i)))
		}
		return out
	}
	return v
}

// mutateBytes inverts bit 0 of the first byte of every non-empty byte slice reachable from v,
// IN PLACE (what a caller does that reuses its payload buffer); returns how many it changed.
func mutateBytes(v reflect.Value) int {
	if !v.IsValid() {
		return 0
	}
	n := 0
	switch v.Kind() {
	case reflect.Pointer, reflect.Interface:
		if v.IsNil() || isErrorValue(v) {
			return 0
		}
		return mutateBytes(v.Elem())
	case reflect.Struct:
		if v.Type() == timeType {
			return 0
		}
		for i := 0; i < v.NumField(); i++ {
			if v.Type().Field(i).IsExported() {
				n += mutateBytes(v.Field(i))
			}
		}
	case reflect.Slice:
		if v.Type().Elem().Kind() == reflect.Uint8 {
			if v.Len() > 0 {
				b := v.Bytes()
				b[0] ^= 0x01
				return 1
			}
			return 0
		}
		for i := 0; i < v.Len(); i++ {
			n += mutateBytes(v.Index(i))
		}
	case reflect.Array:
		if v.Type().Elem().Kind() == reflect.Uint8 {
			return 0
		}
		for i := 0; i < v.Len(); i++ {
			n += mutateBytes(v.Index(i))
		}
	}
	return n
}

// ---------------------------------------------------------------- execution and oracle

func (s *seqRun) fail(c *Codec, class, format string, args ...any) {
	if s.bad == "" {
		s.bad = class
	}
	fp := class + ":" + c.Name
	s.stats["sequence_findings["+class+"]"]++
	if s.reported[fp] {
		return
	}
	s.reported[fp] = true
	label := s.mode + "\x1f" + strings.Join(s.trace, "\x1f")
	s.k.violate(c, class, "sequences", nil, nil, len(s.trace), label, "sequence %s { %s }: %s", s.mode, strings.Join(s.trace, " ; "), fmt.Sprintf(format, args...))
}

// do executes one menu call and judges it against its fresh-state answer. buf, when not nil,
// is the caller buffer a decode reads from (otherwise the decoder gets a private copy).
func (s *seqRun) do(op *seqOp, buf []byte) seqRes {
	c := op.c
	switch op.kind {
	case opEnc, opEncFail, opCall:
		var out []byte
		var err error
		var pan any
		if op.kind == opCall {
			out, err, pan = safeCall(op.call)
		} else {
			out, err, pan = safeEncode(c, op.v)
		}
		switch {
		case pan != nil:
			s.fail(c, "sequence-panic", "%s panicked: %v", op.label, pan)
		case (err != nil) != op.refErr:
			s.fail(c, "encode-depends-on-history", "%s returns err=%v, on fresh state it returned error=%v", op.label, err, op.refErr)
		case err == nil && !bytes.Equal(out, op.ref):
			s.fail(c, "encode-depends-on-history", "%s returns %s, on fresh state it returned %s", op.label, hexs(out), hexs(op.ref))
		}
		return seqRes{out: out}
	default:
		in := buf
		if in == nil {
			in = cloneBytes(op.in)
		}
		got, err, pan := safeDecode(c, in)
		switch {
		case pan != nil:
			s.fail(c, "sequence-panic", "%s panicked: %v", op.label, pan)
		case (err != nil) != op.refErr:
			s.fail(c, "decode-depends-on-history", "%s (%s) returns err=%v, on fresh state it returned error=%v", op.label, hexs(op.in), err, op.refErr)
		case err == nil && !c.eq(op.v, got):
			s.fail(c, "decode-depends-on-history", "%s (%s) decodes to %s, on fresh state to %s", op.label, hexs(op.in), short(got), short(op.v))
		}
		return seqRes{val: got}
	}
}

func (s *seqRun) begin(mode string, labels ...string) {
	s.mode, s.bad = mode, ""
	s.trace = append(s.trace[:0], labels...)
}

func (s *seqRun) end(nontrivial bool) {
	out := "clean"
	if s.bad != "" {
		out = s.bad
	}
	s.e.CaseByConstruction(nontrivial, out)
}

// retain: A ; xs... ; judge A ; B ; judge A's bytes once more.
func (s *seqRun) retain(a *seqOp, xs []*seqOp, b *seqOp) {
	labels := make([]string, 0, len(xs)+2)
	labels = append(labels, a.label)
	for _, x := range xs {
		labels = append(labels, x.label)
	}
	if b != nil {
		labels = append(labels, b.label)
	}
	s.begin("retain", labels...)
	ra := s.do(a, nil)
	var snap []byte
	if a.kind == opEnc {
		snap = cloneBytes(ra.out)
	}
	for _, x := range xs {
		s.do(x, nil)
	}
	s.judgeRetained(a, ra, snap, "after the intervening calls")
	if b != nil {
		s.do(b, nil)
		if a.kind == opEnc && !bytes.Equal(ra.out, snap) {
			s.fail(a.c, "retained-encoding-changed", "the bytes returned by %s changed after %s: %s, were %s", a.label, b.label, hexs(ra.out), hexs(snap))
		}
	}
	s.end(true)
}

func (s *seqRun) judgeRetained(a *seqOp, ra seqRes, snap []byte, when string) {
	c := a.c
	if a.kind == opEnc {
		if !bytes.Equal(ra.out, snap) {
			s.fail(c, "retained-encoding-changed", "the bytes returned by %s changed %s: %s, were %s", a.label, when, hexs(ra.out), hexs(snap))
			return
		}
		if s.bad != "" {
			return // the encoding itself was already wrong
		}
		// the retained bytes (not a copy) are what the consumer decodes
		got, err, pan := safeDecode(c, ra.out)
		switch {
		case pan != nil:
			s.fail(c, "sequence-panic", "decoding the retained bytes of %s panicked: %v", a.label, pan)
		case err != nil:
			s.fail(c, "decode-depends-on-history", "the retained, unchanged bytes of %s are rejected %s: %v", a.label, when, err)
		case !c.eq(a.v, got):
			s.fail(c, "decode-depends-on-history", "the retained, unchanged bytes of %s decode %s to %s instead of %s", a.label, when, short(got), short(a.v))
		}
		return
	}
	if ra.val != nil && !c.eq(a.v, ra.val) && s.bad == "" {
		s.fail(c, "retained-decoded-value-changed", "the value returned by %s changed %s (its input buffer was not touched): now %s, was %s", a.label, when, short(ra.val), short(a.v))
	}
}

// alias: Decode(a) from ONE caller buffer ; overwrite it in place with w ; Decode(w) from it.
func (s *seqRun) alias(a, w *seqOp) {
	s.begin("alias", a.label, w.label)
	n := len(a.in)
	if len(w.in) > n {
		n = len(w.in)
	}
	buf := make([]byte, n)
	copy(buf, a.in)
	ra := s.do(a, buf[:len(a.in):len(a.in)])
	okBefore := s.bad == "" && ra.val != nil
	for i := range buf {
		buf[i] = 0xa5
	}
	copy(buf, w.in)
	s.do(w, buf[:len(w.in):len(w.in)])
	contract := a.c.AliasByContract != ""
	if okBefore && s.bad == "" {
		if !a.c.eq(a.v, ra.val) {
			if contract {
				s.stats["aliasing_by_contract_observed"]++
			} else {
				s.fail(a.c, "decoded-value-aliases-input", "the value returned by %s changed when the caller overwrote its input buffer with %s: now %s, was %s", a.label, w.label, short(ra.val), short(a.v))
			}
		}
	}
	if contract {
		s.stats["aliasing_by_contract"]++
	}
	out := "clean"
	switch {
	case s.bad != "":
		out = s.bad
	case contract:
		out = "aliasing-by-contract-not-judged"
	}
	s.e.CaseByConstruction(true, out)
}

// mutate: Encode(u) ; the caller changes u's byte slices in place ; Encode(u).
func (s *seqRun) mutate(a *seqOp) {
	s.begin("mutate", a.label, a.label+"+bytes-changed-in-place")
	c := a.c
	u := deepClone(reflect.ValueOf(a.v))
	out1, err, pan := safeEncode(c, u.Interface())
	switch {
	case pan != nil:
		s.fail(c, "sequence-panic", "%s panicked: %v", a.label, pan)
	case err != nil || !bytes.Equal(out1, a.ref):
		s.fail(c, "encode-depends-on-history", "%s returns %s err=%v, on fresh state it returned %s", a.label, hexs(out1), err, hexs(a.ref))
	}
	snap := cloneBytes(out1)
	mutateBytes(u)
	out2, err, pan := safeEncode(c, u.Interface())
	switch {
	case pan != nil:
		s.fail(c, "sequence-panic", "%s (changed) panicked: %v", a.label, pan)
	case err != nil || !bytes.Equal(out2, a.mutRef):
		s.fail(c, "encode-depends-on-history", "after the caller changed its byte slices in place %s returns %s err=%v; the fresh-state encoding of the changed value is %s", a.label, hexs(out2), err, hexs(a.mutRef))
	}
	if !bytes.Equal(out1, snap) {
		s.fail(c, "encoding-aliases-caller-value", "the bytes returned by %s changed when the caller changed its value in place: %s, were %s", a.label, hexs(out1), hexs(snap))
	}
	s.end(true)
}

func rotate(ops []*seqOp, seed int64) []*seqOp {
	if len(ops) == 0 {
		return ops
	}
	r := int(uint64(seed) % uint64(len(ops)))
	return append(append([]*seqOp(nil), ops[r:]...), ops[:r]...)
}

// nextEnc: the encodes judged after (A, X) in the quick tier: those of A's and of X's codec.
func (m *seqMenu) nextEnc(a, x *seqOp) []*seqOp {
	out := m.encBy[a.c.Name]
	if x.c != a.c {
		out = append(append([]*seqOp(nil), out...), m.encBy[x.c.Name]...)
	}
	if len(out) == 0 && len(m.enc) > 0 {
		out = m.enc[:1]
	}
	return out
}

// runSeq enumerates all sequences and closes the section.
func (k *Runner) runSeq(m *seqMenu) {
	r := k.R
	s := &seqRun{k: k, e: r.NewEnum("sequences"), m: m, reported: map[string]bool{}, stats: map[string]int64{}}
	thorough := r.Thorough()
	aOps := rotate(m.aOps, r.Seed())
	// ---- retain, one intervening call
	for _, a := range aOps {
		for _, x := range m.ops {
			bs := m.enc
			if !thorough {
				bs = m.nextEnc(a, x)
			}
			if len(bs) == 0 {
				s.retain(a, []*seqOp{x}, nil)
			}
			for _, b := range bs {
				s.retain(a, []*seqOp{x}, b)
			}
		}
	}
	// ---- retain, two intervening calls (thorough): within A's codec plus every failing call
	if thorough {
		for _, a := range aOps {
			fam := append([]*seqOp(nil), m.byCodec[a.c.Name]...)
			for _, f := range m.failing {
				if f.c != a.c {
					fam = append(fam, f)
				}
			}
			for _, x := range fam {
				for _, y := range fam {
					for _, b := range m.encBy[a.c.Name] {
						s.retain(a, []*seqOp{x, y}, b)
					}
				}
			}
		}
	}
	// ---- alias: every decodable input x every input of the package in ONE caller buffer
	var decs []*seqOp
	for _, op := range m.ops {
		if op.kind == opDec || op.kind == opDecBad {
			decs = append(decs, op)
		}
	}
	for _, a := range aOps {
		if a.kind != opDec {
			continue
		}
		for _, w := range decs {
			if w != a {
				s.alias(a, w)
			}
		}
	}
	// ---- mutate
	nMut := int64(0)
	for _, a := range m.enc {
		if a.mutRef != nil {
			nMut++
			s.mutate(a)
		}
	}
	kinds := map[string]int{}
	for _, op := range m.ops {
		kinds[seqKindName[op.kind]]++
	}
	s.e.Done(true, map[string]any{"codecs": m.codecs, "menu_calls": len(m.ops), "menu_by_kind": kinds, "values_per_codec": m.perCodec,
		"retained_calls": len(m.aOps), "intervening_calls": map[bool]string{false: "1", true: "1 (next encode over the whole package) and 2 (within the codec + every failing call)"}[thorough],
		"mutate_sequences": nMut},
		"call sequences on one process state: A ; X [; Y] ; judge A's retained result ; Encode(B) - every call against its fresh-state answer; one reused caller buffer overwritten in place between two decodes; caller changes its byte slices in place between two encodes")
	for name, n := range s.stats {
		r.Count(name, n)
	}
	r.Count("sequence_menu_values_excluded_fresh_roundtrip_not_equal", m.excluded)
	r.Count("sequence_codecs_left_out", int64(m.skipped))
	r.Guard("sequences-menu", len(m.enc) >= 1 && len(m.aOps) > len(m.enc) && kinds["dec-bad"] >= 1,
		"menu: %d encodes, %d retained calls, %d invalid decodes, %d calls in all", len(m.enc), len(m.aOps), kinds["dec-bad"], len(m.ops))
	r.Guard("sequences-ran", s.e.Evals() >= int64(len(m.aOps)*len(m.ops)), "sequences=%d retained calls=%d menu=%d", s.e.Evals(), len(m.aOps), len(m.ops))
	if len(m.enc) > 0 {
		r.Sample(map[string]any{"section": "sequences", "sequence": []string{m.enc[0].label, m.ops[len(m.ops)-1].label, m.enc[len(m.enc)-1].label}, "outcome": "clean"})
	}
	r.Assume("sequences: fresh-state answers are taken at process start; sync.Pool reuse is deterministic on one goroutine with GOMAXPROCS=1 and no GC in between (the oracle itself does not depend on it)")
}

// replaySeq re-executes one recorded sequence (by call labels) and, when it does not
// reproduce in isolation (the leak needed earlier history), the whole section.
func (k *Runner) replaySeq(codecs []*Codec, p replay) {
	m := k.prepareSeq(codecs)
	s := &seqRun{k: k, e: k.R.NewEnum("sequence-replay"), m: m, reported: map[string]bool{}, stats: map[string]int64{}}
	parts := strings.Split(p.Label, "\x1f")
	find := func(label string) *seqOp {
		for _, op := range m.ops {
			if op.label == label {
				return op
			}
		}
		return nil
	}
	ran := false
	if len(parts) >= 2 {
		var ops []*seqOp
		for _, l := range parts[1:] {
			ops = append(ops, find(strings.TrimSuffix(l, "+bytes-changed-in-place")))
		}
		complete := true
		for _, op := range ops {
			complete = complete && op != nil
		}
		if complete {
			ran = true
			switch parts[0] {
			case "retain":
				if len(ops) >= 3 {
					s.retain(ops[0], ops[1:len(ops)-1], ops[len(ops)-1])
				} else {
					s.retain(ops[0], ops[1:], nil)
				}
			case "alias":
				s.alias(ops[0], ops[1])
			case "mutate":
				if ops[0].mutRef != nil {
					s.mutate(ops[0])
				}
			}
			fmt.Printf("replay sequence %s { %s } -> %d violation(s)\n", parts[0], strings.Join(parts[1:], " ; "), k.R.ViolationCount())
		}
	}
	if k.R.ViolationCount() == 0 {
		fmt.Printf("replay: the sequence alone (found=%v) shows nothing on fresh state; running the whole section\n", ran)
		k.runSeq(m)
	}
	s.e.Done(false, nil, "replay of one sequence")
	if k.R.ViolationCount() > 0 {
		k.R.MarkReplayReproduced()
	}
}
