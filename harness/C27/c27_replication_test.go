package replication_test

// C27 (replication exchange batches and results): pkg/channel/replication/codec.go
// EncodeExchangeBatch/DecodeExchangeBatch, EncodeExchangeBatchResult/DecodeExchangeBatchResult.
// Black-box: exported API only.

import (
	"encoding/binary"
	"math"
	"testing"

	ch "github.com/WuKongIM/WuKongIM/pkg/channel"
	"github.com/WuKongIM/WuKongIM/pkg/channel/replication"
	kit "github.com/WuKongIM/WuKongIM/pkg/zzverif/c27kit"
	"github.com/WuKongIM/WuKongIM/pkg/zzverif/ev"
)

type c27Proposal struct {
	manifest ch.ProposalManifest
	records  []ch.Record
	entries  []ch.EntryIdentity
}

func c27Seal(t *testing.T, m ch.ProposalManifest, records []ch.Record) c27Proposal {
	t.Helper()
	sealed, entries, ok := ch.SealProposalManifest(m, records)
	if !ok {
		t.Fatalf("SealProposalManifest(%+v) failed", m)
	}
	return c27Proposal{manifest: sealed, records: records, entries: entries}
}

func c27ReplicationValues(t *testing.T) (batches, results []kit.Value) {
	id := ch.ChannelID{ID: "codec", Type: 1}
	key := ch.ChannelKey("1:codec")
	// proposal 1: one record at offset 1
	p1 := c27Seal(t, ch.ProposalManifest{
		Version: ch.ProposalManifestVersion, ChannelEpoch: 3, LeaderTerm: 5, FenceVersion: 7,
		CommandID: ch.CommandID{7}, BaseOffset: 0, LastOffset: 1,
	}, []ch.Record{{ID: 7, Epoch: 3, FromUID: "sender", ClientMsgNo: "msg", ServerTimestampMS: 1, Payload: []byte("first"), SizeBytes: 5}})
	tail1 := p1.entries[len(p1.entries)-1]
	// proposal 2: two records at offsets 2..3, boundary-valued fields
	p2 := c27Seal(t, ch.ProposalManifest{
		Version: ch.ProposalManifestVersion, ChannelEpoch: 128, LeaderTerm: 1 << 40, FenceVersion: math.MaxUint64,
		CommandID: ch.CommandID{8, 0xff}, BaseOffset: 1, LastOffset: 3,
		PreviousTerm: tail1.LeaderTerm, PreviousIndex: tail1.Index, PreviousDigest: tail1.Digest,
	}, []ch.Record{
		{ID: math.MaxUint64, Epoch: 128, Setting: 0xff, FromUID: "", ClientMsgNo: "second", ServerTimestampMS: 2, SyncOnce: true, Payload: nil, SizeBytes: 0},
		{ID: 127, Epoch: 128, FromUID: "u\x00\xff", ClientMsgNo: "", ServerTimestampMS: math.MaxInt64, Payload: make([]byte, 130), SizeBytes: math.MaxInt},
	})
	tail2 := p2.entries[len(p2.entries)-1]
	state0 := replication.ReplicaState{}
	state1 := replication.ReplicaState{LEO: 1, Committed: 1, Manifest: p1.manifest, TailIdentity: tail1}
	state2 := replication.ReplicaState{LEO: 3, Committed: 1, Manifest: p2.manifest, TailIdentity: tail2}

	rep1 := replication.ReplicateRequest{ChannelKey: key, ChannelID: id, Leader: 1, Follower: 2, Manifest: p1.manifest, Records: p1.records}
	rep1b := rep1
	rep1b.ServerAllocatedMessageIDs = true
	rep1b.Committed = 1
	rep1b.Leader, rep1b.Follower = math.MaxUint64, 128
	rep2 := replication.ReplicateRequest{ChannelKey: "2:k", ChannelID: ch.ChannelID{ID: "k", Type: 255}, Leader: 2, Follower: 1, Manifest: p2.manifest, Records: p2.records, Committed: 3}
	probeNil := replication.ProbeRequest{ChannelKey: key, ChannelID: id, Leader: 1, Follower: 2}
	probeEmpty := probeNil
	probeEmpty.Indexes = []uint64{}
	probeMany := probeNil
	probeMany.Indexes = []uint64{1, 2, 127, 128, 1 << 63, math.MaxUint64}
	fetch1 := replication.FetchRequest{ChannelKey: key, ChannelID: id, Leader: 1, Follower: 2, Expected: state1, From: 1, Through: 1, MaxBytes: 4096}
	fetch2 := replication.FetchRequest{ChannelKey: key, ChannelID: id, Leader: 3, Follower: 2, Expected: state2, From: 2, Through: 3, Previous: tail1, MaxBytes: math.MaxInt}

	item := func(id uint64, v any) replication.ExchangeItem {
		switch x := v.(type) {
		case replication.ReplicateRequest:
			return replication.ExchangeItem{RequestID: id, Kind: replication.ExchangeReplicate, Replicate: &x}
		case replication.ProbeRequest:
			return replication.ExchangeItem{RequestID: id, Kind: replication.ExchangeProbe, Probe: &x}
		case replication.FetchRequest:
			return replication.ExchangeItem{RequestID: id, Kind: replication.ExchangeFetch, Fetch: &x}
		}
		panic("c27: bad item")
	}
	batch := func(p replication.ExchangePriority, items ...replication.ExchangeItem) replication.ExchangeBatch {
		return replication.ExchangeBatch{Version: replication.ExchangeVersion, Priority: p, Items: items}
	}
	fg, bg := replication.ExchangePriorityForeground, replication.ExchangePriorityBackground
	batches = []kit.Value{
		{Label: "fg-replicate-1rec", V: batch(fg, item(1, rep1))},
		{Label: "bg-replicate-1rec-flags", V: batch(bg, item(127, rep1b))},
		{Label: "fg-replicate-2rec", V: batch(fg, item(128, rep2))},
		{Label: "fg-probe-nil-indexes", V: batch(fg, item(1, probeNil))},
		{Label: "fg-probe-empty-indexes", V: batch(fg, item(2, probeEmpty))},
		{Label: "fg-probe-many-indexes", V: batch(fg, item(math.MaxUint64, probeMany))},
		{Label: "fg-fetch-from1", V: batch(fg, item(3, fetch1))},
		{Label: "fg-fetch-from2", V: batch(fg, item(4, fetch2))},
		{Label: "fg-mixed-3", V: batch(fg, item(1, rep1), item(2, probeMany), item(3, fetch1))},
		{Label: "bg-two-replicates", V: batch(bg, item(5, rep1), item(5, rep2))},
	}

	proof1 := replication.ReplicateProof{ChannelKey: rep1.ChannelKey, ChannelID: rep1.ChannelID, Leader: rep1.Leader, Follower: rep1.Follower, Manifest: rep1.Manifest}
	probeProof := replication.ProbeProof{ChannelKey: key, ChannelID: id, Leader: 1, Follower: 2, Indexes: []uint64{1, 2}}
	fetchProof := replication.FetchProof{ChannelKey: key, ChannelID: id, Leader: 3, Follower: 2, Expected: state2, From: 2, Through: 3, Previous: tail1, MaxBytes: 4096}
	res := func(items ...replication.ExchangeItemResult) replication.ExchangeBatchResult {
		return replication.ExchangeBatchResult{Version: replication.ExchangeVersion, Items: items}
	}
	results = []kit.Value{
		{Label: "zero-item", V: res(replication.ExchangeItemResult{RequestID: 1})},
		{Label: "replicate-durable", V: res(replication.ExchangeItemResult{RequestID: 127, Replicate: replication.ReplicateResult{Status: replication.ReplicateDurable, LastOffset: 1, Proof: proof1}})},
		{Label: "replicate-needfrom", V: res(replication.ExchangeItemResult{RequestID: 128, Replicate: replication.ReplicateResult{Status: replication.ReplicateNeedFrom, NeedFrom: math.MaxUint64, LastOffset: 1 << 32}})},
		{Label: "replicate-status-255", V: res(replication.ExchangeItemResult{RequestID: math.MaxUint64, Replicate: replication.ReplicateResult{Status: 255}})},
		{Label: "probe-entries", V: res(replication.ExchangeItemResult{RequestID: 2, Probe: replication.ProbeResult{
			Proof: probeProof, State: state1, Entries: []replication.EntryProbe{{Index: 1, Present: true, Identity: tail1}, {Index: 2}}}})},
		{Label: "probe-empty-entries", V: res(replication.ExchangeItemResult{RequestID: 2, Probe: replication.ProbeResult{
			Proof: replication.ProbeProof{Indexes: []uint64{}}, State: state0, Entries: []replication.EntryProbe{}}})},
		{Label: "fetch-proposals", V: res(replication.ExchangeItemResult{RequestID: 3, Fetch: replication.FetchResult{
			Proof: fetchProof, State: state2, Proposals: []replication.RecoveryProposal{{Manifest: p2.manifest, Records: p2.records}, {Manifest: p1.manifest}, {Records: []ch.Record{}},
				{Records: []ch.Record{{ServerTimestampMS: -1}, {ServerTimestampMS: math.MinInt64, Payload: []byte{}}}}}}})},
		{Label: "fetch-empty-proposals", V: res(replication.ExchangeItemResult{RequestID: 3, Fetch: replication.FetchResult{Proposals: []replication.RecoveryProposal{}}})},
		{Label: "three-items", V: res(
			replication.ExchangeItemResult{RequestID: 1, Replicate: replication.ReplicateResult{Status: replication.ReplicateAlreadyDurable, LastOffset: 3, Proof: proof1}},
			replication.ExchangeItemResult{RequestID: 2, Probe: replication.ProbeResult{Proof: probeProof, State: state2}},
			replication.ExchangeItemResult{RequestID: 3, Fetch: replication.FetchResult{Proof: fetchProof, State: state1, Proposals: []replication.RecoveryProposal{{Manifest: p1.manifest, Records: p1.records}}}},
		)},
	}
	return batches, results
}

// the frame starts with uvarint(version); anything else is not an exchange frame
func c27MustRejectVersion(in []byte) string {
	if len(in) == 0 {
		return "empty frame"
	}
	v, n := binary.Uvarint(in)
	if n <= 0 {
		return "malformed version varint"
	}
	if v != uint64(replication.ExchangeVersion) {
		return "protocol version is not ExchangeVersion"
	}
	return ""
}

func TestVerifC27Replication(t *testing.T) {
	batches, results := c27ReplicationValues(t)
	ver := byte(replication.ExchangeVersion)
	batchCodec := &kit.Codec{
		Name:   "replication.ExchangeBatch",
		Encode: func(v any) ([]byte, error) { return replication.EncodeExchangeBatch(v.(replication.ExchangeBatch)) },
		Decode: func(b []byte) (any, error) {
			v, err := replication.DecodeExchangeBatch(b)
			if err != nil {
				return nil, err
			}
			return v, nil
		},
		MustReject:      c27MustRejectVersion,
		StrictStability: true,
		Values:          batches,
		Headers:         [][]byte{{ver}, {ver, 0}, {ver, 1}, {ver, 0, 1}, {ver, 0, 1, 1}, {ver, 0, 1, 1, 1}, {ver, 0, 1, 1, 2}, {ver, 0, 1, 1, 3}},
	}
	resultCodec := &kit.Codec{
		Name: "replication.ExchangeBatchResult",
		Encode: func(v any) ([]byte, error) {
			return replication.EncodeExchangeBatchResult(v.(replication.ExchangeBatchResult))
		},
		Decode: func(b []byte) (any, error) {
			v, err := replication.DecodeExchangeBatchResult(b)
			if err != nil {
				return nil, err
			}
			return v, nil
		},
		MustReject:      c27MustRejectVersion,
		StrictStability: true,
		Values:          results,
		Headers:         [][]byte{{ver}, {ver, 1}, {ver, 1, 1}, {ver, 1, 1, 1}, {ver, 2}},
	}
	kit.Main(t, "C27", func() []*kit.Codec { return []*kit.Codec{batchCodec, resultCodec} }, func(r *ev.R, replaying bool) {
		if !replaying {
			r.Guard("replication-menu", len(batches) >= 8 && len(results) >= 8, "batch values=%d result values=%d", len(batches), len(results))
		}
	})
}
