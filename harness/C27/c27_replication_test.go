package replication_test

// C27 (replication exchange batches and results): pkg/channel/replication/codec.go
// EncodeExchangeBatch/DecodeExchangeBatch, EncodeExchangeBatchResult/DecodeExchangeBatchResult.
// Black-box: exported API only.

import (
	"encoding/binary"
	"fmt"
	"math"
	"testing"

	ch "github.com/WuKongIM/WuKongIM/pkg/channel"
	"github.com/WuKongIM/WuKongIM/pkg/channel/replication"
	kit "github.com/WuKongIM/WuKongIM/pkg/zzverif/c27kit"
	"github.com/WuKongIM/WuKongIM/pkg/zzverif/ev"
)

// c27Bounds: values at max-1 / max (must round-trip) and max+1 (must be rejected by the encoder
// or the decoder) of every length-bounded field of the exchange codec.
type c27Bounds struct {
	batchOK, batchOver, resultOK, resultOver []kit.Value
	batchFail, resultFail                    []kit.Value
}

type c27Proposal struct {
	manifest ch.ProposalManifest
	records  []ch.Record
	entries  []ch.EntryIdentity
}

func c27Seal(t *testing.T, m ch.ProposalManifest, records []ch.Record) c27Proposal {
	t.Helper()
	sealed, entries, ok := ch.SealProposalManifest(m, records)
	if !ok {
		t.Fatalf("SealProposalManifest(%+v) failed", m)
	}
	return c27Proposal{manifest: sealed, records: records, entries: entries}
}

func c27ReplicationValues(t *testing.T) (batches, results []kit.Value, bnd c27Bounds) {
	id := ch.ChannelID{ID: "codec", Type: 1}
	key := ch.ChannelKey("1:codec")
	// proposal 1: one record at offset 1
	p1 := c27Seal(t, ch.ProposalManifest{
		Version: ch.ProposalManifestVersion, ChannelEpoch: 3, LeaderTerm: 5, FenceVersion: 7,
		CommandID: ch.CommandID{7}, BaseOffset: 0, LastOffset: 1,
	}, []ch.Record{{ID: 7, Epoch: 3, FromUID: "sender", ClientMsgNo: "msg", ServerTimestampMS: 1, Payload: []byte("first"), SizeBytes: 5}})
	tail1 := p1.entries[len(p1.entries)-1]
	// proposal 2: two records at offsets 2..3, boundary-valued fields
	p2 := c27Seal(t, ch.ProposalManifest{
		Version: ch.ProposalManifestVersion, ChannelEpoch: 128, LeaderTerm: 1 << 40, FenceVersion: math.MaxUint64,
		CommandID: ch.CommandID{8, 0xff}, BaseOffset: 1, LastOffset: 3,
		PreviousTerm: tail1.LeaderTerm, PreviousIndex: tail1.Index, PreviousDigest: tail1.Digest,
	}, []ch.Record{
		{ID: math.MaxUint64, Epoch: 128, Setting: 0xff, FromUID: "", ClientMsgNo: "second", ServerTimestampMS: 2, SyncOnce: true, Payload: nil, SizeBytes: 0},
		{ID: 127, Epoch: 128, FromUID: "u\x00\xff", ClientMsgNo: "", ServerTimestampMS: math.MaxInt64, Payload: make([]byte, 130), SizeBytes: math.MaxInt},
	})
	tail2 := p2.entries[len(p2.entries)-1]
	state0 := replication.ReplicaState{}
	state1 := replication.ReplicaState{LEO: 1, Committed: 1, Manifest: p1.manifest, TailIdentity: tail1}
	state2 := replication.ReplicaState{LEO: 3, Committed: 1, Manifest: p2.manifest, TailIdentity: tail2}

	rep1 := replication.ReplicateRequest{ChannelKey: key, ChannelID: id, Leader: 1, Follower: 2, Manifest: p1.manifest, Records: p1.records}
	rep1b := rep1
	rep1b.ServerAllocatedMessageIDs = true
	rep1b.Committed = 1
	rep1b.Leader, rep1b.Follower = math.MaxUint64, 128
	rep2 := replication.ReplicateRequest{ChannelKey: "2:k", ChannelID: ch.ChannelID{ID: "k", Type: 255}, Leader: 2, Follower: 1, Manifest: p2.manifest, Records: p2.records, Committed: 3}
	probeNil := replication.ProbeRequest{ChannelKey: key, ChannelID: id, Leader: 1, Follower: 2}
	probeEmpty := probeNil
	probeEmpty.Indexes = []uint64{}
	probeMany := probeNil
	probeMany.Indexes = []uint64{1, 2, 127, 128, 1 << 63, math.MaxUint64}
	fetch1 := replication.FetchRequest{ChannelKey: key, ChannelID: id, Leader: 1, Follower: 2, Expected: state1, From: 1, Through: 1, MaxBytes: 4096}
	fetch2 := replication.FetchRequest{ChannelKey: key, ChannelID: id, Leader: 3, Follower: 2, Expected: state2, From: 2, Through: 3, Previous: tail1, MaxBytes: math.MaxInt}

	item := func(id uint64, v any) replication.ExchangeItem {
		switch x := v.(type) {
		case replication.ReplicateRequest:
			return replication.ExchangeItem{RequestID: id, Kind: replication.ExchangeReplicate, Replicate: &x}
		case replication.ProbeRequest:
			return replication.ExchangeItem{RequestID: id, Kind: replication.ExchangeProbe, Probe: &x}
		case replication.FetchRequest:
			return replication.ExchangeItem{RequestID: id, Kind: replication.ExchangeFetch, Fetch: &x}
		}
		panic("c27: bad item")
	}
	batch := func(p replication.ExchangePriority, items ...replication.ExchangeItem) replication.ExchangeBatch {
		return replication.ExchangeBatch{Version: replication.ExchangeVersion, Priority: p, Items: items}
	}
	fg, bg := replication.ExchangePriorityForeground, replication.ExchangePriorityBackground
	batches = []kit.Value{
		{Label: "fg-replicate-1rec", V: batch(fg, item(1, rep1))},
		{Label: "bg-replicate-1rec-flags", V: batch(bg, item(127, rep1b))},
		{Label: "fg-replicate-2rec", V: batch(fg, item(128, rep2))},
		{Label: "fg-probe-nil-indexes", V: batch(fg, item(1, probeNil))},
		{Label: "fg-probe-empty-indexes", V: batch(fg, item(2, probeEmpty))},
		{Label: "fg-probe-many-indexes", V: batch(fg, item(math.MaxUint64, probeMany))},
		{Label: "fg-fetch-from1", V: batch(fg, item(3, fetch1))},
		{Label: "fg-fetch-from2", V: batch(fg, item(4, fetch2))},
		{Label: "fg-mixed-3", V: batch(fg, item(1, rep1), item(2, probeMany), item(3, fetch1))},
		{Label: "bg-two-replicates", V: batch(bg, item(5, rep1), item(5, rep2))},
	}

	proof1 := replication.ReplicateProof{ChannelKey: rep1.ChannelKey, ChannelID: rep1.ChannelID, Leader: rep1.Leader, Follower: rep1.Follower, Manifest: rep1.Manifest}
	probeProof := replication.ProbeProof{ChannelKey: key, ChannelID: id, Leader: 1, Follower: 2, Indexes: []uint64{1, 2}}
	fetchProof := replication.FetchProof{ChannelKey: key, ChannelID: id, Leader: 3, Follower: 2, Expected: state2, From: 2, Through: 3, Previous: tail1, MaxBytes: 4096}
	res := func(items ...replication.ExchangeItemResult) replication.ExchangeBatchResult {
		return replication.ExchangeBatchResult{Version: replication.ExchangeVersion, Items: items}
	}
	results = []kit.Value{
		{Label: "zero-item", V: res(replication.ExchangeItemResult{RequestID: 1})},
		{Label: "replicate-durable", V: res(replication.ExchangeItemResult{RequestID: 127, Replicate: replication.ReplicateResult{Status: replication.ReplicateDurable, LastOffset: 1, Proof: proof1}})},
		{Label: "replicate-needfrom", V: res(replication.ExchangeItemResult{RequestID: 128, Replicate: replication.ReplicateResult{Status: replication.ReplicateNeedFrom, NeedFrom: math.MaxUint64, LastOffset: 1 << 32}})},
		{Label: "replicate-status-255", V: res(replication.ExchangeItemResult{RequestID: math.MaxUint64, Replicate: replication.ReplicateResult{Status: 255}})},
		{Label: "probe-entries", V: res(replication.ExchangeItemResult{RequestID: 2, Probe: replication.ProbeResult{
			Proof: probeProof, State: state1, Entries: []replication.EntryProbe{{Index: 1, Present: true, Identity: tail1}, {Index: 2}}}})},
		{Label: "probe-empty-entries", V: res(replication.ExchangeItemResult{RequestID: 2, Probe: replication.ProbeResult{
			Proof: replication.ProbeProof{Indexes: []uint64{}}, State: state0, Entries: []replication.EntryProbe{}}})},
		{Label: "fetch-proposals", V: res(replication.ExchangeItemResult{RequestID: 3, Fetch: replication.FetchResult{
			Proof: fetchProof, State: state2, Proposals: []replication.RecoveryProposal{{Manifest: p2.manifest, Records: p2.records}, {Manifest: p1.manifest}, {Records: []ch.Record{}},
				{Records: []ch.Record{{ServerTimestampMS: -1}, {ServerTimestampMS: math.MinInt64, Payload: []byte{}}}}}}})},
		{Label: "fetch-empty-proposals", V: res(replication.ExchangeItemResult{RequestID: 3, Fetch: replication.FetchResult{Proposals: []replication.RecoveryProposal{}}})},
		{Label: "three-items", V: res(
			replication.ExchangeItemResult{RequestID: 1, Replicate: replication.ReplicateResult{Status: replication.ReplicateAlreadyDurable, LastOffset: 3, Proof: proof1}},
			replication.ExchangeItemResult{RequestID: 2, Probe: replication.ProbeResult{Proof: probeProof, State: state2}},
			replication.ExchangeItemResult{RequestID: 3, Fetch: replication.FetchResult{Proof: fetchProof, State: state1, Proposals: []replication.RecoveryProposal{{Manifest: p1.manifest, Records: p1.records}}}},
		)},
	}
	// ---- failing encodes (section "sequences"): every rejecting path of the two encoders, most of
	// them after the first item was already appended to the output
	badKind := replication.ExchangeItem{RequestID: 2, Kind: 99}
	nilReplicate := replication.ExchangeItem{RequestID: 2, Kind: replication.ExchangeReplicate}
	twoBodies := item(2, rep1)
	twoBodies.Probe = &probeNil
	bnd.batchFail = []kit.Value{
		{Label: "version-0", V: replication.ExchangeBatch{Version: 0, Priority: fg, Items: []replication.ExchangeItem{item(1, rep1)}}},
		{Label: "priority-invalid", V: replication.ExchangeBatch{Version: replication.ExchangeVersion, Priority: 99, Items: []replication.ExchangeItem{item(1, rep1)}}},
		{Label: "no-items", V: batch(fg)},
		{Label: "first-item-request-id-0", V: batch(fg, item(0, rep1))},
		{Label: "second-item-request-id-0", V: batch(fg, item(1, rep2), item(0, rep1))},
		{Label: "second-item-nil-replicate", V: batch(fg, item(1, rep2), nilReplicate)},
		{Label: "second-item-two-bodies", V: batch(fg, item(1, rep2), twoBodies)},
		{Label: "second-item-unknown-kind", V: batch(fg, item(1, rep2), badKind)},
		{Label: "second-item-probe-in-background", V: batch(bg, item(1, rep2), item(2, probeMany))},
		{Label: "third-item-fetch-in-background", V: batch(bg, item(1, rep1), item(2, rep2), item(3, fetch1))},
	}
	okItem := replication.ExchangeItemResult{RequestID: 1, Fetch: replication.FetchResult{Proof: fetchProof, State: state2, Proposals: []replication.RecoveryProposal{{Manifest: p2.manifest, Records: p2.records}}}}
	bnd.resultFail = []kit.Value{
		{Label: "version-0", V: replication.ExchangeBatchResult{Version: 0, Items: []replication.ExchangeItemResult{okItem}}},
		{Label: "no-items", V: res()},
		{Label: "first-item-request-id-0", V: res(replication.ExchangeItemResult{})},
		{Label: "second-item-request-id-0", V: res(okItem, replication.ExchangeItemResult{RequestID: 0, Probe: replication.ProbeResult{Proof: probeProof}})},
	}
	// ---- declared maxima: MaxExchangeBatchItems = maxRecoveryProbeIndexes =
	// maxRecoveryReplacementProposals = 256 elements, MaxExchangeBatchBytes = 4 MiB per frame
	const maxN = replication.MaxExchangeBatchItems
	idx := func(n int) []uint64 {
		out := make([]uint64, n)
		for i := range out {
			out[i] = uint64(i + 1)
		}
		return out
	}
	recs := func(n int, payload int) c27Proposal {
		rs := make([]ch.Record, n)
		for i := range rs {
			rs[i] = ch.Record{ID: uint64(i + 1), Epoch: 3, ServerTimestampMS: 1}
		}
		if payload > 0 {
			rs[0].Payload = make([]byte, payload)
		}
		return c27Seal(t, ch.ProposalManifest{Version: ch.ProposalManifestVersion, ChannelEpoch: 3, LeaderTerm: 5, FenceVersion: 7,
			CommandID: ch.CommandID{9}, BaseOffset: 0, LastOffset: uint64(n)}, rs)
	}
	repN := func(n, payload int) replication.ReplicateRequest {
		p := recs(n, payload)
		return replication.ReplicateRequest{ChannelKey: key, ChannelID: id, Leader: 1, Follower: 2, Manifest: p.manifest, Records: p.records}
	}
	put := func(n int, ok, over *[]kit.Value, label string, v any) {
		l := fmt.Sprintf("%s=%d", label, n)
		if n > maxN {
			*over = append(*over, kit.Value{Label: l, V: v})
		} else {
			*ok = append(*ok, kit.Value{Label: l, V: v})
		}
	}
	for _, n := range []int{maxN - 1, maxN, maxN + 1} {
		pr := probeNil
		pr.Indexes = idx(n)
		put(n, &bnd.batchOK, &bnd.batchOver, "probe-indexes", batch(fg, item(1, pr)))
		items := make([]replication.ExchangeItem, n)
		for i := range items {
			items[i] = item(uint64(i+1), probeNil)
		}
		put(n, &bnd.batchOK, &bnd.batchOver, "batch-items", batch(fg, items...))
		put(n, &bnd.batchOK, &bnd.batchOver, "replicate-records", batch(bg, item(1, repN(n, 0))))

		pp := probeProof
		pp.Indexes = idx(n)
		put(n, &bnd.resultOK, &bnd.resultOver, "proof-indexes", res(replication.ExchangeItemResult{RequestID: 1, Probe: replication.ProbeResult{Proof: pp}}))
		entries := make([]replication.EntryProbe, n)
		for i := range entries {
			entries[i] = replication.EntryProbe{Index: uint64(i + 1)}
		}
		put(n, &bnd.resultOK, &bnd.resultOver, "probe-entries", res(replication.ExchangeItemResult{RequestID: 1, Probe: replication.ProbeResult{Entries: entries}}))
		put(n, &bnd.resultOK, &bnd.resultOver, "fetch-proposals", res(replication.ExchangeItemResult{RequestID: 1, Fetch: replication.FetchResult{Proposals: make([]replication.RecoveryProposal, n)}}))
		put(n, &bnd.resultOK, &bnd.resultOver, "proposal-records", res(replication.ExchangeItemResult{RequestID: 1, Fetch: replication.FetchResult{Proposals: []replication.RecoveryProposal{{Records: make([]ch.Record, n)}}}}))
		ritems := make([]replication.ExchangeItemResult, n)
		for i := range ritems {
			ritems[i] = replication.ExchangeItemResult{RequestID: uint64(i + 1)}
		}
		put(n, &bnd.resultOK, &bnd.resultOver, "result-items", res(ritems...))
	}
	// frames of exactly MaxExchangeBatchBytes-1, MaxExchangeBatchBytes, MaxExchangeBatchBytes+1 bytes
	const maxB = replication.MaxExchangeBatchBytes
	base := maxB - 4096
	encB, err := replication.EncodeExchangeBatch(batch(bg, item(1, repN(1, base))))
	if err != nil {
		t.Fatalf("c27: sizing batch: %v", err)
	}
	resWith := func(payload int) replication.ExchangeBatchResult {
		return res(replication.ExchangeItemResult{RequestID: 1, Fetch: replication.FetchResult{Proposals: []replication.RecoveryProposal{{Records: []ch.Record{{Payload: make([]byte, payload)}}}}}})
	}
	encR, err := replication.EncodeExchangeBatchResult(resWith(base))
	if err != nil {
		t.Fatalf("c27: sizing result: %v", err)
	}
	for _, target := range []int{maxB - 1, maxB, maxB + 1} {
		l := fmt.Sprintf("frame-bytes=%d", target)
		bv := kit.Value{Label: l, V: batch(bg, item(1, repN(1, base+target-len(encB))))}
		rv := kit.Value{Label: l, V: resWith(base + target - len(encR))}
		if target > maxB {
			bnd.batchOver, bnd.resultOver = append(bnd.batchOver, bv), append(bnd.resultOver, rv)
		} else {
			bnd.batchOK, bnd.resultOK = append(bnd.batchOK, bv), append(bnd.resultOK, rv)
		}
	}
	return batches, results, bnd
}

// the frame starts with uvarint(version); anything else is not an exchange frame
func c27MustRejectVersion(in []byte) string {
	if len(in) == 0 {
		return "empty frame"
	}
	v, n := binary.Uvarint(in)
	if n <= 0 {
		return "malformed version varint"
	}
	if v != uint64(replication.ExchangeVersion) {
		return "protocol version is not ExchangeVersion"
	}
	return ""
}

func TestVerifC27Replication(t *testing.T) {
	batches, results, bnd := c27ReplicationValues(t)
	ver := byte(replication.ExchangeVersion)
	batchCodec := &kit.Codec{
		Name:   "replication.ExchangeBatch",
		Encode: func(v any) ([]byte, error) { return replication.EncodeExchangeBatch(v.(replication.ExchangeBatch)) },
		Decode: func(b []byte) (any, error) {
			v, err := replication.DecodeExchangeBatch(b)
			if err != nil {
				return nil, err
			}
			return v, nil
		},
		MustReject:      c27MustRejectVersion,
		StrictStability: true,
		Values:          batches,
		Boundary:        bnd.batchOK,
		OverMax:         bnd.batchOver,
		FailEncode:      bnd.batchFail,
		Headers:         [][]byte{{ver}, {ver, 0}, {ver, 1}, {ver, 0, 1}, {ver, 0, 1, 1}, {ver, 0, 1, 1, 1}, {ver, 0, 1, 1, 2}, {ver, 0, 1, 1, 3}},
	}
	resultCodec := &kit.Codec{
		Name: "replication.ExchangeBatchResult",
		Encode: func(v any) ([]byte, error) {
			return replication.EncodeExchangeBatchResult(v.(replication.ExchangeBatchResult))
		},
		Decode: func(b []byte) (any, error) {
			v, err := replication.DecodeExchangeBatchResult(b)
			if err != nil {
				return nil, err
			}
			return v, nil
		},
		MustReject:      c27MustRejectVersion,
		StrictStability: true,
		Values:          results,
		Boundary:        bnd.resultOK,
		OverMax:         bnd.resultOver,
		FailEncode:      bnd.resultFail,
		Headers:         [][]byte{{ver}, {ver, 1}, {ver, 1, 1}, {ver, 1, 1, 1}, {ver, 2}},
	}
	kit.Main(t, "C27", func() []*kit.Codec { return []*kit.Codec{batchCodec, resultCodec} }, func(r *ev.R, replaying bool) {
		if !replaying {
			r.Guard("replication-menu", len(batches) >= 8 && len(results) >= 8, "batch values=%d result values=%d", len(batches), len(results))
			r.Guard("replication-boundary-lengths", len(bnd.batchOK) >= 8 && len(bnd.resultOK) >= 12 && len(bnd.batchOver) >= 4 && len(bnd.resultOver) >= 6,
				"at-or-below-maximum values: batch=%d result=%d; over-maximum values: batch=%d result=%d", len(bnd.batchOK), len(bnd.resultOK), len(bnd.batchOver), len(bnd.resultOver))
		}
	})
}
