package c27kit

// Process isolation for the enumeration.
//
// A decoder that trusts a length can make the Go runtime die with "fatal error: out of
// memory" (a throw, not a panic: it cannot be recovered in-process) or spend minutes zeroing
// tens of gigabytes. To turn that into a VIOLATION instead of a dead check, Main runs the
// enumeration in a child process (the same test binary, C27_CHILD=1). The child records the
// batch it is about to decode in a small progress file; when the child dies or exceeds its
// time budget the parent replays the inputs of that last batch one by one, each in its own
// probe process, and reports the input that kills the process.

import (
	"bytes"
	"encoding/binary"
	"encoding/hex"
	"fmt"
	"os"
	"os/exec"
	"strconv"
	"strings"
	"testing"
	"time"

	"github.com/WuKongIM/WuKongIM/pkg/zzverif/ev"
)

const (
	envChild    = "C27_CHILD"
	envProbe    = "C27_PROBE"
	envProgress = "C27_PROGRESS"
)

var progressFile *os.File

type progressJob struct {
	codec string
	kind  kind
	n     int
	note  string
	in    []byte
	seed  []byte
}

func putBytes(buf *bytes.Buffer, b []byte) {
	var l [4]byte
	binary.BigEndian.PutUint32(l[:], uint32(len(b)))
	buf.Write(l[:])
	buf.Write(b)
}

func getBytes(b []byte, off *int) ([]byte, bool) {
	if *off+4 > len(b) {
		return nil, false
	}
	n := int(binary.BigEndian.Uint32(b[*off:]))
	*off += 4
	if n < 0 || *off+n > len(b) {
		return nil, false
	}
	v := b[*off : *off+n]
	*off += n
	return v, true
}

func encodeProgress(jobs []progressJob) []byte {
	var body bytes.Buffer
	for _, j := range jobs {
		putBytes(&body, []byte(j.codec))
		body.WriteByte(byte(j.kind))
		putBytes(&body, []byte(strconv.Itoa(j.n)))
		putBytes(&body, []byte(j.note))
		putBytes(&body, j.in)
		putBytes(&body, j.seed)
	}
	var out bytes.Buffer
	var hdr [8]byte
	binary.BigEndian.PutUint32(hdr[0:], uint32(len(jobs)))
	binary.BigEndian.PutUint32(hdr[4:], uint32(body.Len()))
	out.Write(hdr[:])
	out.Write(body.Bytes())
	return out.Bytes()
}

func decodeProgress(b []byte) []progressJob {
	if len(b) < 8 {
		return nil
	}
	count := int(binary.BigEndian.Uint32(b[0:]))
	size := int(binary.BigEndian.Uint32(b[4:]))
	if 8+size > len(b) {
		return nil
	}
	b = b[8 : 8+size]
	off := 0
	var out []progressJob
	for i := 0; i < count; i++ {
		var j progressJob
		name, ok := getBytes(b, &off)
		if !ok || off >= len(b) {
			return out
		}
		j.codec = string(name)
		j.kind = kind(b[off])
		off++
		n, ok1 := getBytes(b, &off)
		note, ok2 := getBytes(b, &off)
		in, ok3 := getBytes(b, &off)
		seed, ok4 := getBytes(b, &off)
		if !ok1 || !ok2 || !ok3 || !ok4 {
			return out
		}
		j.n, _ = strconv.Atoi(string(n))
		j.note = string(note)
		j.in = append([]byte(nil), in...)
		j.seed = append([]byte(nil), seed...)
		out = append(out, j)
	}
	return out
}

// noteBatch records the batch that is about to be decoded (child only).
func (k *Runner) noteBatch(b []job, seeds []seedRec) {
	if progressFile == nil {
		return
	}
	jobs := make([]progressJob, len(b))
	for i := range b {
		jobs[i] = progressJob{codec: b[i].c.Name, kind: b[i].k, n: b[i].n, note: b[i].note, in: b[i].in}
	}
	_, _ = progressFile.WriteAt(encodeProgress(jobs), 0)
}

// Main is the entry point of every C27 run. build returns the codecs of the package; after
// (optional) adds package-specific sections and guards to the finished run.
func Main(t *testing.T, property string, build func() []*Codec, after func(r *ev.R, replaying bool)) {
	switch {
	case os.Getenv(envProbe) != "":
		probe(build())
	case os.Getenv(envChild) == "1":
		if p := os.Getenv(envProgress); p != "" {
			if f, err := os.OpenFile(p, os.O_CREATE|os.O_RDWR, 0o644); err == nil {
				progressFile = f
				defer f.Close()
			}
		}
		r := ev.Start(t, property)
		defer r.Finish()
		k := NewRunner(r)
		k.Run(build())
		if after != nil {
			after(r, r.Replay() != nil)
		}
	default:
		parent(t, property, build)
	}
}

func probe(codecs []*Codec) {
	raw, err := os.ReadFile(os.Getenv(envProbe))
	if err != nil {
		fmt.Println("probe: cannot read input:", err)
		os.Exit(3)
	}
	jobs := decodeProgress(raw)
	for _, j := range jobs {
		for _, c := range codecs {
			if c.Name == j.codec {
				v, derr, pan := safeDecode(c, j.in)
				fmt.Printf("probe %s: value=%s err=%v panic=%v\n", c.Name, short(v), derr, pan)
			}
		}
	}
}

func childBudget() time.Duration {
	b := 120.0
	if s := os.Getenv("VERIF_BUDGET_S"); s != "" {
		if v, err := strconv.ParseFloat(s, 64); err == nil && v > 0 {
			b = v
		}
	}
	return time.Duration(b * 1.6 * float64(time.Second))
}

type tailBuffer struct{ b []byte }

func (w *tailBuffer) Write(p []byte) (int, error) {
	w.b = append(w.b, p...)
	if len(w.b) > 1<<20 {
		w.b = append([]byte(nil), w.b[len(w.b)-(512<<10):]...)
	}
	return len(p), nil
}

// runSelf re-executes the test binary; it returns how it ended ("ok", "exit N", "killed after ...").
func runSelf(extraEnv []string, limit time.Duration, out *tailBuffer) string {
	cmd := exec.Command(os.Args[0], os.Args[1:]...)
	cmd.Env = append(os.Environ(), extraEnv...)
	cmd.Stdout = out
	cmd.Stderr = out
	if err := cmd.Start(); err != nil {
		return "cannot start: " + err.Error()
	}
	done := make(chan error, 1)
	go func() { done <- cmd.Wait() }()
	select {
	case err := <-done:
		if err == nil {
			return "ok"
		}
		return err.Error()
	case <-time.After(limit):
		_ = cmd.Process.Kill()
		<-done
		return fmt.Sprintf("killed after %s without finishing", limit)
	}
}

func firstFatalLines(log []byte) string {
	lines := strings.Split(string(log), "\n")
	for i, l := range lines {
		if strings.HasPrefix(l, "fatal error:") || strings.HasPrefix(l, "runtime: out of memory") || strings.HasPrefix(l, "panic:") {
			end := i + 3
			if end > len(lines) {
				end = len(lines)
			}
			return strings.Join(lines[i:end], " | ")
		}
	}
	if len(lines) > 3 {
		lines = lines[len(lines)-3:]
	}
	return strings.Join(lines, " | ")
}

func parent(t *testing.T, property string, build func() []*Codec) {
	outPath := os.Getenv("VERIF_OUT")
	if outPath != "" {
		_ = os.Remove(outPath)
	}
	prog, err := os.CreateTemp("/dev/shm", "c27-progress-*")
	if err != nil {
		prog, err = os.CreateTemp("", "c27-progress-*")
	}
	if err != nil {
		t.Fatalf("c27: cannot create the progress file: %v", err)
	}
	progPath := prog.Name()
	prog.Close()
	defer os.Remove(progPath)

	var out tailBuffer
	how := runSelf([]string{envChild + "=1", envProgress + "=" + progPath}, childBudget(), &out)
	os.Stdout.Write(out.b)
	if how == "ok" {
		if outPath == "" {
			return
		}
		if _, err := os.Stat(outPath); err == nil {
			return
		}
		how = "exit 0 without writing its result"
	}
	// the enumeration process died: find the input that kills it
	r := ev.Start(t, property)
	defer r.Finish()
	e := r.NewEnum("crash-attribution")
	raw, _ := os.ReadFile(progPath)
	jobs := decodeProgress(raw)
	found := false
	for _, j := range jobs {
		pf, err := os.CreateTemp("/dev/shm", "c27-probe-*")
		if err != nil {
			r.HarnessError("cannot create a probe file: %v", err)
			break
		}
		pf.Write(encodeProgress([]progressJob{j}))
		pf.Close()
		var pout tailBuffer
		res := runSelf([]string{envProbe + "=" + pf.Name()}, 40*time.Second, &pout)
		os.Remove(pf.Name())
		outcome := "survives"
		if res != "ok" {
			outcome = "kills-process"
			found = true
			r.Violation(ev.Violation{
				Fingerprint: "C27:decode-kills-process:" + j.codec,
				System:      j.codec,
				Message: fmt.Sprintf("%s [%s at %d %s] decoding the %d-byte input %s does not return: %s; %s", j.codec, kindName[j.kind], j.n, j.note, len(j.in), hexs(j.in), res,
					firstFatalLines(pout.b)),
				Replay: replay{Codec: j.codec, Kind: kindName[j.kind], Input: hex.EncodeToString(j.in), N: j.n, Label: j.note},
			})
			r.Sample(map[string]any{"codec": j.codec, "section": kindName[j.kind], "input_hex": hexs(j.in), "outcome": outcome})
		}
		e.Case(j.codec+"/"+string(j.in), true, outcome)
		if found {
			break
		}
	}
	e.Done(false, map[string]any{"last_batch_inputs": len(jobs)}, "the enumeration process ended abnormally ("+how+"); each input of its last batch was decoded in a process of its own")
	if !found {
		r.HarnessError("enumeration process ended abnormally (%s) and no input of its last batch reproduces it; output tail: %s", how, firstFatalLines(out.b))
		r.Sample(map[string]any{"note": "child ended abnormally", "how": how})
	} else if r.Replay() != nil {
		r.MarkReplayReproduced()
	}
}
