package channels

// C27 (node RPC envelopes of the channel data plane): pkg/cluster/channels/codec.go.
// In-package because all codec entry points except Encode/DecodePullRequest are unexported;
// only the encodeX/decodeX entry points, the kind constants and the versioned encoders are
// used. All codec logic executed is the repository's.

import (
	"errors"
	"fmt"
	"math"
	"testing"
	"time"

	ch "github.com/WuKongIM/WuKongIM/pkg/channel"
	channelstore "github.com/WuKongIM/WuKongIM/pkg/channel/store"
	channeltransport "github.com/WuKongIM/WuKongIM/pkg/channel/transport"
	kit "github.com/WuKongIM/WuKongIM/pkg/zzverif/c27kit"
	"github.com/WuKongIM/WuKongIM/pkg/zzverif/ev"
)

var c27Sentinels = []error{ch.ErrInvalidConfig, ch.ErrBackpressured, ch.ErrNotLeader, ch.ErrNotReady, ch.ErrStaleMeta,
	ch.ErrChannelNotFound, ch.ErrNotReplica, ch.ErrClosed, ch.ErrTooManyChannels}

func c27ErrClass(err error) int {
	for i, s := range c27Sentinels {
		if errors.Is(err, s) {
			return i
		}
	}
	return -1
}

func c27MustRejectFrame(kind uint8) func([]byte) string {
	return func(in []byte) string {
		if len(in) < 2 {
			return "shorter than the version/kind header"
		}
		if in[1] != kind {
			return "kind byte is not the kind of this codec"
		}
		if in[0] < 3 || in[0] > 7 {
			return "codec version outside the supported 3..7"
		}
		return ""
	}
}

func c27Headers(kind uint8, result bool) (full, light [][]byte) {
	for v := uint8(3); v <= 7; v++ {
		hs := [][]byte{{v, kind}}
		if result {
			hs = append(hs, []byte{v, kind, 0}, []byte{v, kind, 1})
		}
		if v == codecVersion {
			full = append(full, hs...)
		} else {
			light = append(light, hs...)
		}
	}
	return full, light
}

type c27Named[T any] struct {
	label string
	v     T
}

func c27Codec[T any](name string, kind uint8, result bool, enc func(T) ([]byte, error), dec func([]byte) (T, error), vals []c27Named[T]) *kit.Codec {
	c := &kit.Codec{
		Name:   "channels." + name,
		Encode: func(v any) ([]byte, error) { return enc(v.(T)) },
		Decode: func(b []byte) (any, error) {
			v, err := dec(b)
			if err != nil {
				return nil, err
			}
			return v, nil
		},
		MustReject:      c27MustRejectFrame(kind),
		StrictStability: true,
	}
	c.Headers, c.LightHeaders = c27Headers(kind, result)
	for _, nv := range vals {
		c.Values = append(c.Values, kit.Value{Label: nv.label, V: nv.v})
	}
	return c
}

func c27Legacy[T any](c *kit.Codec, encv func(T, uint8) ([]byte, error), vals []c27Named[T]) *kit.Codec {
	for _, ver := range []uint8{legacyCodecVersionV5, legacyCodecVersionV6} {
		for _, nv := range vals {
			b, err := encv(nv.v, ver)
			if err != nil {
				panic(fmt.Sprintf("c27: %s: versioned encoder rejected v%d: %v", c.Name, ver, err))
			}
			c.Seeds = append(c.Seeds, kit.Seed{Label: fmt.Sprintf("v%d/%s", ver, nv.label), Bytes: b})
		}
	}
	return c
}

func c27ResultV[T any](kind uint8) func(T, uint8) ([]byte, error) {
	return func(v T, ver uint8) ([]byte, error) { return encodeRPCResultVersion(ver, kind, v, nil) }
}

// c27Tagged carries a value together with the frame kind of the codec that owns it.
type c27Tagged struct {
	Kind uint8
	V    any
}

func c27ChannelsCodecs() []*kit.Codec {
	id := ch.ChannelID{ID: "c", Type: 2}
	key := ch.ChannelKey("2:c")
	t1 := time.Unix(0, 1_700_000_000_123_456_789)
	msgZero := ch.Message{}
	msgFull := ch.Message{MessageID: 1, MessageSeq: 2, ChannelID: "c", ChannelType: 2, Setting: 0x80, FromUID: "u1", ClientMsgNo: "m1",
		ServerTimestampMS: 1_700_000_000_000, TraceID: "trace", ChannelKey: "2:c", Payload: []byte("hi")}
	msgEdge := ch.Message{MessageID: math.MaxUint64, MessageSeq: 128, ChannelID: "", ChannelType: 255, Setting: 0xff, FromUID: "u\x00\xff",
		ServerTimestampMS: -1, Payload: make([]byte, 130)}
	recZero := ch.Record{}
	recFull := ch.Record{ID: 7, Index: 3, Epoch: 2, Setting: 1, FromUID: "u1", ClientMsgNo: "m1", ServerTimestampMS: 1_700_000_000_000, Payload: []byte("p"), SizeBytes: 1}
	recEdge := ch.Record{ID: math.MaxUint64, Index: 128, Epoch: 127, Setting: 0xff, ServerTimestampMS: math.MinInt64, Payload: make([]byte, 129), SizeBytes: -1}
	metaZero := ch.Meta{}
	metaFull := ch.Meta{Key: key, ID: id, Epoch: 3, LeaderEpoch: 4, Leader: 1, Replicas: []ch.NodeID{1, 2, 3}, ISR: []ch.NodeID{1, 2}, MinISR: 2,
		LeaseUntil: t1, RetentionThroughSeq: 5, WriteFence: ch.WriteFence{Token: "tok", Version: 9, Reason: 2, Until: t1.Add(time.Second)}, Status: ch.StatusActive}
	metaEdge := ch.Meta{Key: "", ID: ch.ChannelID{Type: 255}, Epoch: math.MaxUint64, Leader: 128, Replicas: []ch.NodeID{}, ISR: []ch.NodeID{math.MaxUint64}, MinISR: -1,
		LeaseUntil: time.Unix(0, -1), Status: 255}
	errPlain := ch.ErrNotLeader
	errDetail := fmt.Errorf("%w: epoch 3 < 4", ch.ErrStaleMeta)
	errUnknown := errors.New("boom")

	var out []*kit.Codec

	pullReqs := []c27Named[channeltransport.PullRequest]{
		{"zero", channeltransport.PullRequest{}},
		{"full", channeltransport.PullRequest{ChannelKey: key, ChannelID: id, Epoch: 3, LeaderEpoch: 4, Follower: 2, NextOffset: 10, AckOffset: 9, MaxBytes: 4096, NeedMeta: true}},
		{"edge", channeltransport.PullRequest{ChannelKey: "k\x00", ChannelID: ch.ChannelID{Type: 255}, Epoch: 127, LeaderEpoch: 128, Follower: math.MaxUint64, NextOffset: 1 << 32, AckOffset: math.MaxUint64, MaxBytes: -1}},
		{"maxint", channeltransport.PullRequest{MaxBytes: math.MaxInt}},
	}
	out = append(out, c27Legacy(c27Codec("PullRequest", kindPull, false, EncodePullRequest, DecodePullRequest, pullReqs), encodePullRequestVersion, pullReqs[:2]))

	pullResps := []c27Named[channeltransport.PullResponse]{
		{"zero", channeltransport.PullResponse{}},
		{"meta+records", channeltransport.PullResponse{ChannelKey: key, Epoch: 3, LeaderEpoch: 4, LeaderHW: 5, LeaderLEO: 6, ActivityVersion: 7, NextPullAfter: time.Second,
			Control: channeltransport.PullControlContinue, Meta: &metaFull, Records: []ch.Record{recFull, recZero}}},
		{"edge", channeltransport.PullResponse{Epoch: math.MaxUint64, NextPullAfter: -1, Control: 255, Meta: &metaEdge, Records: []ch.Record{recEdge}}},
		{"empty-records-zero-meta", channeltransport.PullResponse{Control: channeltransport.PullControlStop, Meta: &metaZero, Records: []ch.Record{}}},
	}
	out = append(out, c27Legacy(c27Codec("PullResponse", kindPullResponse, true, encodePullResponse, decodePullResponse, pullResps), c27ResultV[channeltransport.PullResponse](kindPullResponse), pullResps[:2]))

	pullBatchReqs := []c27Named[channeltransport.PullBatchRequest]{
		{"empty", channeltransport.PullBatchRequest{Items: []channeltransport.PullRequest{}}},
		{"nil", channeltransport.PullBatchRequest{}},
		{"one", channeltransport.PullBatchRequest{Items: []channeltransport.PullRequest{pullReqs[1].v}}},
		{"three", channeltransport.PullBatchRequest{Items: []channeltransport.PullRequest{pullReqs[1].v, pullReqs[0].v, pullReqs[2].v}}},
	}
	out = append(out, c27Legacy(c27Codec("PullBatchRequest", kindPullBatch, false, encodePullBatchRequest, decodePullBatchRequest, pullBatchReqs), encodePullBatchRequestVersion, pullBatchReqs[2:3]))

	pullBatchResps := []c27Named[channeltransport.PullBatchResponse]{
		{"empty", channeltransport.PullBatchResponse{}},
		{"ok-item", channeltransport.PullBatchResponse{Items: []channeltransport.PullBatchItemResult{{Response: pullResps[1].v}}}},
		{"err-items", channeltransport.PullBatchResponse{Items: []channeltransport.PullBatchItemResult{{Err: errPlain}, {Err: errDetail}, {Err: errUnknown}}}},
		{"mixed", channeltransport.PullBatchResponse{Items: []channeltransport.PullBatchItemResult{{Response: pullResps[0].v}, {Err: ch.ErrChannelNotFound}, {Response: pullResps[2].v}}}},
	}
	out = append(out, c27Legacy(c27Codec("PullBatchResponse", kindPullBatchResponse, true, encodePullBatchResponse, decodePullBatchResponse, pullBatchResps), c27ResultV[channeltransport.PullBatchResponse](kindPullBatchResponse), pullBatchResps[1:2]))

	acks := []c27Named[channeltransport.AckRequest]{
		{"zero", channeltransport.AckRequest{}},
		{"full", channeltransport.AckRequest{ChannelKey: key, Epoch: 3, LeaderEpoch: 4, Follower: 2, MatchOffset: 10, ActivityVersion: 11, Stopped: true}},
		{"edge", channeltransport.AckRequest{ChannelKey: "\xff", Epoch: 127, LeaderEpoch: 128, Follower: math.MaxUint64, MatchOffset: math.MaxUint64, ActivityVersion: 1 << 35}},
	}
	out = append(out, c27Legacy(c27Codec("AckRequest", kindAck, false, encodeAckRequest, decodeAckRequest, acks), encodeAckRequestVersion, acks[1:2]))

	hints := []c27Named[channeltransport.PullHintRequest]{
		{"zero", channeltransport.PullHintRequest{}},
		{"full", channeltransport.PullHintRequest{ChannelKey: key, ChannelID: id, Epoch: 3, LeaderEpoch: 4, Leader: 1, LeaderLEO: 10, ActivityVersion: 11, Reason: channeltransport.PullHintReasonAppend}},
		{"edge", channeltransport.PullHintRequest{ChannelID: ch.ChannelID{ID: "x", Type: 255}, Epoch: math.MaxUint64, Leader: 128, LeaderLEO: 127, Reason: 255}},
	}
	out = append(out, c27Legacy(c27Codec("PullHintRequest", kindPullHint, false, encodePullHintRequest, decodePullHintRequest, hints), encodePullHintRequestVersion, hints[1:2]))

	hintBatches := []c27Named[channeltransport.PullHintBatchRequest]{
		{"empty", channeltransport.PullHintBatchRequest{}},
		{"two", channeltransport.PullHintBatchRequest{Items: []channeltransport.PullHintRequest{hints[1].v, hints[2].v}}},
	}
	out = append(out, c27Legacy(c27Codec("PullHintBatchRequest", kindPullHintBatch, false, encodePullHintBatchRequest, decodePullHintBatchRequest, hintBatches), encodePullHintBatchRequestVersion, hintBatches[1:]))

	hintBatchResps := []c27Named[channeltransport.PullHintBatchResponse]{
		{"empty", channeltransport.PullHintBatchResponse{}},
		{"mixed", channeltransport.PullHintBatchResponse{Items: []channeltransport.PullHintBatchItemResult{{}, {Err: errPlain}, {Err: errDetail}, {Err: errUnknown}, {}}}},
	}
	out = append(out, c27Legacy(c27Codec("PullHintBatchResponse", kindPullHintBatchResponse, true, encodePullHintBatchResponse, decodePullHintBatchResponse, hintBatchResps), c27ResultV[channeltransport.PullHintBatchResponse](kindPullHintBatchResponse), hintBatchResps[1:]))
	// the only declared collection bound of this codec is "count <= remaining bytes"; items without
	// an error encode to one byte each, so these values sit exactly on that bound
	for _, n := range []int{1, 127, 128, 300} {
		out[len(out)-1].Boundary = append(out[len(out)-1].Boundary, kit.Value{Label: fmt.Sprintf("count==remaining-bytes=%d", n),
			V: channeltransport.PullHintBatchResponse{Items: make([]channeltransport.PullHintBatchItemResult, n)}})
	}

	notifies := []c27Named[channeltransport.NotifyRequest]{
		{"zero", channeltransport.NotifyRequest{}},
		{"full", channeltransport.NotifyRequest{ChannelKey: key, ChannelID: id, Epoch: 3, LeaderEpoch: 4, Leader: 1, LeaderLEO: 128}},
	}
	out = append(out, c27Legacy(c27Codec("NotifyRequest", kindNotify, false, encodeNotifyRequest, decodeNotifyRequest, notifies), encodeNotifyRequestVersion, notifies[1:]))

	appends := []c27Named[ch.AppendRequest]{
		{"zero", ch.AppendRequest{}},
		{"full", ch.AppendRequest{ChannelID: id, Message: msgFull, CommitMode: 1, ExpectedChannelEpoch: 3, ExpectedLeaderEpoch: 4}},
		{"edge", ch.AppendRequest{ChannelID: ch.ChannelID{Type: 255}, Message: msgEdge, CommitMode: 255, ExpectedChannelEpoch: math.MaxUint64, ExpectedLeaderEpoch: 128}},
	}
	out = append(out, c27Legacy(c27Codec("AppendRequest", kindAppend, false, encodeAppendRequest, decodeAppendRequest, appends), encodeAppendRequestVersion, appends[1:2]))

	appendResults := []c27Named[ch.AppendResult]{
		{"zero", ch.AppendResult{}},
		{"full", ch.AppendResult{MessageID: 1, MessageSeq: 2, Message: msgFull}},
		{"edge", ch.AppendResult{MessageID: math.MaxUint64, MessageSeq: 127, Message: msgEdge}},
	}
	out = append(out, c27Legacy(c27Codec("AppendResponse", kindAppendResponse, true, encodeAppendResponse, decodeAppendResponse, appendResults), c27ResultV[ch.AppendResult](kindAppendResponse), appendResults[1:2]))

	appendBatches := []c27Named[ch.AppendBatchRequest]{
		{"zero", ch.AppendBatchRequest{}},
		{"full", ch.AppendBatchRequest{ChannelID: id, Messages: []ch.Message{msgFull, msgZero}, TraceID: "t", ChannelKey: "2:c", Attempt: 2, CommitMode: 1,
			ExpectedChannelEpoch: 3, ExpectedLeaderEpoch: 4, OmitResultPayload: true, ServerAllocatedMessageIDs: true}},
		{"edge", ch.AppendBatchRequest{Messages: []ch.Message{}, Attempt: -1, CommitMode: 255, ExpectedChannelEpoch: math.MaxUint64}},
		{"three-messages", ch.AppendBatchRequest{ChannelID: id, Messages: []ch.Message{msgEdge, msgFull, msgEdge}, Attempt: math.MaxInt}},
	}
	out = append(out, c27Legacy(c27Codec("AppendBatchRequest", kindAppendBatch, false, encodeAppendBatchRequest, decodeAppendBatchRequest, appendBatches), encodeAppendBatchRequestVersion, appendBatches[:2]))

	appendBatchResults := []c27Named[ch.AppendBatchResult]{
		{"nil", ch.AppendBatchResult{}},
		{"empty", ch.AppendBatchResult{Items: []ch.AppendBatchItemResult{}}},
		{"mixed", ch.AppendBatchResult{Items: []ch.AppendBatchItemResult{{MessageID: 1, MessageSeq: 2, Message: msgFull}, {Err: errPlain}, {MessageID: 3, Err: errDetail, Message: msgEdge}, {Err: errUnknown}}}},
	}
	out = append(out, c27Legacy(c27Codec("AppendBatchResponse", kindAppendBatchResponse, true, encodeAppendBatchResponse, decodeAppendBatchResponse, appendBatchResults), c27ResultV[ch.AppendBatchResult](kindAppendBatchResponse), appendBatchResults[2:]))

	lastVisibles := []c27Named[LastVisibleRequest]{
		{"zero", LastVisibleRequest{}},
		{"full", LastVisibleRequest{ChannelID: id, VisibleAfterSeq: 5, ExpectedLeader: 1, ExpectedChannelEpoch: 3, ExpectedLeaderEpoch: 4, HeadUID: "u1", ExpectedMinISR: 2}},
		{"edge", LastVisibleRequest{ChannelID: ch.ChannelID{Type: 255}, VisibleAfterSeq: math.MaxUint64, ExpectedLeader: 128, HeadUID: "\x00", ExpectedMinISR: math.MaxInt}},
	}
	out = append(out, c27Legacy(c27Codec("LastVisibleRequest", kindLastVisible, false, encodeLastVisibleRequest, decodeLastVisibleRequest, lastVisibles), encodeLastVisibleRequestVersion, lastVisibles[:2]))

	lastVisibleResps := []c27Named[LastVisibleResponse]{
		{"zero", LastVisibleResponse{}},
		{"found", LastVisibleResponse{Message: msgFull, Found: true, LastCommittedSeq: 9, RetentionThroughSeq: 2, CurrentUserLastSendSeq: 7}},
		{"found-edge", LastVisibleResponse{Message: msgEdge, Found: true, LastCommittedSeq: math.MaxUint64, RetentionThroughSeq: 128}},
		{"not-found-counters", LastVisibleResponse{LastCommittedSeq: 127, CurrentUserLastSendSeq: 1}},
	}
	out = append(out, c27Legacy(c27Codec("LastVisibleResponse", kindLastVisibleResponse, true, encodeLastVisibleResponse, decodeLastVisibleResponse, lastVisibleResps), c27ResultV[LastVisibleResponse](kindLastVisibleResponse), lastVisibleResps[:2]))

	headReqs := []c27Named[ConversationHeadsRequest]{
		{"nil", ConversationHeadsRequest{}},
		{"empty", ConversationHeadsRequest{UID: "u", Items: []ConversationHeadRequest{}}},
		{"two", ConversationHeadsRequest{UID: "u1", Items: []ConversationHeadRequest{
			{ChannelID: id, RetentionThroughSeq: 2, ExpectedLeader: 1, ExpectedChannelEpoch: 3, ExpectedLeaderEpoch: 4, ExpectedMinISR: 2},
			{ChannelID: ch.ChannelID{Type: 255}, RetentionThroughSeq: math.MaxUint64, ExpectedLeader: 128, ExpectedMinISR: math.MaxInt}}}},
	}
	out = append(out, c27Legacy(c27Codec("ConversationHeadsRequest", kindConversationHeads, false, encodeConversationHeadsRequest, decodeConversationHeadsRequest, headReqs), encodeConversationHeadsRequestVersion, headReqs[2:]))

	headResps := []c27Named[ConversationHeadsResponse]{
		{"nil", ConversationHeadsResponse{}},
		{"empty", ConversationHeadsResponse{Items: []ConversationHeadResult{}}},
		{"mixed", ConversationHeadsResponse{Items: []ConversationHeadResult{
			{Head: ConversationHead{LastCommittedSeq: 9, RetentionThroughSeq: 2, CurrentUserLastSendSeq: 7, Message: msgFull, Found: true}},
			{Err: errPlain}, {Err: errDetail, Head: ConversationHead{LastCommittedSeq: 128}}, {Err: errUnknown},
			{Head: ConversationHead{Message: msgEdge, Found: true, LastCommittedSeq: math.MaxUint64}}}}},
	}
	out = append(out, c27Legacy(c27Codec("ConversationHeadsResponse", kindConversationHeadsResponse, true, encodeConversationHeadsResponse, decodeConversationHeadsResponse, headResps), c27ResultV[ConversationHeadsResponse](kindConversationHeadsResponse), headResps[2:]))

	readReqs := []c27Named[CommittedReadsRequest]{
		{"nil", CommittedReadsRequest{}},
		{"empty", CommittedReadsRequest{Items: []CommittedReadRequest{}}},
		{"two", CommittedReadsRequest{Items: []CommittedReadRequest{
			{CommittedRead: CommittedRead{ChannelID: id, Request: channelstore.ReadCommittedRequest{FromSeq: 1, MaxSeq: 10, MinSeq: 1, Limit: 64, MaxBytes: 4096, Reverse: true}},
				RetentionThroughSeq: 2, ExpectedLeader: 1, ExpectedChannelEpoch: 3, ExpectedLeaderEpoch: 4, ExpectedMinISR: 2},
			{CommittedRead: CommittedRead{ChannelID: ch.ChannelID{Type: 255}, Request: channelstore.ReadCommittedRequest{FromSeq: math.MaxUint64, MaxSeq: 128, Limit: -1, MaxBytes: math.MaxInt}},
				ExpectedLeader: 128, ExpectedMinISR: -1}}}},
	}
	encReads := func(v CommittedReadsRequest) ([]byte, error) {
		return encodeCommittedReadsRequestVersion(v, codecVersion)
	}
	out = append(out, c27Legacy(c27Codec("CommittedReadsRequest", kindCommittedReads, false, encReads, decodeCommittedReadsRequest, readReqs), encodeCommittedReadsRequestVersion, readReqs[2:]))

	readResps := []c27Named[CommittedReadsResponse]{
		{"nil", CommittedReadsResponse{}},
		{"empty", CommittedReadsResponse{Items: []CommittedReadResult{}}},
		{"mixed", CommittedReadsResponse{Items: []CommittedReadResult{
			{Read: channelstore.ReadCommittedResult{Messages: []ch.Message{msgFull, msgEdge}, NextSeq: 3}},
			{Err: errPlain}, {Err: errUnknown, Read: channelstore.ReadCommittedResult{Messages: []ch.Message{}, NextSeq: math.MaxUint64}},
			{Read: channelstore.ReadCommittedResult{Messages: []ch.Message{msgZero}}}}}},
	}
	encReadResp := func(v CommittedReadsResponse) ([]byte, error) {
		return encodeRPCResult(kindCommittedReadsResponse, v, nil)
	}
	out = append(out, c27Legacy(c27Codec("CommittedReadsResponse", kindCommittedReadsResponse, true, encReadResp, decodeCommittedReadsResponse, readResps), c27ResultV[CommittedReadsResponse](kindCommittedReadsResponse), readResps[2:]))

	// section "sequences": the fallible entry points of codec.go - a request frame of an
	// unsupported version (rejected after the payload was built), a result of an unsupported
	// version, a result payload of an unsupported type (rejected after the status byte) - and
	// error results (a different path through encodeRPCResultVersion)
	out[len(out)-1].SeqCalls = []kit.SeqCall{
		{Label: "encodePullRequestVersion(v2)", Call: func() ([]byte, error) { return encodePullRequestVersion(pullReqs[1].v, 2) }},
		{Label: "encodeAppendBatchRequestVersion(v9)", Call: func() ([]byte, error) { return encodeAppendBatchRequestVersion(appendBatches[1].v, 9) }},
		{Label: "encodeCommittedReadsRequestVersion(v0)", Call: func() ([]byte, error) { return encodeCommittedReadsRequestVersion(readReqs[2].v, 0) }},
		{Label: "encodeRPCResultVersion(v4,PullResponse)", Call: func() ([]byte, error) {
			return encodeRPCResultVersion(legacyCodecVersionV4, kindPullResponse, pullResps[1].v, nil)
		}},
		{Label: "encodeRPCResult(unsupported-payload-type)", Call: func() ([]byte, error) { return encodeRPCResult(kindAppendResponse, struct{ X int }{1}, nil) }},
		{Label: "encodeRPCResult(error-result)", Call: func() ([]byte, error) { return encodeRPCResult(kindAppendBatchResponse, nil, errDetail) }},
		{Label: "encodeRPCResult(unknown-error-result)", Call: func() ([]byte, error) { return encodeRPCResult(kindPullResponse, pullResps[1].v, errUnknown) }},
	}

	// empty RPC results (Ack / PullHint / Notify answer with a bare status)
	for _, k := range []uint8{kindAck, kindPullHint, kindNotify} {
		k := k
		out = append(out, c27Codec(fmt.Sprintf("EmptyResult(kind=%d)", k), k, true,
			func(struct{}) ([]byte, error) { return encodeRPCResult(k, nil, nil) },
			func(b []byte) (struct{}, error) { return struct{}{}, decodeRPCResult(b, k, nil) },
			[]c27Named[struct{}]{{"ok", struct{}{}}}))
	}

	// ---- ch.Message.SyncOnce / ch.Record.SyncOnce carried through every codec that embeds them
	msgSync := msgFull
	msgSync.SyncOnce = true
	recSync := recFull
	recSync.SyncOnce = true
	tagged := func(name string, values []kit.Value) *kit.Codec {
		return &kit.Codec{
			Name: "channels." + name,
			Encode: func(v any) ([]byte, error) {
				t := v.(c27Tagged)
				switch x := t.V.(type) {
				case ch.AppendRequest:
					return encodeAppendRequest(x)
				case ch.AppendResult:
					return encodeAppendResponse(x)
				case ch.AppendBatchRequest:
					return encodeAppendBatchRequest(x)
				case ch.AppendBatchResult:
					return encodeAppendBatchResponse(x)
				case LastVisibleResponse:
					return encodeLastVisibleResponse(x)
				case ConversationHeadsResponse:
					return encodeConversationHeadsResponse(x)
				case CommittedReadsResponse:
					return encReadResp(x)
				case channeltransport.PullResponse:
					return encodePullResponse(x)
				case channeltransport.PullBatchResponse:
					return encodePullBatchResponse(x)
				}
				return nil, fmt.Errorf("c27: unexpected tagged value %T", t.V)
			},
			Decode: func(b []byte) (any, error) {
				if len(b) < 2 {
					return nil, errInvalidCodecFrame
				}
				var v any
				var err error
				switch b[1] {
				case kindAppend:
					v, err = decodeAppendRequest(b)
				case kindAppendResponse:
					v, err = decodeAppendResponse(b)
				case kindAppendBatch:
					v, err = decodeAppendBatchRequest(b)
				case kindAppendBatchResponse:
					v, err = decodeAppendBatchResponse(b)
				case kindLastVisibleResponse:
					v, err = decodeLastVisibleResponse(b)
				case kindConversationHeadsResponse:
					v, err = decodeConversationHeadsResponse(b)
				case kindCommittedReadsResponse:
					v, err = decodeCommittedReadsResponse(b)
				case kindPullResponse:
					v, err = decodePullResponse(b)
				case kindPullBatchResponse:
					v, err = decodePullBatchResponse(b)
				default:
					return nil, errInvalidCodecFrame
				}
				if err != nil {
					return nil, err
				}
				return c27Tagged{Kind: b[1], V: v}, nil
			},
			Values: values,
			// the same entry points are in the sequences section through their own codecs; these
			// two carry the values of the open finding KF-C27-1 only
			SeqSkip: "wrapper around codecs that are in the section themselves",
		}
	}
	out = append(out, tagged("Message+SyncOnce", []kit.Value{
		{Label: "AppendRequest", V: c27Tagged{kindAppend, ch.AppendRequest{ChannelID: id, Message: msgSync}}},
		{Label: "AppendResponse", V: c27Tagged{kindAppendResponse, ch.AppendResult{MessageID: 1, MessageSeq: 2, Message: msgSync}}},
		{Label: "AppendBatchRequest", V: c27Tagged{kindAppendBatch, ch.AppendBatchRequest{ChannelID: id, Messages: []ch.Message{msgSync}}}},
		{Label: "AppendBatchResponse", V: c27Tagged{kindAppendBatchResponse, ch.AppendBatchResult{Items: []ch.AppendBatchItemResult{{MessageID: 1, MessageSeq: 2, Message: msgSync}}}}},
		{Label: "LastVisibleResponse", V: c27Tagged{kindLastVisibleResponse, LastVisibleResponse{Message: msgSync, Found: true}}},
		{Label: "ConversationHeadsResponse", V: c27Tagged{kindConversationHeadsResponse, ConversationHeadsResponse{Items: []ConversationHeadResult{{Head: ConversationHead{Message: msgSync, Found: true}}}}}},
		{Label: "CommittedReadsResponse", V: c27Tagged{kindCommittedReadsResponse, CommittedReadsResponse{Items: []CommittedReadResult{{Read: channelstore.ReadCommittedResult{Messages: []ch.Message{msgSync}, NextSeq: 3}}}}}},
	}))
	out = append(out, tagged("Record+SyncOnce", []kit.Value{
		{Label: "PullResponse", V: c27Tagged{kindPullResponse, channeltransport.PullResponse{ChannelKey: key, Records: []ch.Record{recSync}}}},
		{Label: "PullBatchResponse", V: c27Tagged{kindPullBatchResponse, channeltransport.PullBatchResponse{Items: []channeltransport.PullBatchItemResult{{Response: channeltransport.PullResponse{ChannelKey: key, Records: []ch.Record{recSync}}}}}}},
	}))
	return out
}

func TestVerifC27Channels(t *testing.T) {
	kit.ErrorEqual = func(a, b error) bool { return c27ErrClass(a) == c27ErrClass(b) && a.Error() == b.Error() }
	kit.Main(t, "C27", c27ChannelsCodecs, c27ChannelsRPCErrors)
}

// application errors carried by an RPC result frame: every sentinel class must survive
func c27ChannelsRPCErrors(r *ev.R, replaying bool) {
	if replaying {
		return
	}
	e := r.NewEnum("rpc-error-roundtrip")
	for _, kind := range []uint8{kindAck, kindPullResponse, kindAppendBatchResponse} {
		for i, s := range c27Sentinels {
			for _, in := range []error{s, fmt.Errorf("%w: detail %d", s, i), fmt.Errorf("context: %w", s)} {
				enc, err := encodeRPCResult(kind, nil, in)
				if err != nil {
					r.HarnessError("encodeRPCResult(%d, %v): %v", kind, in, err)
					continue
				}
				var got error
				switch kind {
				case kindAck:
					got = decodeRPCResult(enc, kind, nil)
				case kindPullResponse:
					_, got = decodePullResponse(enc)
				default:
					_, got = decodeAppendBatchResponse(enc)
				}
				out := "class-preserved"
				if got == nil || c27ErrClass(got) != i {
					out = "class-lost"
					r.Violation(ev.Violation{Fingerprint: "C27:roundtrip-mismatch:channels.RPCError", System: "channels.RPCError",
						Message: fmt.Sprintf("application error %q (class %v) sent in an RPC result of kind %d decodes to %v", in, s, kind, got),
						Replay:  map[string]any{"kind": kind, "error": in.Error()}})
				}
				e.Case(fmt.Sprintf("%d/%s", kind, in.Error()), true, out)
			}
		}
	}
	e.Done(true, map[string]any{"kinds": 3, "sentinels": len(c27Sentinels), "wrappings": 3}, "every mapped sentinel x {plain, suffixed detail, prefixed context} through encodeRPCResult/decodeRPCResult")
	n := len(c27ChannelsCodecs())
	r.Guard("channels-codecs", n >= 22, "codecs=%d", n)
}
