package fsm

// C27 (slot metadata commands): pkg/slot/fsm/command.go. In-package because decodeCommand
// and the decoded command structs are unexported; the harness uses decodeCommand, the
// commandDecoders registry (keys only), the decoded structs' payload fields and the exported
// Encode*Command functions. All codec logic executed is the repository's.

import (
	"encoding/binary"
	"errors"
	"fmt"
	"math"
	"sort"
	"testing"

	metadb "github.com/WuKongIM/WuKongIM/pkg/db/meta"
	kit "github.com/WuKongIM/WuKongIM/pkg/zzverif/c27kit"
	"github.com/WuKongIM/WuKongIM/pkg/zzverif/ev"
)

// c27Other is the decoded form of a command that is not of the codec's own type.
type c27Other struct{ Type string }

type c27Named[T any] struct {
	label string
	v     T
}

// c27TLVBoundary reports whether n is the end of a complete top-level TLV of enc
// ([version][type] then [tag:1][len:4 BE][value]...), the documented command framing.
func c27TLVBoundary(enc []byte, n int) bool {
	if n < headerSize {
		return false
	}
	off := headerSize
	for off < n {
		if len(enc)-off < tlvOverhead {
			return false
		}
		off += tlvOverhead + int(binary.BigEndian.Uint32(enc[off+1:]))
	}
	return off == n
}

func c27MustRejectCommand(in []byte) string {
	if len(in) < headerSize {
		return "shorter than the version/type header"
	}
	if in[0] != commandVersion {
		return "command version is not 1"
	}
	if _, ok := commandDecoders[in[1]]; !ok {
		return "command type is not registered"
	}
	return ""
}

func c27Cmd[T any](name string, enc func(T) []byte, ext func(command) (T, bool), eq func(a, b T) bool, vals []c27Named[T]) *kit.Codec {
	c := &kit.Codec{
		Name: "fsm." + name,
		Encode: func(v any) ([]byte, error) {
			t, ok := v.(T)
			if !ok {
				return nil, errors.New("c27: value of another command type")
			}
			return enc(t), nil
		},
		Decode: func(b []byte) (any, error) {
			cmd, err := decodeCommand(b)
			if err != nil {
				return nil, err
			}
			if v, ok := ext(cmd); ok {
				return v, nil
			}
			return c27Other{Type: fmt.Sprintf("%T", cmd)}, nil
		},
		// fields are optional TLVs (documented forward compatibility): a prefix that ends at a
		// top-level TLV boundary is itself a well-formed command; anywhere else it must fail
		PrefixMayDecode: c27TLVBoundary,
		MustReject:      c27MustRejectCommand,
	}
	if eq != nil {
		c.Equal = func(a, b any) bool {
			x, ok1 := a.(T)
			y, ok2 := b.(T)
			if !ok1 || !ok2 {
				return kit.LaxEqual(a, b)
			}
			return eq(x, y)
		}
	}
	for _, nv := range vals {
		c.Values = append(c.Values, kit.Value{Label: nv.label, V: nv.v})
	}
	return c
}

type c27ChanRef struct {
	ID   string
	Type int64
}
type c27Patch struct {
	ID    string
	Type  int64
	Flags metadb.ChannelBusinessFlags
}
type c27Subs struct {
	ID      string
	Type    int64
	UIDs    []string
	Version uint64
}

func c27Set(in []string) []string {
	out := append([]string(nil), in...)
	sort.Strings(out)
	n := 0
	for i, s := range out {
		if i == 0 || s != out[n-1] {
			out[n] = s
			n++
		}
	}
	return out[:n]
}

func c27FsmCodecs() []*kit.Codec {
	var out []*kit.Codec
	users := []c27Named[metadb.User]{
		{"zero", metadb.User{}},
		{"full", metadb.User{UID: "u1", Token: "tok", DeviceFlag: 1, DeviceLevel: 2}},
		{"edge", metadb.User{UID: "u\x00\xff", Token: string(make([]byte, 130)), DeviceFlag: math.MinInt64, DeviceLevel: math.MaxInt64}},
	}
	out = append(out, c27Cmd("UpsertUser", EncodeUpsertUserCommand, func(c command) (metadb.User, bool) {
		x, ok := c.(*upsertUserCmd)
		if !ok {
			return metadb.User{}, false
		}
		return x.user, true
	}, nil, users))
	out = append(out, c27Cmd("CreateUser", EncodeCreateUserCommand, func(c command) (metadb.User, bool) {
		x, ok := c.(*createUserCmd)
		if !ok {
			return metadb.User{}, false
		}
		return x.user, true
	}, nil, users))
	out = append(out, c27Cmd("UpsertDevice", EncodeUpsertDeviceCommand, func(c command) (metadb.Device, bool) {
		x, ok := c.(*upsertDeviceCmd)
		if !ok {
			return metadb.Device{}, false
		}
		return x.device, true
	}, nil, []c27Named[metadb.Device]{
		{"zero", metadb.Device{}},
		{"full", metadb.Device{UID: "u1", DeviceFlag: 1, Token: "tok", DeviceLevel: 1}},
		{"edge", metadb.Device{UID: string(make([]byte, 256)), DeviceFlag: -1, DeviceLevel: math.MinInt64}},
	}))
	// the command carries the caller-owned channel fields; SubscriberMutationVersion,
	// SubscriberCount and DirectoryProjection* are computed by the state machine
	channels := []c27Named[metadb.Channel]{
		{"zero", metadb.Channel{}},
		{"full", metadb.Channel{ChannelID: "g1", ChannelType: 2, Ban: 1, Disband: 1, SendBan: 1, AllowStranger: 1, Large: 1}},
		{"edge", metadb.Channel{ChannelID: "\x00", ChannelType: math.MinInt64, Ban: math.MaxInt64, Large: -1}},
	}
	out = append(out, c27Cmd("UpsertChannel", EncodeUpsertChannelCommand, func(c command) (metadb.Channel, bool) {
		x, ok := c.(*upsertChannelCmd)
		if !ok {
			return metadb.Channel{}, false
		}
		return x.channel, true
	}, nil, channels))
	out = append(out, c27Cmd("CreateChannel", EncodeCreateChannelCommand, func(c command) (metadb.Channel, bool) {
		x, ok := c.(*createChannelCmd)
		if !ok {
			return metadb.Channel{}, false
		}
		return x.channel, true
	}, nil, channels))
	out = append(out, c27Cmd("PatchChannelBusinessFlags", func(p c27Patch) []byte { return EncodePatchChannelBusinessFlagsCommand(p.ID, p.Type, p.Flags) },
		func(c command) (c27Patch, bool) {
			x, ok := c.(*patchChannelBusinessFlagsCmd)
			if !ok {
				return c27Patch{}, false
			}
			return c27Patch{x.channelID, x.channelType, x.flags}, true
		}, nil, []c27Named[c27Patch]{
			{"zero", c27Patch{}},
			{"full", c27Patch{"g1", 2, metadb.ChannelBusinessFlags{Ban: 1, Disband: 2, SendBan: 3}}},
			{"edge", c27Patch{"", -1, metadb.ChannelBusinessFlags{Ban: math.MinInt64, SendBan: math.MaxInt64}}},
		}))
	refs := []c27Named[c27ChanRef]{{"zero", c27ChanRef{}}, {"full", c27ChanRef{"g1", 2}}, {"edge", c27ChanRef{string(make([]byte, 128)), math.MinInt64}}}
	out = append(out, c27Cmd("DeleteChannel", func(p c27ChanRef) []byte { return EncodeDeleteChannelCommand(p.ID, p.Type) },
		func(c command) (c27ChanRef, bool) {
			x, ok := c.(*deleteChannelCmd)
			if !ok {
				return c27ChanRef{}, false
			}
			return c27ChanRef{x.channelID, x.channelType}, true
		}, nil, refs))
	out = append(out, c27Cmd("DeleteChannelRuntimeMeta", func(p c27ChanRef) []byte { return EncodeDeleteChannelRuntimeMetaCommand(p.ID, p.Type) },
		func(c command) (c27ChanRef, bool) {
			x, ok := c.(*deleteChannelRuntimeMetaCmd)
			if !ok {
				return c27ChanRef{}, false
			}
			return c27ChanRef{x.channelID, x.channelType}, true
		}, nil, refs))
	// DirectoryGeneration is a state-machine-owned fence and not part of the command; the
	// encoder documents canonicalisation (metadb.NormalizeChannelRuntimeMeta), so equality is
	// taken on the normalised forms
	metaEq := func(a, b metadb.ChannelRuntimeMeta) bool {
		return kit.LaxEqual(metadb.NormalizeChannelRuntimeMeta(a), metadb.NormalizeChannelRuntimeMeta(b))
	}
	out = append(out, c27Cmd("UpsertChannelRuntimeMeta", EncodeUpsertChannelRuntimeMetaCommand, func(c command) (metadb.ChannelRuntimeMeta, bool) {
		x, ok := c.(*upsertChannelRuntimeMetaCmd)
		if !ok {
			return metadb.ChannelRuntimeMeta{}, false
		}
		return x.meta, true
	}, metaEq, []c27Named[metadb.ChannelRuntimeMeta]{
		{"zero", metadb.ChannelRuntimeMeta{}},
		{"full", metadb.ChannelRuntimeMeta{ChannelID: "g1", ChannelType: 2, ChannelEpoch: 3, LeaderEpoch: 4, RouteGeneration: 9, Replicas: []uint64{1, 2, 3}, ISR: []uint64{1, 2},
			Leader: 1, MinISR: 2, Status: 2, Features: 1, LeaseUntilMS: 1_700_000_000_000, RetentionThroughSeq: 5, RetentionUpdatedAtMS: 6,
			WriteFenceToken: "tok", WriteFenceVersion: 7, WriteFenceReason: 2, WriteFenceUntilMS: 8}},
		{"person-unsorted-replicas", metadb.ChannelRuntimeMeta{ChannelID: "a@b", ChannelType: 1, ChannelEpoch: 1, LeaderEpoch: 1, Replicas: []uint64{3, 1, 2, 3}, ISR: []uint64{2, 1}, Leader: 3, MinISR: 1, Status: 1}},
		{"edge", metadb.ChannelRuntimeMeta{ChannelType: math.MinInt64, ChannelEpoch: math.MaxUint64, LeaderEpoch: math.MaxUint64, RouteGeneration: math.MaxUint64, Replicas: []uint64{math.MaxUint64},
			Leader: math.MaxUint64, MinISR: -1, Status: 255, Features: math.MaxUint64, LeaseUntilMS: math.MinInt64, WriteFenceReason: 255}},
	}))
	out = append(out, c27Cmd("AdvanceChannelRetention", EncodeAdvanceChannelRetentionThroughSeqCommand, func(c command) (metadb.ChannelRetentionAdvance, bool) {
		x, ok := c.(*advanceChannelRetentionThroughSeqCmd)
		if !ok {
			return metadb.ChannelRetentionAdvance{}, false
		}
		return x.req, true
	}, nil, []c27Named[metadb.ChannelRetentionAdvance]{
		{"zero", metadb.ChannelRetentionAdvance{}},
		{"full", metadb.ChannelRetentionAdvance{ChannelID: "g1", ChannelType: 2, ExpectedChannelEpoch: 3, ExpectedLeaderEpoch: 4, ExpectedLeader: 1, ExpectedLeaseUntilMS: 5, RetentionThroughSeq: 6, RetentionUpdatedAtMS: 7}},
		{"edge", metadb.ChannelRetentionAdvance{ChannelType: -1, ExpectedChannelEpoch: math.MaxUint64, ExpectedLeaseUntilMS: math.MinInt64, RetentionThroughSeq: math.MaxUint64}},
	}))
	// the UID list is a set on the wire (sorted, de-duplicated, NUL-joined): equality is set
	// equality; UIDs are non-empty and NUL-free in the valid domain
	subsEq := func(a, b c27Subs) bool {
		return a.ID == b.ID && a.Type == b.Type && a.Version == b.Version && kit.LaxEqual(c27Set(a.UIDs), c27Set(b.UIDs))
	}
	subs := []c27Named[c27Subs]{
		{"no-uids", c27Subs{ID: "g1", Type: 2}},
		{"one", c27Subs{"g1", 2, []string{"u1"}, 0}},
		{"three-versioned", c27Subs{"g1", 2, []string{"a", "b", "c"}, 7}},
		{"unsorted-dup", c27Subs{"", math.MinInt64, []string{"b", "a", "b"}, math.MaxUint64}},
	}
	out = append(out, c27Cmd("AddSubscribers", func(p c27Subs) []byte { return EncodeAddSubscribersCommand(p.ID, p.Type, p.UIDs, p.Version) },
		func(c command) (c27Subs, bool) {
			x, ok := c.(*addSubscribersCmd)
			if !ok {
				return c27Subs{}, false
			}
			return c27Subs{x.channelID, x.channelType, x.uids, x.subscriberMutationVersion}, true
		}, subsEq, subs))
	// declared maxima: MaxSubscriberCommandUIDs = 1000 uids, MaxSubscriberCommandUIDBytes = 64 KiB of
	// NUL-joined uids per command (the decoder enforces both)
	uidsN := func(n int) []string {
		out := make([]string, n)
		for i := range out {
			out[i] = fmt.Sprintf("u%04d", i)
		}
		return out
	}
	uidsBytes := func(total int) []string { // two uids whose NUL-joined length is exactly total
		a := make([]byte, total/2)
		b := make([]byte, total-total/2-1)
		for i := range a {
			a[i] = 'a'
		}
		for i := range b {
			b[i] = 'b'
		}
		return []string{string(a), string(b)}
	}
	subBoundary := []kit.Value{
		{Label: "uids=999", V: c27Subs{"g", 2, uidsN(MaxSubscriberCommandUIDs - 1), 1}},
		{Label: "uids=1000", V: c27Subs{"g", 2, uidsN(MaxSubscriberCommandUIDs), 1}},
		{Label: "uid-bytes=65535", V: c27Subs{"g", 2, uidsBytes(MaxSubscriberCommandUIDBytes - 1), 0}},
		{Label: "uid-bytes=65536", V: c27Subs{"g", 2, uidsBytes(MaxSubscriberCommandUIDBytes), 0}},
	}
	subOver := []kit.Value{
		{Label: "uids=1001", V: c27Subs{"g", 2, uidsN(MaxSubscriberCommandUIDs + 1), 1}},
		{Label: "uid-bytes=65537", V: c27Subs{"g", 2, uidsBytes(MaxSubscriberCommandUIDBytes + 1), 0}},
	}
	out[len(out)-1].Boundary, out[len(out)-1].OverMax = subBoundary, subOver
	// section "sequences": the fallible (checked) encoders of command.go, every rejecting path
	// (uid count, uid bytes - both after the whole NUL-joined uid set was built -, empty channel
	// id, empty batch, second batch row invalid) and one accepted call of each
	manyMembers := make([]metadb.UserChannelMembership, MaxSubscriberCommandUIDs+1)
	for i := range manyMembers {
		manyMembers[i] = metadb.UserChannelMembership{UID: fmt.Sprintf("u%04d", i), ChannelID: "g", ChannelType: 2}
	}
	okLatest := metadb.ChannelLatest{ChannelID: "g1", ChannelType: 2, LastMessageID: 1, LastMessageSeq: 2, Payload: []byte("hi")}
	out[len(out)-1].SeqCalls = []kit.SeqCall{
		{Label: "AddSubscribersChecked(uids=1001)", Call: func() ([]byte, error) {
			return EncodeAddSubscribersCommandChecked("g", 2, uidsN(MaxSubscriberCommandUIDs+1), 1)
		}},
		{Label: "RemoveSubscribersChecked(uid-bytes=65537)", Call: func() ([]byte, error) {
			return EncodeRemoveSubscribersCommandChecked("g", 2, uidsBytes(MaxSubscriberCommandUIDBytes+1))
		}},
		{Label: "AddSubscribersChecked(uids=3)", Call: func() ([]byte, error) { return EncodeAddSubscribersCommandChecked("g", 2, []string{"c", "a", "b"}, 7) }},
		{Label: "UpsertUserChannelMembershipsChecked(1001)", Call: func() ([]byte, error) { return EncodeUpsertUserChannelMembershipsCommandChecked(manyMembers) }},
		{Label: "DeleteUserChannelMembershipsChecked(1001)", Call: func() ([]byte, error) { return EncodeDeleteUserChannelMembershipsCommandChecked(manyMembers) }},
		{Label: "UpsertUserChannelMembershipsChecked(2)", Call: func() ([]byte, error) { return EncodeUpsertUserChannelMembershipsCommandChecked(manyMembers[:2]) }},
		{Label: "UpsertChannelLatestChecked(no-channel-id)", Call: func() ([]byte, error) {
			return EncodeUpsertChannelLatestCommandChecked(metadb.ChannelLatest{ChannelType: 2, Payload: []byte("x")})
		}},
		{Label: "UpsertChannelLatestChecked(ok)", Call: func() ([]byte, error) { return EncodeUpsertChannelLatestCommandChecked(okLatest) }},
		{Label: "UpsertChannelLatestBatchChecked(empty)", Call: func() ([]byte, error) { return EncodeUpsertChannelLatestBatchCommandChecked(nil) }},
		{Label: "UpsertChannelLatestBatchChecked(second-row-invalid)", Call: func() ([]byte, error) {
			return EncodeUpsertChannelLatestBatchCommandChecked([]ChannelLatestBatchItem{{HashSlot: 7, Latest: okLatest}, {HashSlot: 8, Latest: metadb.ChannelLatest{ChannelID: "x"}}})
		}},
		{Label: "UpsertChannelLatestBatchChecked(ok)", Call: func() ([]byte, error) {
			return EncodeUpsertChannelLatestBatchCommandChecked([]ChannelLatestBatchItem{{HashSlot: 7, Latest: okLatest}})
		}},
	}
	defer func() {
		for _, c := range out {
			if c.Name == "fsm.RemoveSubscribers" {
				c.Boundary, c.OverMax = subBoundary, subOver
			}
		}
	}()
	out = append(out, c27Cmd("RemoveSubscribers", func(p c27Subs) []byte { return EncodeRemoveSubscribersCommand(p.ID, p.Type, p.UIDs, p.Version) },
		func(c command) (c27Subs, bool) {
			x, ok := c.(*removeSubscribersCmd)
			if !ok {
				return c27Subs{}, false
			}
			return c27Subs{x.channelID, x.channelType, x.uids, x.subscriberMutationVersion}, true
		}, subsEq, subs))

	m1 := metadb.UserChannelMembership{UID: "u1", ChannelID: "g1", ChannelType: 2, JoinSeq: 1, ReadSeq: 2, DeletedToSeq: 3, ActivatedAt: 4, Tombstone: true, TombstoneAt: 5, SourceVersion: 6, UpdatedAt: 7}
	m2 := metadb.UserChannelMembership{UID: "", ChannelID: "\x00", ChannelType: math.MinInt64, JoinSeq: math.MaxUint64, ActivatedAt: -1, UpdatedAt: math.MaxInt64}
	members := []c27Named[[]metadb.UserChannelMembership]{{"one", []metadb.UserChannelMembership{m1}}, {"two", []metadb.UserChannelMembership{m1, m2}}, {"edge", []metadb.UserChannelMembership{m2}}}
	type memExt = func(command) ([]metadb.UserChannelMembership, bool)
	for _, mc := range []struct {
		name string
		enc  func([]metadb.UserChannelMembership) []byte
		ext  memExt
	}{
		{"UpsertUserChannelMemberships", EncodeUpsertUserChannelMembershipsCommand, func(c command) ([]metadb.UserChannelMembership, bool) {
			x, ok := c.(*upsertUserChannelMembershipsCmd)
			if !ok {
				return nil, false
			}
			return x.memberships, true
		}},
		{"DeleteUserChannelMemberships", EncodeDeleteUserChannelMembershipsCommand, func(c command) ([]metadb.UserChannelMembership, bool) {
			x, ok := c.(*deleteUserChannelMembershipsCmd)
			if !ok {
				return nil, false
			}
			return x.memberships, true
		}},
		{"AdvanceUserChannelMembershipReadSeq", EncodeAdvanceUserChannelMembershipReadSeqCommand, func(c command) ([]metadb.UserChannelMembership, bool) {
			x, ok := c.(*advanceUserChannelMembershipReadSeqCmd)
			if !ok {
				return nil, false
			}
			return x.memberships, true
		}},
		{"HideUserChannelMembership", EncodeHideUserChannelMembershipCommand, func(c command) ([]metadb.UserChannelMembership, bool) {
			x, ok := c.(*hideUserChannelMembershipCmd)
			if !ok {
				return nil, false
			}
			return x.memberships, true
		}},
		{"ActivateUserChannelMembership", EncodeActivateUserChannelMembershipCommand, func(c command) ([]metadb.UserChannelMembership, bool) {
			x, ok := c.(*activateUserChannelMembershipCmd)
			if !ok {
				return nil, false
			}
			return x.memberships, true
		}},
	} {
		out = append(out, c27Cmd(mc.name, mc.enc, mc.ext, nil, members))
	}
	c1 := metadb.UserCMDChannelMembership{UID: "u1", CommandChannelID: "g1____cmd", ChannelType: 2, StartSeq: 1, AckSeq: 2, Tombstone: true, TombstoneAt: 3, UpdatedAt: 4}
	c2 := metadb.UserCMDChannelMembership{ChannelType: -1, StartSeq: math.MaxUint64, AckSeq: 128, UpdatedAt: math.MinInt64}
	cmdMembers := []c27Named[[]metadb.UserCMDChannelMembership]{{"one", []metadb.UserCMDChannelMembership{c1}}, {"two", []metadb.UserCMDChannelMembership{c2, c1}}}
	out = append(out, c27Cmd("UpsertUserCMDChannelMemberships", EncodeUpsertUserCMDChannelMembershipsCommand, func(c command) ([]metadb.UserCMDChannelMembership, bool) {
		x, ok := c.(*upsertUserCMDChannelMembershipsCmd)
		if !ok {
			return nil, false
		}
		return x.memberships, true
	}, nil, cmdMembers))
	out = append(out, c27Cmd("AdvanceUserCMDChannelMembershipAcks", EncodeAdvanceUserCMDChannelMembershipAcksCommand, func(c command) ([]metadb.UserCMDChannelMembership, bool) {
		x, ok := c.(*advanceUserCMDChannelMembershipAcksCmd)
		if !ok {
			return nil, false
		}
		return x.memberships, true
	}, nil, cmdMembers))
	out = append(out, c27Cmd("TombstoneUserCMDChannelMemberships", EncodeTombstoneUserCMDChannelMembershipsCommand, func(c command) ([]metadb.UserCMDChannelMembership, bool) {
		x, ok := c.(*tombstoneUserCMDChannelMembershipsCmd)
		if !ok {
			return nil, false
		}
		return x.memberships, true
	}, nil, cmdMembers))

	l1 := metadb.ChannelLatest{ChannelID: "g1", ChannelType: 2, LastMessageID: 1, LastMessageSeq: 2, LastAt: 3, FromUID: "u1", ClientMsgNo: "m1", Payload: []byte("hi"), UpdatedAt: 4}
	l2 := metadb.ChannelLatest{ChannelID: "", ChannelType: math.MinInt64, LastMessageID: math.MaxUint64, LastMessageSeq: 128, LastAt: -1, Payload: make([]byte, 129), UpdatedAt: math.MaxInt64}
	l3 := metadb.ChannelLatest{ChannelID: "x", ChannelType: 1}
	out = append(out, c27Cmd("UpsertChannelLatest", EncodeUpsertChannelLatestCommand, func(c command) (metadb.ChannelLatest, bool) {
		x, ok := c.(*upsertChannelLatestCmd)
		if !ok {
			return metadb.ChannelLatest{}, false
		}
		return x.latest, true
	}, nil, []c27Named[metadb.ChannelLatest]{{"full", l1}, {"edge", l2}, {"minimal", l3}}))
	out = append(out, c27Cmd("UpsertChannelLatestBatch", EncodeUpsertChannelLatestBatchCommand, func(c command) ([]ChannelLatestBatchItem, bool) {
		x, ok := c.(*upsertChannelLatestBatchCmd)
		if !ok {
			return nil, false
		}
		return x.items, true
	}, nil, []c27Named[[]ChannelLatestBatchItem]{
		{"one", []ChannelLatestBatchItem{{HashSlot: 7, Latest: l1}}},
		{"three", []ChannelLatestBatchItem{{HashSlot: 0, Latest: l3}, {HashSlot: 65535, Latest: l2}, {HashSlot: 7, Latest: l1}}},
	}))
	out = append(out, c27Cmd("Noop", func(struct{}) []byte { return EncodeNoopCommand() }, func(c command) (struct{}, bool) {
		_, ok := c.(*noopCmd)
		return struct{}{}, ok
	}, nil, []c27Named[struct{}]{{"noop", struct{}{}}}))

	// commands defined outside command.go: valid encodings from the exported encoders, used
	// as seeds for truncation / mutation / blow-up (no panic, bounded allocation, header rules)
	other := &kit.Codec{
		Name:   "fsm.OtherCommands",
		Encode: func(any) ([]byte, error) { return nil, errors.New("c27: no generic encoder") },
		Decode: func(b []byte) (any, error) {
			cmd, err := decodeCommand(b)
			if err != nil {
				return nil, err
			}
			return c27Other{Type: fmt.Sprintf("%T", cmd)}, nil
		},
		PrefixMayDecode: c27TLVBoundary,
		MustReject:      c27MustRejectCommand,
		Seeds: []kit.Seed{
			{Label: "ApplyDelta(noop)", Bytes: EncodeApplyDeltaCommand(3, 9, 7, EncodeNoopCommand())},
			{Label: "ApplyDelta(upsert-user)", Bytes: EncodeApplyDeltaCommand(math.MaxUint32, math.MaxUint64, 65535, EncodeUpsertUserCommand(users[1].v))},
			{Label: "EnterFence", Bytes: EncodeEnterFenceCommand(7)},
			{Label: "EnterFenceForTarget", Bytes: EncodeEnterFenceCommandForTarget(65535, 9)},
			{Label: "AckOutbox", Bytes: EncodeAckHashSlotMigrationOutboxCommand(7, 1, 2, 99)},
			{Label: "CleanupOutbox", Bytes: EncodeCleanupHashSlotMigrationOutboxCommand(7, 1, 2, math.MaxUint64)},
			{Label: "BindPluginUser", Bytes: EncodeBindPluginUserCommand(metadb.PluginUserBinding{UID: "u1", PluginNo: "p1", CreatedAtMS: 1, UpdatedAtMS: 2})},
			{Label: "UnbindPluginUser", Bytes: EncodeUnbindPluginUserCommand("u1", "p1")},
		},
	}
	var types []int
	for t := range commandDecoders {
		types = append(types, int(t))
	}
	sort.Ints(types)
	for _, t := range types {
		other.Headers = append(other.Headers, []byte{commandVersion, byte(t)})
	}
	out = append(out, other)

	// apply results (fixed magic + payload, not TLV): every strict prefix must be rejected
	out = append(out, &kit.Codec{
		Name: "fsm.ChannelConditionalMutationResult",
		Encode: func(v any) ([]byte, error) {
			return EncodeChannelConditionalMutationResult(&metadb.ChannelConditionalMutationResult{Applied: v.(bool)}), nil
		},
		Decode: func(b []byte) (any, error) {
			v, err := DecodeChannelConditionalMutationResult(b)
			if err != nil {
				return nil, err
			}
			return v, nil
		},
		StrictStability: true,
		Values:          []kit.Value{{Label: "applied", V: true}, {Label: "not-applied", V: false}},
		Headers:         [][]byte{[]byte("WKCM\x01"), []byte("WKCM")},
	})
	out = append(out, &kit.Codec{
		Name: "fsm.SubscriberMutationResult",
		Encode: func(v any) ([]byte, error) {
			r := v.(metadb.SubscriberMutationResult)
			return EncodeSubscriberMutationResult(&r), nil
		},
		Decode: func(b []byte) (any, error) {
			v, err := DecodeSubscriberMutationResult(b)
			if err != nil {
				return nil, err
			}
			return v, nil
		},
		StrictStability: true,
		Values: []kit.Value{{Label: "zero", V: metadb.SubscriberMutationResult{}}, {Label: "small", V: metadb.SubscriberMutationResult{RequestedCount: 3, ChangedCount: 2}},
			{Label: "varint-edge", V: metadb.SubscriberMutationResult{RequestedCount: 128, ChangedCount: 127}}, {Label: "max", V: metadb.SubscriberMutationResult{RequestedCount: math.MaxInt, ChangedCount: 1000}}},
		Headers: [][]byte{[]byte("WKSM\x01"), []byte("WKSM\x01\x01")},
	})
	return out
}

func TestVerifC27Fsm(t *testing.T) {
	kit.Main(t, "C27", c27FsmCodecs, func(r *ev.R, replaying bool) {
		if !replaying {
			n := len(c27FsmCodecs())
			r.Guard("fsm-codecs", n >= 25 && len(commandDecoders) >= 40, "codecs=%d registered command types=%d", n, len(commandDecoders))
		}
	})
}
