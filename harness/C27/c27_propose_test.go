package propose_test

// C27 (slot proposal forwarding): pkg/cluster/propose/codec.go
// EncodePayload/DecodePayload and EncodeForwardRequest/DecodeForwardRequest.
// Black-box: exported API only.

import (
	"bytes"
	"encoding/binary"
	"fmt"
	"testing"

	"github.com/WuKongIM/WuKongIM/pkg/cluster/propose"
	kit "github.com/WuKongIM/WuKongIM/pkg/zzverif/c27kit"
)

type c27Payload struct {
	HashSlot uint16
	Command  []byte
}

func c27Bytes(n int, start byte) []byte {
	b := make([]byte, n)
	for i := range b {
		b[i] = start + byte(i)
	}
	return b
}

func c27PayloadCodec() *kit.Codec {
	var values []kit.Value
	for _, hs := range []uint16{0, 1, 255, 256, 0x7fff, 0xffff} {
		for _, cmd := range [][]byte{nil, {0}, {1, 19}, c27Bytes(40, 1), c27Bytes(300, 200)} {
			values = append(values, kit.Value{Label: fmt.Sprintf("hs=%d,cmd=%d", hs, len(cmd)), V: c27Payload{hs, cmd}})
		}
	}
	return &kit.Codec{
		Name: "propose.Payload",
		Encode: func(v any) ([]byte, error) {
			p := v.(c27Payload)
			return propose.EncodePayload(p.HashSlot, p.Command), nil
		},
		Decode: func(b []byte) (any, error) {
			hs, cmd, err := propose.DecodePayload(b)
			if err != nil {
				return nil, err
			}
			return c27Payload{hs, cmd}, nil
		},
		// [version:1][hashSlot:2][command...]: the command is opaque and carries no length
		PrefixMayDecode: func(enc []byte, n int) bool { return n >= 3 },
		MustReject: func(in []byte) string {
			if len(in) < 3 {
				return "shorter than the 3-byte envelope header"
			}
			if in[0] != 1 {
				return "envelope version is not 1"
			}
			return ""
		},
		StrictStability: true,
		Values:          values,
		Headers:         [][]byte{{1}, {1, 0}, {1, 0, 7}},
	}
}

func c27ForwardCodec() *kit.Codec {
	var values []kit.Value
	for _, slot := range []uint32{1, 2, 255, 256, 1 << 31, 0xffffffff} {
		for _, hs := range []uint16{0, 1, 0xffff} {
			for _, class := range []propose.ProposalClass{propose.ProposalClassForeground, propose.ProposalClassBackground} {
				for _, want := range []bool{false, true} {
					for _, pl := range [][]byte{{0}, {1, 0, 7, 1, 19}, c27Bytes(127, 3), c27Bytes(260, 9)} {
						values = append(values, kit.Value{
							Label: fmt.Sprintf("slot=%d,hs=%d,class=%d,want=%v,payload=%d", slot, hs, class, want, len(pl)),
							V:     propose.ForwardRequest{SlotID: slot, HashSlot: hs, Class: class, WantResult: want, Payload: pl},
						})
					}
				}
			}
		}
	}
	// legacy wire versions 1 and 2 are still accepted by the decoder; build them with the
	// layout documented by DecodeForwardRequest (the repository has no encoder for them)
	legacy1 := func(slot uint32, hs uint16, pl []byte) []byte {
		out := make([]byte, 11+len(pl))
		out[0] = 1
		binary.BigEndian.PutUint32(out[1:5], slot)
		binary.BigEndian.PutUint16(out[5:7], hs)
		binary.BigEndian.PutUint32(out[7:11], uint32(len(pl)))
		copy(out[11:], pl)
		return out
	}
	legacy2 := func(class byte, slot uint32, hs uint16, pl []byte) []byte {
		out := make([]byte, 12+len(pl))
		out[0] = 2
		out[1] = class
		binary.BigEndian.PutUint32(out[2:6], slot)
		binary.BigEndian.PutUint16(out[6:8], hs)
		binary.BigEndian.PutUint32(out[8:12], uint32(len(pl)))
		copy(out[12:], pl)
		return out
	}
	seeds := []kit.Seed{
		{Label: "legacy-v1", Bytes: legacy1(7, 9, []byte{1, 0, 9, 1, 19})},
		{Label: "legacy-v1-empty-payload", Bytes: legacy1(7, 9, nil)},
		{Label: "legacy-v2-background", Bytes: legacy2(1, 7, 9, []byte{1, 0, 9, 1, 19})},
		{Label: "legacy-v2-foreground", Bytes: legacy2(0, 0xffffffff, 0xffff, c27Bytes(130, 1))},
	}
	return &kit.Codec{
		Name: "propose.ForwardRequest",
		Encode: func(v any) ([]byte, error) {
			return propose.EncodeForwardRequest(v.(propose.ForwardRequest))
		},
		Decode: func(b []byte) (any, error) {
			req, err := propose.DecodeForwardRequest(b)
			if err != nil {
				return nil, err
			}
			return req, nil
		},
		MustReject: func(in []byte) string {
			if len(in) < 11 {
				return "shorter than the smallest forward header"
			}
			if in[0] < 1 || in[0] > 3 {
				return "unknown forward version"
			}
			hdr := map[byte]int{1: 11, 2: 12, 3: 13}[in[0]]
			if len(in) < hdr {
				return "shorter than the header of its version"
			}
			if uint64(binary.BigEndian.Uint32(in[hdr-4:hdr])) != uint64(len(in)-hdr) {
				return "declared payload length differs from the bytes present"
			}
			return ""
		},
		Equal: func(a, b any) bool {
			x, ok1 := a.(propose.ForwardRequest)
			y, ok2 := b.(propose.ForwardRequest)
			return ok1 && ok2 && x.SlotID == y.SlotID && x.HashSlot == y.HashSlot && x.Class == y.Class && x.WantResult == y.WantResult && bytes.Equal(x.Payload, y.Payload)
		},
		StrictStability: true,
		Values:          values,
		Seeds:           seeds,
		// the two rejecting paths of EncodeForwardRequest
		FailEncode: []kit.Value{
			{Label: "slot-0", V: propose.ForwardRequest{SlotID: 0, HashSlot: 1, Payload: c27Bytes(40, 1)}},
			{Label: "empty-payload", V: propose.ForwardRequest{SlotID: 1, HashSlot: 1, WantResult: true}},
		},
		Headers: [][]byte{{1}, {2}, {3}, {3, 0, 0, 0, 0, 0, 1, 0, 0, 0, 0}, {3, 1, 1, 0, 0, 0, 1, 0, 0, 0, 0}, {1, 0, 0, 0, 1, 0, 0, 0, 0}, {2, 0, 0, 0, 0, 1, 0, 0, 0, 0}},
	}
}

func TestVerifC27Propose(t *testing.T) {
	kit.Main(t, "C27", func() []*kit.Codec { return []*kit.Codec{c27PayloadCodec(), c27ForwardCodec()} }, nil)
}
