package message_test

// C36 harness, part 2: the enumerated spaces, the path comparison and the test entry.

import (
	"context"
	"encoding/json"
	"fmt"
	"runtime"
	"runtime/debug"
	"sort"
	"sync"
	"sync/atomic"
	"testing"
	"time"

	"github.com/WuKongIM/WuKongIM/internal/usecase/message"
	"github.com/WuKongIM/WuKongIM/pkg/zzverif/ev"
)

func c36FixedNow() time.Time { return time.Unix(1_700_000_000, 0) }

// ---------------------------------------------------------------- running one command through every path

type c36Paths struct {
	Single, Batch, Fallback, CachedCold, CachedWarm c36Outcome
}

func c36FromSend(res message.SendResult, err error, sub *c36Submitter) c36Outcome {
	o := c36Outcome{Reason: res.Reason, Err: c36ErrTag(err)}
	if len(sub.cmds) > 0 {
		o.Allowed = true
		o.Channel = sub.cmds[len(sub.cmds)-1].ChannelID
		if len(sub.cmds) > 1 {
			o.Err += "|submitted-more-than-once"
		}
	}
	return o
}

func c36RunSingle(cfg c36Cfg, st *c36Store, cmd message.SendCommand) c36Outcome {
	sub := &c36Submitter{}
	res, err := c36NewApp(cfg, st, sub, false, false).Send(context.Background(), cmd)
	return c36FromSend(res, err, sub)
}

// c36RunBatch sends the commands as ONE batch and returns one outcome per item. Admitted
// commands are matched back to their items through ClientMsgNo (set unique by the caller).
func c36RunBatch(cfg c36Cfg, st *c36Store, cmds []message.SendCommand, batchStore bool) []c36Outcome {
	return c36RunBatchDeadlines(cfg, st, cmds, batchStore, nil)
}

// c36RunBatchDeadlines is c36RunBatch with a per-item context deadline (hours from now, 0 =
// none). The deadlines are far in the future and never expire, so they must not change any
// decision; they only split the batch into deadline cohorts.
func c36RunBatchDeadlines(cfg c36Cfg, st *c36Store, cmds []message.SendCommand, batchStore bool, hours []int) []c36Outcome {
	sub := &c36Submitter{}
	items := make([]message.SendBatchItem, len(cmds))
	for i, c := range cmds {
		ctx := context.Background()
		if i < len(hours) && hours[i] > 0 {
			var cancel context.CancelFunc
			ctx, cancel = context.WithDeadline(ctx, time.Now().Add(time.Duration(hours[i])*time.Hour))
			defer cancel()
		}
		items[i] = message.SendBatchItem{Context: ctx, Command: c}
	}
	results := c36NewApp(cfg, st, sub, batchStore, false).SendBatch(items)
	out := make([]c36Outcome, len(cmds))
	if len(results) != len(cmds) {
		for i := range out {
			out[i] = c36Outcome{Err: "result-vector-length-mismatch"}
		}
		return out
	}
	for i := range cmds {
		out[i] = c36Outcome{Reason: results[i].Result.Reason, Err: c36ErrTag(results[i].Err)}
		n := 0
		for _, s := range sub.cmds {
			if s.ClientMsgNo == cmds[i].ClientMsgNo {
				n++
				out[i].Allowed, out[i].Channel = true, s.ChannelID
			}
		}
		if n > 1 {
			out[i].Err += "|submitted-more-than-once"
		}
	}
	return out
}

func c36RunAll(c *c36Case, withCache bool) c36Paths {
	st := &c36Store{m: c.Store}
	var p c36Paths
	p.Single = c36RunSingle(c.Cfg, st, c.Cmd)
	p.Batch = c36RunBatch(c.Cfg, st, []message.SendCommand{c.Cmd}, true)[0]
	p.Fallback = c36RunBatch(c.Cfg, st, []message.SendCommand{c.Cmd}, false)[0]
	if !withCache {
		p.CachedCold, p.CachedWarm = p.Single, p.Single
		return p
	}
	// read-through cache in front of the same store: first (cold) and second (warm) send
	sub := &c36Submitter{}
	app := c36NewApp(c.Cfg, st, sub, true, true)
	res, err := app.Send(context.Background(), c.Cmd)
	p.CachedCold = c36FromSend(res, err, sub)
	sub.cmds = nil
	res, err = app.Send(context.Background(), c.Cmd)
	p.CachedWarm = c36FromSend(res, err, sub)
	return p
}

type c36Viol struct{ fp, msg string }

func c36Diff(a, b c36Outcome) string {
	if a == b {
		return ""
	}
	as, bs := a.String(), b.String()
	if as == bs { // same class, different admitted channel id
		return as + "-vs-" + bs + "(admitted-channel-differs)"
	}
	return as + "-vs-" + bs
}

// c36Judge applies the oracle to one case.
func c36Judge(c *c36Case, p c36Paths) *c36Viol {
	desc := func() string {
		b, _ := json.Marshal(c.Facts())
		cf, _ := json.Marshal(c.Cfg)
		return fmt.Sprintf("facts=%s config=%s | single=%s batch=%s batch-fallback=%s cached(cold,warm)=%s,%s documented=%s",
			b, cf, p.Single.Long(), p.Batch.Long(), p.Fallback.Long(), p.CachedCold.Long(), p.CachedWarm.Long(), c.Want.Long())
	}
	// (1) same decision and reason on the per-send path and the batch path
	if d := c36Diff(p.Single, p.Batch); d != "" {
		if c.Kind == "person-malformed" && p.Batch.Err == "invalid-person-channel" && p.Single.Err != "invalid-person-channel" {
			// one defect, whatever the earlier check decided on the per-send path
			return &c36Viol{fp: "C36:batch-path-differs-from-per-send:person-malformed:undecodable-id-error-preempts-earlier-checks-in-batch-plan",
				msg: "the batched path reports the undecodable person channel id before the sender-ban / terminal checks that decide on the per-send path: " + desc()}
		}
		return &c36Viol{fp: "C36:batch-path-differs-from-per-send:" + c.Kind + ":" + d, msg: "per-send and batched permission path disagree: " + desc()}
	}
	if d := c36Diff(p.Single, p.Fallback); d != "" {
		return &c36Viol{fp: "C36:batch-fallback-differs-from-per-send:" + c.Kind + ":" + d, msg: "Send and SendBatch (no batch store) disagree: " + desc()}
	}
	if d := c36Diff(p.Single, p.CachedCold); d != "" {
		return &c36Viol{fp: "C36:cached-path-differs-from-per-send:" + c.Kind + ":cold:" + d, msg: "uncached and cached (cold) per-send path disagree: " + desc()}
	}
	if d := c36Diff(p.Single, p.CachedWarm); d != "" {
		return &c36Viol{fp: "C36:cached-path-differs-from-per-send:" + c.Kind + ":warm:" + d, msg: "uncached and cached (warm, unchanged facts) per-send path disagree: " + desc()}
	}
	// (2) a disbanded source channel is never admitted, whoever sends
	if c.Disbanded && p.Single.Allowed {
		who := c.Trusted
		if who == "" {
			who = "ordinary-sender"
		}
		return &c36Viol{fp: "C36:disbanded-channel-admitted:" + c.Kind + ":" + who, msg: "send to a disbanded channel was admitted: " + desc()}
	}
	// (3) documented precedence; trusted senders skip only the non-terminal checks
	if d := c36Diff(p.Single, c.Want); d != "" {
		if c.Trusted != "" {
			return &c36Viol{fp: "C36:trusted-sender-bypass-wrong:" + c.Kind + ":" + c.Trusted + ":got-vs-documented:" + d, msg: "trusted sender decision differs from 'terminal checks only': " + desc()}
		}
		return &c36Viol{fp: "C36:reason-precedence:" + c.Kind + ":got-vs-documented:" + d, msg: "decision differs from the documented precedence: " + desc()}
	}
	return nil
}

// ---------------------------------------------------------------- spaces (mixed radix products)

type c36Space struct {
	name  string
	names []string
	dims  []int
	// eval runs the case with that index vector; label is the outcome class.
	eval func(ix []int) (viol *c36Viol, label string, nontrivial bool, sample func() any)
}

func (s *c36Space) size() int64 {
	n := int64(1)
	for _, d := range s.dims {
		n *= int64(d)
	}
	return n
}

func (s *c36Space) index(lin int64, buf []int) []int {
	buf = buf[:0]
	for range s.dims {
		buf = append(buf, 0)
	}
	for i := len(s.dims) - 1; i >= 0; i-- {
		buf[i] = int(lin % int64(s.dims[i]))
		lin /= int64(s.dims[i])
	}
	return buf
}

func c36SingleEval(build func(ix []int) c36Case) func(ix []int) (*c36Viol, string, bool, func() any) {
	return c36SingleEvalCache(true, build)
}

func c36SingleEvalCache(withCache bool, build func(ix []int) c36Case) func(ix []int) (*c36Viol, string, bool, func() any) {
	return func(ix []int) (*c36Viol, string, bool, func() any) {
		c := build(ix)
		p := c36RunAll(&c, withCache)
		v := c36Judge(&c, p)
		who := c.Trusted
		if who == "" {
			who = "ordinary"
		}
		label := c.Kind + "/" + who + "/" + p.Single.String()
		sample := func() any {
			m := map[string]any{"facts": c.Facts(), "config": c.Cfg, "per_send": p.Single.Long(), "batch": p.Batch.Long(),
				"batch_fallback": p.Fallback.Long(), "documented": c.Want.Long()}
			if withCache {
				m["cached_cold"], m["cached_warm"] = p.CachedCold.Long(), p.CachedWarm.Long()
			}
			return m
		}
		return v, label, c.NonTrivial, sample
	}
}

// who sends (system-uid configuration x sender uid) and from which session (system-device
// configuration x device id). Thorough: the full 2x2 and 2x3 products. Quick: the three
// combinations that differ in meaning (an unconfigured system uid / device is an ordinary one).
type c36Who struct {
	sysUIDs bool
	sender  string
}

type c36Session struct {
	sysDev bool
	device string
}

func c36WhoMenu(thorough bool) []c36Who {
	if thorough {
		return []c36Who{{false, "u1"}, {false, "sys"}, {true, "u1"}, {true, "sys"}}
	}
	return []c36Who{{false, "u1"}, {true, "u1"}, {true, "sys"}}
}

func c36SessionMenu(thorough bool) []c36Session {
	if thorough {
		return []c36Session{{false, ""}, {false, c36SysDevice}, {false, "dev-x"}, {true, ""}, {true, c36SysDevice}, {true, "dev-x"}}
	}
	return []c36Session{{false, c36SysDevice}, {true, "dev-x"}, {true, c36SysDevice}}
}

func c36Spaces(thorough bool) []*c36Space {
	var out []*c36Space
	whos, sessions := c36WhoMenu(thorough), c36SessionMenu(thorough)
	cfg := func(w c36Who, s c36Session, wl bool) c36Cfg {
		return c36Cfg{SysUIDs: w.sysUIDs, SysDevice: s.sysDev, Whitelist: wl}
	}
	// quick fixes irrelevant_flags = set (the harder half) for the big products; thorough runs both
	noises := []bool{true}
	if thorough {
		noises = []bool{false, true}
	}
	// ---- group: full product of every fact the two paths read
	out = append(out, &c36Space{
		name:  "group",
		names: []string{"sender(system-uid config)", "session(system-device config)", "cmd_suffix", "irrelevant_flags", "sender_row", "channel_row", "denylisted", "subscriber", "allowlist_nonempty", "allowlisted"},
		dims:  []int{len(whos), len(sessions), 2, len(noises), 4, 6, 3, 3, 3, 3},
		eval: c36SingleEval(func(ix []int) c36Case {
			w, s := whos[ix[0]], sessions[ix[1]]
			return c36GroupCase(c36GroupFacts{Cfg: cfg(w, s, false), Sender: w.sender, Device: s.device, Suffix: ix[2] == 1, Noise: noises[ix[3]],
				SenderRow: ix[4], GroupRow: ix[5], Denied: ix[6], Sub: ix[7], HasAllow: ix[8], Entry: ix[9], Group: "g1"})
		}),
	})
	// ---- person
	peers := []string{"u2", "rsys"}
	// quick: id forms {peer uid/normalize, reversed/as-is}; thorough: all 5
	forms := []int{0, 4}
	if thorough {
		forms = []int{0, 1, 2, 3, 4}
	}
	out = append(out, &c36Space{
		name:  "person",
		names: []string{"sender(system-uid config)", "session(system-device config)", "whitelist_enabled", "receiver", "channel_form", "cmd_suffix", "irrelevant_flags", "sender_row", "channel_row", "denylisted", "allowlisted", "receiver_row"},
		dims:  []int{len(whos), len(sessions), 2, 2, len(forms), 2, len(noises), 4, 4, 3, 3, 4},
		// the TTL-cache path is run for the person product in the thorough tier only (quick: group, malformed, other types)
		eval: c36SingleEvalCache(thorough, func(ix []int) c36Case {
			w, s := whos[ix[0]], sessions[ix[1]]
			return c36PersonCase(c36PersonFacts{Cfg: cfg(w, s, ix[2] == 1), Sender: w.sender, Peer: peers[ix[3]], Device: s.device, Form: forms[ix[4]],
				Suffix: ix[5] == 1, Noise: noises[ix[6]], SenderRow: ix[7], TermRow: ix[8], Denied: ix[9], Entry: ix[10], RecvRow: ix[11]})
		}),
	})
	// ---- malformed person channel ids
	out = append(out, &c36Space{
		name:  "person-malformed",
		names: []string{"sender(system-uid config)", "session(system-device config)", "channel_id", "cmd_suffix", "sender_row", "channel_row"},
		dims:  []int{len(whos), len(sessions), len(c36BadIDs), 2, 4, 4},
		eval: c36SingleEval(func(ix []int) c36Case {
			w, s := whos[ix[0]], sessions[ix[1]]
			return c36MalformedCase(c36MalformedFacts{Cfg: cfg(w, s, false), Sender: w.sender, Device: s.device, IDIndex: ix[2], Suffix: ix[3] == 1,
				SenderRow: ix[4], TermRow: ix[5]})
		}),
	})
	// ---- the other channel types (both entry points use the per-send code for them)
	for _, typ := range []uint8{c36TInfo, c36TCS, c36TTemp, c36TUnknown} {
		typ := typ
		out = append(out, &c36Space{
			name:  "other/" + c36OtherTypeName(typ),
			names: []string{"sender(system-uid config)", "session(system-device config)", "cmd_suffix", "sender_row", "channel_row"},
			dims:  []int{len(whos), len(sessions), 2, 4, 4},
			eval: c36SingleEval(func(ix []int) c36Case {
				w, s := whos[ix[0]], sessions[ix[1]]
				return c36OtherCase(c36OtherFacts{Cfg: cfg(w, s, false), Type: typ, Sender: w.sender, Device: s.device, Suffix: ix[2] == 1, SenderRow: ix[3], TermRow: ix[4]})
			}),
		})
	}
	out = append(out, &c36Space{
		name:  "other/agent",
		names: []string{"sender(system-uid config)", "session(system-device config)", "channel_id", "cmd_suffix", "sender_row", "channel_row"},
		dims:  []int{len(whos), len(sessions), len(c36AgentIDs), 2, 4, 4},
		eval: c36SingleEval(func(ix []int) c36Case {
			w, s := whos[ix[0]], sessions[ix[1]]
			return c36OtherCase(c36OtherFacts{Cfg: cfg(w, s, false), Type: c36TAgent, Sender: w.sender, Device: s.device, Variant: ix[2], Suffix: ix[3] == 1, SenderRow: ix[4], TermRow: ix[5]})
		}),
	})
	// visitors reuse the group member-list code of the per-send path: list facts {false,true} in quick, + store error in thorough
	vt := 2
	if thorough {
		vt = 3
	}
	out = append(out, &c36Space{
		name:  "other/visitors",
		names: []string{"sender(system-uid config)", "session(system-device config)", "own_channel_or_other", "cmd_suffix", "sender_row", "channel_row", "denylisted", "subscriber", "allowlist_nonempty", "allowlisted"},
		dims:  []int{len(whos), len(sessions), 2, 2, 4, 4, vt, vt, vt, vt},
		eval: c36SingleEval(func(ix []int) c36Case {
			w, s := whos[ix[0]], sessions[ix[1]]
			return c36OtherCase(c36OtherFacts{Cfg: cfg(w, s, false), Type: c36TVisitors, Sender: w.sender, Device: s.device, Variant: ix[2], Suffix: ix[3] == 1,
				SenderRow: ix[4], TermRow: ix[5], Denied: ix[6], Sub: ix[7], HasAllow: ix[8], Entry: ix[9]})
		}),
	})
	out = append(out, c36MixedSpaces(thorough)...)
	return out
}

// ---------------------------------------------------------------- mixed batches: several scopes share one batch read round
//
// The batch path deduplicates raw reads across all items of a batch (sender rows, channel
// rows, list lookups) and maps the answers back through read indexes. Every item of a mixed
// batch must get exactly the decision the per-send path gives that command alone over the
// same facts, in both item orders, with a duplicate of the first item (same permission
// scope, coalesced) appended.

func c36Merge(dst map[message.PermissionRead]c36Ans, src map[message.PermissionRead]c36Ans) {
	for k, v := range src {
		dst[k] = v
	}
}

func c36MixedEval(kind string, build func(ix []int) (c36Cfg, []c36Case)) func(ix []int) (*c36Viol, string, bool, func() any) {
	return func(ix []int) (*c36Viol, string, bool, func() any) {
		cfg, cases := build(ix)
		world := map[message.PermissionRead]c36Ans{}
		for i := range cases {
			c36Merge(world, cases[i].Store)
		}
		st := &c36Store{m: world}
		singles := make([]c36Outcome, len(cases))
		for i := range cases {
			singles[i] = c36RunSingle(cfg, st, cases[i].Cmd)
		}
		label := kind
		for _, s := range singles {
			label += "/" + s.String()
		}
		var viol *c36Viol
		orders := [][]int{{0, 1, 0}, {1, 0, 1}}
		for _, ord := range orders {
			cmds := make([]message.SendCommand, len(ord))
			for k, ci := range ord {
				cmds[k] = cases[ci].Cmd
				cmds[k].ClientMsgNo = fmt.Sprintf("m%d", k)
				cmds[k].Payload = []byte{byte('a' + k)}
			}
			// one shared (absent) deadline, then the deadline cohort splits of the three items
			for _, hours := range [][]int{nil, {0, 1, 2}, {2, 0, 2}, {1, 1, 0}} {
				got := c36RunBatchDeadlines(cfg, st, cmds, true, hours)
				for k, ci := range ord {
					if d := c36Diff(singles[ci], got[k]); d != "" && viol == nil {
						f0, _ := json.Marshal(cases[0].Facts())
						f1, _ := json.Marshal(cases[1].Facts())
						cf, _ := json.Marshal(cfg)
						fpk := "C36:mixed-batch-item-differs-from-per-send:"
						if hours != nil {
							fpk = "C36:mixed-deadline-batch-item-differs-from-per-send:"
						}
						viol = &c36Viol{fp: fpk + kind + ":" + cases[ci].Kind + ":" + d,
							msg: fmt.Sprintf("item %d of batch order %v with item deadlines (hours from now, 0 = none) %v (item = case %d) got %s, the same command sent alone over the same facts gets %s | case0=%s case1=%s config=%s",
								k, ord, hours, ci, got[k].Long(), singles[ci].Long(), f0, f1, cf)}
					}
				}
			}
		}
		sample := func() any {
			return map[string]any{"batch": "[case0, case1, case0'] and [case1, case0, case1'], each with item deadlines none / {none,1h,2h} / {2h,none,2h} / {1h,1h,none}", "case0": cases[0].Facts(), "case1": cases[1].Facts(), "config": cfg,
				"per_send": []string{singles[0].Long(), singles[1].Long()}}
		}
		return viol, label, singles[0] != singles[1], sample
	}
}

func c36MixedSpaces(thorough bool) []*c36Space {
	var out []*c36Space
	// list facts {false,true} in quick, {false,true,store error} in thorough for the two large families
	// quick also drops the store-error entry of the per-item rows (sr, gr, tr) in the large families
	// and keeps the second command's allowlist facts (t2) at "no allowlist"
	t, t2, sr, gr, tr := 2, 1, 3, 5, 3
	if thorough {
		t, t2, sr, gr, tr = 3, 3, 4, 6, 4
	}
	// (a) one sender, two groups: the sender row is read once for both items
	out = append(out, &c36Space{
		name:  "mixed/one-sender-two-groups",
		names: []string{"sender_row", "g1.channel_row", "g1.denylisted", "g1.subscriber", "g1.allowlist_nonempty", "g1.allowlisted", "g2.channel_row", "g2.denylisted", "g2.subscriber", "g2.allowlist_nonempty", "g2.allowlisted"},
		dims:  []int{4, gr, t, t, t, t, gr, t, t, t2, t2},
		eval: c36MixedEval("one-sender-two-groups", func(ix []int) (c36Cfg, []c36Case) {
			cfg := c36Cfg{}
			a := c36GroupCase(c36GroupFacts{Cfg: cfg, Sender: "u1", SenderRow: ix[0], GroupRow: ix[1], Denied: ix[2], Sub: ix[3], HasAllow: ix[4], Entry: ix[5], Group: "g1"})
			b := c36GroupCase(c36GroupFacts{Cfg: cfg, Sender: "u1", SenderRow: ix[0], GroupRow: ix[6], Denied: ix[7], Sub: ix[8], HasAllow: ix[9], Entry: ix[10], Group: "g2"})
			return cfg, []c36Case{a, b}
		}),
	})
	// (b) two senders (ordinary or system uid), one group: channel row and allowlist emptiness are read once
	senders2 := []string{"u3", "sys"}
	out = append(out, &c36Space{
		name:  "mixed/two-senders-one-group",
		names: []string{"second_sender", "channel_row", "allowlist_nonempty", "u1.sender_row", "u1.denylisted", "u1.subscriber", "u1.allowlisted", "s2.sender_row", "s2.denylisted", "s2.subscriber", "s2.allowlisted"},
		dims:  []int{2, 6, 3, sr, t, t, t, sr, t, t, t},
		eval: c36MixedEval("two-senders-one-group", func(ix []int) (c36Cfg, []c36Case) {
			cfg := c36Cfg{SysUIDs: true}
			a := c36GroupCase(c36GroupFacts{Cfg: cfg, Sender: "u1", SenderRow: ix[3], GroupRow: ix[1], Denied: ix[4], Sub: ix[5], HasAllow: ix[2], Entry: ix[6], Group: "g1"})
			b := c36GroupCase(c36GroupFacts{Cfg: cfg, Sender: senders2[ix[0]], SenderRow: ix[7], GroupRow: ix[1], Denied: ix[8], Sub: ix[9], HasAllow: ix[2], Entry: ix[10], Group: "g1"})
			return cfg, []c36Case{a, b}
		}),
	})
	// (c) the same sender with and without the system device, and through the command channel, same group
	out = append(out, &c36Space{
		name:  "mixed/system-device-and-ordinary-session",
		names: []string{"sender_row", "channel_row", "denylisted", "subscriber", "allowlist_nonempty", "allowlisted", "second_item_cmd_suffix"},
		dims:  []int{4, 6, 3, 3, 3, 3, 2},
		eval: c36MixedEval("system-device-and-ordinary-session", func(ix []int) (c36Cfg, []c36Case) {
			cfg := c36Cfg{SysDevice: true}
			a := c36GroupCase(c36GroupFacts{Cfg: cfg, Sender: "u1", Device: c36SysDevice, SenderRow: ix[0], GroupRow: ix[1], Denied: ix[2], Sub: ix[3], HasAllow: ix[4], Entry: ix[5], Group: "g1"})
			b := c36GroupCase(c36GroupFacts{Cfg: cfg, Sender: "u1", Device: "dev-x", Suffix: ix[6] == 1, SenderRow: ix[0], GroupRow: ix[1], Denied: ix[2], Sub: ix[3], HasAllow: ix[4], Entry: ix[5], Group: "g1"})
			return cfg, []c36Case{a, b}
		}),
	})
	// (d) one sender, a group item and a person item in the same batch (two batch rounds, shared sender row)
	out = append(out, &c36Space{
		name:  "mixed/group-and-person-one-sender",
		names: []string{"whitelist_enabled", "sender_row", "g.channel_row", "g.denylisted", "g.subscriber", "g.allowlist_nonempty", "g.allowlisted", "p.channel_row", "p.denylisted", "p.allowlisted", "p.receiver_row"},
		dims:  []int{2, 4, gr, 2, 2, 2, 2, tr, 2, 2, 4},
		eval: c36MixedEval("group-and-person-one-sender", func(ix []int) (c36Cfg, []c36Case) {
			cfg := c36Cfg{Whitelist: ix[0] == 1}
			a := c36GroupCase(c36GroupFacts{Cfg: cfg, Sender: "u1", SenderRow: ix[1], GroupRow: ix[2], Denied: ix[3], Sub: ix[4], HasAllow: ix[5], Entry: ix[6], Group: "g1"})
			b := c36PersonCase(c36PersonFacts{Cfg: cfg, Sender: "u1", Peer: "u2", Form: 0, SenderRow: ix[1], TermRow: ix[7], Denied: ix[8], Entry: ix[9], RecvRow: ix[10]})
			return cfg, []c36Case{a, b}
		}),
	})
	// (e) two person items: u1 -> u2 and u3 -> u2 (receiver row and lists of u2 shared), and u1 -> u2 twice in two id forms
	out = append(out, &c36Space{
		name:  "mixed/two-senders-one-receiver",
		names: []string{"whitelist_enabled", "receiver_row", "u1.sender_row", "u1.channel_row", "u1.denylisted", "u1.allowlisted", "u3.sender_row", "u3.channel_row", "u3.denylisted", "u3.allowlisted"},
		dims:  []int{2, 4, sr, tr, 2, 2, sr, tr, 2, 2},
		eval: c36MixedEval("two-senders-one-receiver", func(ix []int) (c36Cfg, []c36Case) {
			cfg := c36Cfg{Whitelist: ix[0] == 1}
			a := c36PersonCase(c36PersonFacts{Cfg: cfg, Sender: "u1", Peer: "u2", Form: 0, SenderRow: ix[2], TermRow: ix[3], Denied: ix[4], Entry: ix[5], RecvRow: ix[1]})
			b := c36PersonCase(c36PersonFacts{Cfg: cfg, Sender: "u3", Peer: "u2", Form: 1, SenderRow: ix[6], TermRow: ix[7], Denied: ix[8], Entry: ix[9], RecvRow: ix[1]})
			return cfg, []c36Case{a, b}
		}),
	})
	out = append(out, &c36Space{
		name:  "mixed/one-person-channel-two-id-forms",
		names: []string{"whitelist_enabled", "first_form", "second_form", "second_cmd_suffix", "sender_row", "channel_row", "denylisted", "allowlisted", "receiver_row"},
		dims:  []int{2, 4, 4, 2, 4, 4, t, t, 4},
		eval: c36MixedEval("one-person-channel-two-id-forms", func(ix []int) (c36Cfg, []c36Case) {
			cfg := c36Cfg{Whitelist: ix[0] == 1}
			a := c36PersonCase(c36PersonFacts{Cfg: cfg, Sender: "u1", Peer: "u2", Form: ix[1], SenderRow: ix[4], TermRow: ix[5], Denied: ix[6], Entry: ix[7], RecvRow: ix[8]})
			b := c36PersonCase(c36PersonFacts{Cfg: cfg, Sender: "u1", Peer: "u2", Form: ix[2], Suffix: ix[3] == 1, SenderRow: ix[4], TermRow: ix[5], Denied: ix[6], Entry: ix[7], RecvRow: ix[8]})
			return cfg, []c36Case{a, b}
		}),
	})
	return out
}

// ---------------------------------------------------------------- test entry

type c36Replay struct {
	Space    string   `json:"space"`
	Thorough bool     `json:"thorough_menus"`
	Index    int64    `json:"index"`
	Dims     []string `json:"dims,omitempty"`
	Vec      []int    `json:"vector,omitempty"`
}

func c36Section(space string) string {
	for i := 0; i < len(space); i++ {
		if space[i] == '/' {
			return space[:i]
		}
	}
	return space
}

func TestVerifC36(t *testing.T) {
	r := ev.Start(t, "C36")
	defer r.Finish()
	// allocation-heavy (every case builds five Apps); collect less often
	debug.SetGCPercent(400)
	spaces := c36Spaces(r.Thorough())

	if rf := r.Replay(); rf != nil {
		var pl c36Replay
		if err := json.Unmarshal(rf.Replay, &pl); err != nil {
			r.HarnessError("replay: bad payload: %v", err)
			return
		}
		spaces = c36Spaces(pl.Thorough)
		for _, sp := range spaces {
			if sp.name != pl.Space {
				continue
			}
			if pl.Index < 0 || pl.Index >= sp.size() {
				break
			}
			ix := sp.index(pl.Index, nil)
			v, label, _, sample := sp.eval(ix)
			b, _ := json.MarshalIndent(sample(), " ", " ")
			fmt.Printf("replay space=%s index=%d vector=%v (%v)\n %s\n outcome class: %s\n", sp.name, pl.Index, ix, sp.names, b, label)
			if v != nil {
				fmt.Printf(" VIOLATES: [%s] %s\n", v.fp, v.msg)
				r.MarkReplayReproduced()
				r.Violation(ev.Violation{Fingerprint: v.fp, Message: v.msg, System: c36Section(sp.name), Replay: pl})
			} else {
				fmt.Printf(" holds\n")
			}
			r.Section(ev.Section{Name: c36Section(sp.name), Kind: "enum", Evaluations: 1, Note: "replay"})
			return
		}
		r.HarnessError("replay: unknown space %q / index %d", pl.Space, pl.Index)
		return
	}

	type unit struct {
		sp     *c36Space
		lo, hi int64
	}
	const block = 512
	var units []unit
	for _, sp := range spaces {
		n := sp.size()
		for lo := int64(0); lo < n; lo += block {
			hi := lo + block
			if hi > n {
				hi = n
			}
			units = append(units, unit{sp, lo, hi})
		}
	}
	// VERIF_SEED only rotates / strides the order of the work units.
	if s := r.Seed(); s != 0 && len(units) > 1 {
		n := len(units)
		rot := int(uint64(s*7919) % uint64(n))
		units = append(units[rot:], units[:rot]...)
		if s%2 == 1 {
			for i, j := 0, n-1; i < j; i, j = i+1, j-1 {
				units[i], units[j] = units[j], units[i]
			}
		}
	}

	type stat struct {
		evals, nontrivial int64
		outcomes          map[string]int64
	}
	workers := runtime.GOMAXPROCS(0)
	stats := make([]map[string]*stat, workers)
	var next int64
	var stop int32
	var wg sync.WaitGroup
	var sampleMu sync.Mutex
	sampled := map[string]int{}
	start := time.Now()
	for w := 0; w < workers; w++ {
		stats[w] = map[string]*stat{}
		wg.Add(1)
		go func(w int) {
			defer wg.Done()
			var ix []int
			for atomic.LoadInt32(&stop) == 0 {
				k := atomic.AddInt64(&next, 1) - 1
				if k >= int64(len(units)) {
					return
				}
				u := units[k]
				sec := c36Section(u.sp.name)
				st := stats[w][sec]
				if st == nil {
					st = &stat{outcomes: map[string]int64{}}
					stats[w][sec] = st
				}
				for lin := u.lo; lin < u.hi; lin++ {
					ix = u.sp.index(lin, ix)
					v, label, nontrivial, sample := u.sp.eval(ix)
					st.evals++
					if v != nil {
						st.outcomes["VIOLATION"]++
						pl := c36Replay{Space: u.sp.name, Thorough: r.Thorough(), Index: lin, Dims: u.sp.names, Vec: append([]int(nil), ix...)}
						if !r.Violation(ev.Violation{Fingerprint: v.fp, Message: v.msg + fmt.Sprintf(" | case: space=%s index=%d", u.sp.name, lin), System: sec, Replay: pl}) {
							atomic.StoreInt32(&stop, 1)
						}
						continue
					}
					st.outcomes[label]++
					if nontrivial {
						st.nontrivial++
					}
					// written-out samples: the middle case of the first blocks of each space with a non-default outcome
					if lin == u.lo+(u.hi-u.lo)/2 {
						sampleMu.Lock()
						if sampled[u.sp.name] < 1 && len(sampled) < 12 && nontrivial {
							sampled[u.sp.name]++
							r.Sample(map[string]any{"space": u.sp.name, "index": lin, "case": sample()})
						}
						sampleMu.Unlock()
					}
				}
			}
		}(w)
	}
	wg.Wait()
	wall := time.Since(start).Seconds()

	// ---- sections
	expected := map[string]int64{}
	dims := map[string][]string{}
	var secOrder []string
	for _, sp := range spaces {
		sec := c36Section(sp.name)
		if _, ok := expected[sec]; !ok {
			secOrder = append(secOrder, sec)
		}
		expected[sec] += sp.size()
		dims[sec] = append(dims[sec], fmt.Sprintf("%s%v=%v", sp.name, sp.names, sp.dims))
	}
	all := map[string]int64{}
	for _, sec := range secOrder {
		var evals, nontriv int64
		outs := map[string]int64{}
		for w := range stats {
			if st := stats[w][sec]; st != nil {
				evals += st.evals
				nontriv += st.nontrivial
				for k, n := range st.outcomes {
					outs[k] += n
					all[k] += n
				}
			}
		}
		complete := evals == expected[sec] && atomic.LoadInt32(&stop) == 0
		note := "every index vector of every space is executed on the real message.App: Send, SendBatch with the batch store (batched path), SendBatch without it (worker fallback), Send through the TTL cache (cold and warm); all compared with each other and with the documented decision list. distinct_nontrivial counts index vectors (distinct by construction) whose facts are not the all-default tuple."
		if sec == "mixed" {
			note = "every index vector builds two commands over one shared fact world; batches [c0,c1,c0'] and [c1,c0,c1'] go through the batched path and every item is compared with the same command sent alone (per-send path) over the same facts. distinct_nontrivial counts vectors whose two commands get different decisions."
		}
		r.Section(ev.Section{Name: sec, Kind: "enum", Evaluations: evals, Distinct: nontriv, Exhaustive: complete, Outcomes: int64(len(outs)),
			Bounds: map[string]any{"spaces(dimension names = menu sizes)": dims[sec], "outcomes": outs}, Note: note, WallS: wall})
		r.Guard("complete/"+sec, complete, "evaluated %d of %d cases", evals, expected[sec])
	}

	// ---- vacuity guards: every documented reason is produced on both kinds, trusted senders hit both terminal outcomes
	need := []string{
		"group/ordinary/allow", "group/ordinary/reject-SendBan", "group/ordinary/reject-ChannelNotExist", "group/ordinary/reject-Ban", "group/ordinary/reject-Disband",
		"group/ordinary/reject-InBlacklist", "group/ordinary/reject-SubscriberNotExist", "group/ordinary/reject-NotInWhitelist",
		"group/system-uid/allow", "group/system-uid/reject-Disband", "group/system-device/allow", "group/system-device/reject-Disband", "group/system-device/reject-SendBan",
		"person/ordinary/allow", "person/ordinary/reject-SendBan", "person/ordinary/reject-Disband", "person/ordinary/reject-InBlacklist", "person/ordinary/reject-NotInWhitelist",
		"person/system-uid/allow", "person/system-uid/reject-Disband", "person/system-device/allow", "person/system-device/reject-Disband", "person/system-device/reject-SendBan",
		"group/ordinary/error-SystemError(injected:sender-row)", "group/ordinary/error-SystemError(injected:channel-row)", "group/ordinary/error-SystemError(injected:denied)",
		"group/ordinary/error-SystemError(injected:subscriber)", "group/ordinary/error-SystemError(injected:has-allowlist)", "group/ordinary/error-SystemError(injected:allow-entry)",
		"person/ordinary/error-SystemError(injected:receiver-row)", "person/ordinary/error-SystemError(injected:allow-entry)",
		"agent/ordinary/reject-NotAllowSend", "visitors/ordinary/reject-SubscriberNotExist", "info/ordinary/reject-Disband", "person-malformed/ordinary/error-Success(invalid-person-channel)",
	}
	var missing []string
	for _, k := range need {
		if all[k] == 0 {
			missing = append(missing, k)
		}
	}
	sort.Strings(missing)
	if r.ViolationCount() == 0 {
		r.Guard("decision-classes-seen", len(missing) == 0, "missing outcome classes: %v (seen %d classes)", missing, len(all))
	}
	var mixedDiffer int64
	for w := range stats {
		if st := stats[w]["mixed"]; st != nil {
			mixedDiffer += st.nontrivial
		}
	}
	r.Guard("mixed-batches-with-different-decisions", mixedDiffer >= 1000 || r.ViolationCount() > 0, "%d mixed batches whose two commands get different decisions", mixedDiffer)

	r.Assume("the two ports of the fake store (per-read PermissionStore and PermissionBatchStore) answer from the same fact map; a batch read answers each raw fact exactly as the per-read port would (not-found channel row = Found false, store failure = Err on that read only)")
	r.Assume("documented precedence (internal/usecase/message/FLOW.md, docs/development/PROJECT_KNOWLEDGE.md, docs/superpowers/plans/2026-05-11-send-status-p1.md): system uid: Disband of the source channel, else accept; sender SendBan; system device: Disband, else accept; Disband for every channel type; group: missing row, Ban (legacy: reported before Disband), Disband, denylist, subscriber, non-empty allowlist; person: receiver system uid, receiver denylist, allowlist / AllowStranger when enabled. 'Disbanded first' is read as: Disband is the first channel-derived reason for trusted senders and for every non-group type, and a disbanded channel is never admitted")
	r.Assume("a store failure is reported only if the documented order reaches that read before a decision; later failures are invisible on both paths")
}
