package message_test

// C36 harness, part 1: fake permission store, fact menus and the reference decision
// (the documented reason precedence written out as a boring decision list).

import (
	"context"
	"errors"
	"fmt"
	"strings"

	channelmembers "github.com/WuKongIM/WuKongIM/internal/contracts/channelmembers"
	"github.com/WuKongIM/WuKongIM/internal/usecase/message"
	metadb "github.com/WuKongIM/WuKongIM/pkg/db/meta"
	runtimechannelid "github.com/WuKongIM/WuKongIM/pkg/protocol/channelid"
)

const (
	c36TPerson   uint8 = 1
	c36TGroup    uint8 = 2
	c36TCS       uint8 = 3
	c36TInfo     uint8 = 6
	c36TTemp     uint8 = 8
	c36TVisitors uint8 = 10
	c36TAgent    uint8 = 11
	c36TUnknown  uint8 = 99

	c36SysDevice = "dev-sys"
	c36CmdSuffix = "____cmd"
)

var c36ReasonNames = map[message.Reason]string{
	message.ReasonSuccess:            "Success",
	message.ReasonInvalidRequest:     "InvalidRequest",
	message.ReasonAuthFail:           "AuthFail",
	message.ReasonChannelNotExist:    "ChannelNotExist",
	message.ReasonNodeNotMatch:       "NodeNotMatch",
	message.ReasonSystemError:        "SystemError",
	message.ReasonUnsupported:        "Unsupported",
	message.ReasonSubscriberNotExist: "SubscriberNotExist",
	message.ReasonInBlacklist:        "InBlacklist",
	message.ReasonNotAllowSend:       "NotAllowSend",
	message.ReasonNotInWhitelist:     "NotInWhitelist",
	message.ReasonBan:                "Ban",
	message.ReasonDisband:            "Disband",
	message.ReasonSendBan:            "SendBan",
}

func c36ReasonName(r message.Reason) string {
	if s, ok := c36ReasonNames[r]; ok {
		return s
	}
	return "Reason?"
}

// ---------------------------------------------------------------- fake store

type c36Injected struct{ tag string }

func (e *c36Injected) Error() string { return "c36 injected store error: " + e.tag }

type c36Ans struct {
	found bool
	ch    metadb.Channel
	val   bool
	err   error
}

// c36Store answers every raw permission fact from one map; the per-read port and the
// batch port read the same facts. Absent keys answer "not found" / false.
type c36Store struct {
	m map[message.PermissionRead]c36Ans
}

func c36ChanKey(id string, typ uint8) message.PermissionRead {
	return message.PermissionRead{Kind: message.PermissionReadChannel, ChannelID: id, ChannelType: int64(typ)}
}

func c36ContainsKey(id string, typ uint8, uid string) message.PermissionRead {
	return message.PermissionRead{Kind: message.PermissionReadSubscriberContains, ChannelID: id, ChannelType: int64(typ), UID: uid}
}

func c36HasAnyKey(id string, typ uint8) message.PermissionRead {
	return message.PermissionRead{Kind: message.PermissionReadSubscriberHasAny, ChannelID: id, ChannelType: int64(typ)}
}

func (s *c36Store) GetChannelForPermission(_ context.Context, channelID string, channelType int64) (metadb.Channel, error) {
	a := s.m[message.PermissionRead{Kind: message.PermissionReadChannel, ChannelID: channelID, ChannelType: channelType}]
	if a.err != nil {
		return metadb.Channel{}, a.err
	}
	if !a.found {
		return metadb.Channel{}, metadb.ErrNotFound
	}
	return a.ch, nil
}

func (s *c36Store) ContainsChannelSubscriber(_ context.Context, channelID string, channelType int64, uid string) (bool, error) {
	a := s.m[message.PermissionRead{Kind: message.PermissionReadSubscriberContains, ChannelID: channelID, ChannelType: channelType, UID: uid}]
	if a.err != nil {
		return false, a.err
	}
	return a.val, nil
}

func (s *c36Store) HasChannelSubscribers(_ context.Context, channelID string, channelType int64) (bool, error) {
	a := s.m[message.PermissionRead{Kind: message.PermissionReadSubscriberHasAny, ChannelID: channelID, ChannelType: channelType}]
	if a.err != nil {
		return false, a.err
	}
	return a.val, nil
}

func (s *c36Store) ReadPermissionsBatch(_ context.Context, reads []message.PermissionRead) []message.PermissionReadResult {
	out := make([]message.PermissionReadResult, len(reads))
	for i, rd := range reads {
		a := s.m[rd]
		switch rd.Kind {
		case message.PermissionReadChannel:
			if a.err != nil {
				out[i].Err = a.err
				continue
			}
			out[i].Found = a.found
			if a.found {
				out[i].Channel = a.ch
			}
		case message.PermissionReadSubscriberContains, message.PermissionReadSubscriberHasAny:
			if a.err != nil {
				out[i].Err = a.err
				continue
			}
			out[i].Value = a.val
		default:
			out[i].Err = fmt.Errorf("c36: unexpected permission read kind %d", rd.Kind)
		}
	}
	return out
}

type c36SystemUIDs map[string]bool

func (c c36SystemUIDs) IsSystemUID(uid string) bool { return c[uid] }

// c36Submitter stands for the channel-append router: it records what was admitted.
type c36Submitter struct {
	cmds []message.SendCommand
}

func (s *c36Submitter) Send(_ context.Context, cmd message.SendCommand) (message.SendResult, error) {
	s.cmds = append(s.cmds, cmd)
	return message.SendResult{MessageID: 7, MessageSeq: 1, Reason: message.ReasonSuccess}, nil
}

func (s *c36Submitter) SendBatch(items []message.SendBatchItem) []message.SendBatchItemResult {
	out := make([]message.SendBatchItemResult, len(items))
	for i, it := range items {
		s.cmds = append(s.cmds, it.Command)
		out[i].Result = message.SendResult{MessageID: 7, MessageSeq: 1, Reason: message.ReasonSuccess}
	}
	return out
}

// ---------------------------------------------------------------- outcomes

// c36Outcome is what a caller of Send/SendBatch can observe about the permission decision.
type c36Outcome struct {
	Allowed bool           // the submitter received the command
	Reason  message.Reason // result reason
	Err     string         // "" or the class of the returned error
	Channel string         // channel id handed to the submitter (allowed only)
}

func (o c36Outcome) String() string {
	switch {
	case o.Err != "":
		return "error-" + c36ReasonName(o.Reason) + "(" + o.Err + ")"
	case o.Allowed:
		return "allow"
	default:
		return "reject-" + c36ReasonName(o.Reason)
	}
}

func (o c36Outcome) Long() string {
	if o.Allowed {
		return fmt.Sprintf("%s[channel=%q reason=%s]", o.String(), o.Channel, c36ReasonName(o.Reason))
	}
	return o.String()
}

func c36ErrTag(err error) string {
	if err == nil {
		return ""
	}
	var inj *c36Injected
	switch {
	case errors.As(err, &inj):
		return "injected:" + inj.tag
	case errors.Is(err, runtimechannelid.ErrInvalidPersonChannel):
		return "invalid-person-channel"
	case errors.Is(err, runtimechannelid.ErrInvalidAgentChannel):
		return "invalid-agent-channel"
	case errors.Is(err, message.ErrRouteNotReady):
		return "route-not-ready"
	}
	return "other:" + err.Error()
}

func c36Allow(channel string) c36Outcome {
	return c36Outcome{Allowed: true, Reason: message.ReasonSuccess, Channel: channel}
}
func c36Reject(r message.Reason) c36Outcome { return c36Outcome{Reason: r} }
func c36SysErr(tag string) c36Outcome {
	return c36Outcome{Reason: message.ReasonSystemError, Err: "injected:" + tag}
}

// ---------------------------------------------------------------- fact menus

type c36Cfg struct {
	SysUIDs   bool `json:"system_uids_configured"` // {sys, rsys} are system uids
	SysDevice bool `json:"system_device_configured"`
	Whitelist bool `json:"person_whitelist_enabled"`
}

// row states shared by all channel rows: 0 not found, last = store error.
const (
	c36Tri_False = 0
	c36Tri_True  = 1
	c36Tri_Err   = 2
)

var (
	c36SenderRowNames   = []string{"notfound", "plain", "sendban", "error"}
	c36GroupRowNames    = []string{"notfound", "plain", "ban", "disband", "ban+disband", "error"}
	c36TerminalRowNames = []string{"notfound", "plain", "disband", "error"}
	c36ReceiverRowNames = []string{"notfound", "plain", "allowstranger", "error"}
	c36TriNames         = []string{"false", "true", "error"}
)

func c36B(b bool) int64 {
	if b {
		return 1
	}
	return 0
}

// noise sets the flags the documented rule does NOT look at for that row.
func c36SenderRow(i int, noise bool) c36Ans {
	switch i {
	case 1:
		return c36Ans{found: true, ch: metadb.Channel{Ban: c36B(noise), Disband: c36B(noise), AllowStranger: c36B(noise)}}
	case 2:
		return c36Ans{found: true, ch: metadb.Channel{SendBan: 1, Ban: c36B(noise), Disband: c36B(noise), AllowStranger: c36B(noise)}}
	case 3:
		return c36Ans{err: &c36Injected{tag: "sender-row"}}
	}
	return c36Ans{}
}

func c36GroupRow(i int, noise bool) c36Ans {
	n := metadb.Channel{SendBan: c36B(noise), AllowStranger: c36B(noise)}
	switch i {
	case 1:
		return c36Ans{found: true, ch: n}
	case 2:
		n.Ban = 1
		return c36Ans{found: true, ch: n}
	case 3:
		n.Disband = 1
		return c36Ans{found: true, ch: n}
	case 4:
		n.Ban, n.Disband = 1, 1
		return c36Ans{found: true, ch: n}
	case 5:
		return c36Ans{err: &c36Injected{tag: "channel-row"}}
	}
	return c36Ans{}
}

// terminal rows of non-group channels: only Disband is looked at.
func c36TerminalRow(i int, noise bool) c36Ans {
	n := metadb.Channel{Ban: c36B(noise), SendBan: c36B(noise), AllowStranger: c36B(noise)}
	switch i {
	case 1:
		return c36Ans{found: true, ch: n}
	case 2:
		n.Disband = 1
		return c36Ans{found: true, ch: n}
	case 3:
		return c36Ans{err: &c36Injected{tag: "channel-row"}}
	}
	return c36Ans{}
}

func c36ReceiverRow(i int, noise bool) c36Ans {
	n := metadb.Channel{Ban: c36B(noise), SendBan: c36B(noise), Disband: c36B(noise)}
	switch i {
	case 1:
		return c36Ans{found: true, ch: n}
	case 2:
		n.AllowStranger = 1
		return c36Ans{found: true, ch: n}
	case 3:
		return c36Ans{err: &c36Injected{tag: "receiver-row"}}
	}
	return c36Ans{}
}

func c36Tri(i int, tag string) c36Ans {
	switch i {
	case c36Tri_True:
		return c36Ans{val: true}
	case c36Tri_Err:
		return c36Ans{err: &c36Injected{tag: tag}}
	}
	return c36Ans{}
}

// ---------------------------------------------------------------- one case

type c36Case struct {
	Kind    string                   // group | person | person-malformed | info | ... (fingerprint component)
	Cfg     c36Cfg                   //
	Cmd     message.SendCommand      //
	Facts   func() map[string]string // written-out facts (samples, messages); built on demand
	Store   map[message.PermissionRead]c36Ans
	Want    c36Outcome // documented decision
	Trusted string     // "", "system-uid", "system-device"
	// Disbanded: the documented rule reaches the channel row and finds it disbanded
	// (no earlier store error), so no path may admit the send.
	Disbanded  bool
	NonTrivial bool
}

// ---- the documented decision list -------------------------------------------------
//
// FLOW.md (SendBatch Flow) + PROJECT_KNOWLEDGE.md: system uid => authoritative Disband
// check of the source channel, then bypass; sender SendBan; system device => Disband check,
// then bypass; Disband for every source channel type; then the per-type business checks
// (group: missing row, Ban, Disband, denylist, subscriber, allowlist; person: receiver
// system uid, receiver denylist, optional allowlist / AllowStranger).

type c36Walk struct {
	out     c36Outcome
	decided bool
}

func (w *c36Walk) set(o c36Outcome) {
	if !w.decided {
		w.out, w.decided = o, true
	}
}

// terminal: the only check trusted senders do not bypass.
func (w *c36Walk) terminal(row int, errIdx int, disbandIdx ...int) {
	if w.decided {
		return
	}
	if row == errIdx {
		w.set(c36SysErr("channel-row"))
		return
	}
	for _, d := range disbandIdx {
		if row == d {
			w.set(c36Reject(message.ReasonDisband))
		}
	}
}

func (w *c36Walk) senderBan(row int) {
	if w.decided {
		return
	}
	switch row {
	case 3:
		w.set(c36SysErr("sender-row"))
	case 2:
		w.set(c36Reject(message.ReasonSendBan))
	}
}

func (w *c36Walk) tri(v int, tag string, when int, r message.Reason) {
	if w.decided {
		return
	}
	if v == c36Tri_Err {
		w.set(c36SysErr(tag))
		return
	}
	if v == when {
		w.set(c36Reject(r))
	}
}

// commonMember is the deny / subscriber / allowlist list shared by group and visitors.
func (w *c36Walk) commonMember(denied, sub, hasAllow, entry int) {
	w.tri(denied, "denied", c36Tri_True, message.ReasonInBlacklist)
	w.tri(sub, "subscriber", c36Tri_False, message.ReasonSubscriberNotExist)
	if w.decided {
		return
	}
	if hasAllow == c36Tri_Err {
		w.set(c36SysErr("has-allowlist"))
		return
	}
	if hasAllow == c36Tri_False {
		return
	}
	w.tri(entry, "allow-entry", c36Tri_False, message.ReasonNotInWhitelist)
}

func c36TrustedKind(cfg c36Cfg, sender, device string) string {
	if cfg.SysUIDs && (sender == "sys" || sender == "rsys") {
		return "system-uid"
	}
	if cfg.SysDevice && device == c36SysDevice {
		return "system-device"
	}
	return ""
}

func c36NewApp(cfg c36Cfg, store *c36Store, sub *c36Submitter, batch bool, cached bool) *message.App {
	opts := message.Options{Submitter: sub, PermissionStore: store, PersonWhitelistEnabled: cfg.Whitelist}
	if cfg.SysUIDs {
		opts.SystemUIDs = c36SystemUIDs{"sys": true, "rsys": true}
	}
	if cfg.SysDevice {
		opts.SystemDeviceID = c36SysDevice
	}
	if batch {
		opts.PermissionBatchStore = store
	}
	if cached {
		opts.PermissionCacheTTL = 3600e9
		opts.Now = c36FixedNow
	}
	return message.New(opts)
}

func c36WithSuffix(id string, suffix bool) string {
	if suffix {
		return id + c36CmdSuffix
	}
	return id
}

func c36FactString(f map[string]string, order []string) string {
	parts := make([]string, 0, len(order))
	for _, k := range order {
		if v, ok := f[k]; ok {
			parts = append(parts, k+"="+v)
		}
	}
	return strings.Join(parts, " ")
}

// ---------------------------------------------------------------- group cases

type c36GroupFacts struct {
	Cfg                          c36Cfg
	Sender, Device               string
	Suffix, Noise                bool
	SenderRow, GroupRow          int
	Denied, Sub, HasAllow, Entry int
	Group                        string
}

func c36GroupWant(f c36GroupFacts) (c36Outcome, bool) {
	w := &c36Walk{}
	channel := c36WithSuffix(f.Group, f.Suffix)
	trusted := c36TrustedKind(f.Cfg, f.Sender, f.Device)
	disbandReached := false
	rowDisbanded := f.GroupRow == 3 || f.GroupRow == 4
	if trusted == "system-uid" {
		disbandReached = rowDisbanded
		w.terminal(f.GroupRow, 5, 3, 4)
		w.set(c36Allow(channel))
		return w.out, disbandReached
	}
	w.senderBan(f.SenderRow)
	if !w.decided {
		disbandReached = rowDisbanded
	}
	if trusted == "system-device" {
		w.terminal(f.GroupRow, 5, 3, 4)
		w.set(c36Allow(channel))
		return w.out, disbandReached
	}
	if !w.decided {
		switch f.GroupRow {
		case 5:
			w.set(c36SysErr("channel-row"))
		case 0:
			w.set(c36Reject(message.ReasonChannelNotExist))
		case 2, 4: // legacy order kept by the plan documents: Ban is reported before Disband
			w.set(c36Reject(message.ReasonBan))
		case 3:
			w.set(c36Reject(message.ReasonDisband))
		}
	}
	w.commonMember(f.Denied, f.Sub, f.HasAllow, f.Entry)
	w.set(c36Allow(channel))
	return w.out, disbandReached
}

func c36GroupCase(f c36GroupFacts) c36Case {
	key := channelmembers.ChannelKey{ChannelID: f.Group, ChannelType: c36TGroup}
	deny, allow := channelmembers.DenylistChannelID(key), channelmembers.AllowlistChannelID(key)
	st := map[message.PermissionRead]c36Ans{
		c36ChanKey(f.Sender, c36TPerson):             c36SenderRow(f.SenderRow, f.Noise),
		c36ChanKey(f.Group, c36TGroup):               c36GroupRow(f.GroupRow, f.Noise),
		c36ContainsKey(deny, c36TGroup, f.Sender):    c36Tri(f.Denied, "denied"),
		c36ContainsKey(f.Group, c36TGroup, f.Sender): c36Tri(f.Sub, "subscriber"),
		c36HasAnyKey(allow, c36TGroup):               c36Tri(f.HasAllow, "has-allowlist"),
		c36ContainsKey(allow, c36TGroup, f.Sender):   c36Tri(f.Entry, "allow-entry"),
	}
	want, disb := c36GroupWant(f)
	return c36Case{
		Kind: "group", Cfg: f.Cfg,
		Cmd: message.SendCommand{FromUID: f.Sender, DeviceID: f.Device, ChannelID: c36WithSuffix(f.Group, f.Suffix), ChannelType: c36TGroup,
			Payload: []byte("p"), ClientMsgNo: "m1"},
		Facts: func() map[string]string {
			return map[string]string{"sender": f.Sender, "device": f.Device, "channel": c36WithSuffix(f.Group, f.Suffix), "type": "group",
				"sender_row": c36SenderRowNames[f.SenderRow], "channel_row": c36GroupRowNames[f.GroupRow], "denylisted": c36TriNames[f.Denied],
				"subscriber": c36TriNames[f.Sub], "allowlist_nonempty": c36TriNames[f.HasAllow], "allowlisted": c36TriNames[f.Entry],
				"irrelevant_flags_set": fmt.Sprint(f.Noise)}
		},
		Store: st, Want: want, Trusted: c36TrustedKind(f.Cfg, f.Sender, f.Device), Disbanded: disb,
		NonTrivial: f.SenderRow != 0 || f.GroupRow > 1 || f.Denied != 0 || f.Sub != 1 || f.HasAllow != 0,
	}
}

// ---------------------------------------------------------------- person cases

type c36PersonFacts struct {
	Cfg                    c36Cfg
	Sender, Peer, Device   string
	Form                   int // 0 bare peer uid+normalize, 1 canonical+normalize, 2 reversed+normalize, 3 canonical as-is, 4 reversed as-is
	Suffix, Noise          bool
	SenderRow, TermRow     int
	Denied, Entry, RecvRow int
}

var c36FormNames = []string{"peer-uid/normalize", "canonical/normalize", "reversed/normalize", "canonical/as-is", "reversed/as-is"}

func c36PersonIDs(f c36PersonFacts) (given, effective string, normalize bool) {
	canonical := runtimechannelid.EncodePersonChannel(f.Sender, f.Peer)
	l, r, _ := runtimechannelid.DecodePersonChannel(canonical)
	reversed := r + "@" + l
	switch f.Form {
	case 0:
		return f.Peer, canonical, true
	case 1:
		return canonical, canonical, true
	case 2:
		return reversed, canonical, true
	case 3:
		return canonical, canonical, false
	default:
		return reversed, reversed, false
	}
}

func c36PersonWant(f c36PersonFacts) (c36Outcome, bool) {
	_, effective, _ := c36PersonIDs(f)
	channel := c36WithSuffix(effective, f.Suffix)
	w := &c36Walk{}
	trusted := c36TrustedKind(f.Cfg, f.Sender, f.Device)
	disbandReached := false
	if trusted == "system-uid" {
		disbandReached = f.TermRow == 2
		w.terminal(f.TermRow, 3, 2)
		w.set(c36Allow(channel))
		return w.out, disbandReached
	}
	w.senderBan(f.SenderRow)
	if !w.decided {
		disbandReached = f.TermRow == 2
	}
	w.terminal(f.TermRow, 3, 2)
	if trusted == "system-device" {
		w.set(c36Allow(channel))
		return w.out, disbandReached
	}
	if f.Cfg.SysUIDs && f.Peer == "rsys" { // receiver is a system uid
		w.set(c36Allow(channel))
		return w.out, disbandReached
	}
	w.tri(f.Denied, "denied", c36Tri_True, message.ReasonInBlacklist)
	if !f.Cfg.Whitelist {
		w.set(c36Allow(channel))
		return w.out, disbandReached
	}
	if !w.decided {
		switch f.Entry {
		case c36Tri_Err:
			w.set(c36SysErr("allow-entry"))
		case c36Tri_True:
			w.set(c36Allow(channel))
		}
	}
	if !w.decided {
		switch f.RecvRow {
		case 3:
			w.set(c36SysErr("receiver-row"))
		case 2:
			w.set(c36Allow(channel))
		default:
			w.set(c36Reject(message.ReasonNotInWhitelist))
		}
	}
	return w.out, disbandReached
}

func c36PersonCase(f c36PersonFacts) c36Case {
	given, effective, normalize := c36PersonIDs(f)
	key := channelmembers.ChannelKey{ChannelID: f.Peer, ChannelType: c36TPerson}
	deny, allow := channelmembers.DenylistChannelID(key), channelmembers.AllowlistChannelID(key)
	st := map[message.PermissionRead]c36Ans{
		c36ChanKey(f.Sender, c36TPerson):            c36SenderRow(f.SenderRow, f.Noise),
		c36ChanKey(effective, c36TPerson):           c36TerminalRow(f.TermRow, f.Noise),
		c36ContainsKey(deny, c36TPerson, f.Sender):  c36Tri(f.Denied, "denied"),
		c36ContainsKey(allow, c36TPerson, f.Sender): c36Tri(f.Entry, "allow-entry"),
		c36ChanKey(f.Peer, c36TPerson):              c36ReceiverRow(f.RecvRow, f.Noise),
	}
	want, disb := c36PersonWant(f)
	return c36Case{
		Kind: "person", Cfg: f.Cfg,
		Cmd: message.SendCommand{FromUID: f.Sender, DeviceID: f.Device, ChannelID: c36WithSuffix(given, f.Suffix), ChannelType: c36TPerson,
			NormalizePersonChannel: normalize, Payload: []byte("p"), ClientMsgNo: "m1"},
		Facts: func() map[string]string {
			return map[string]string{"sender": f.Sender, "device": f.Device, "channel": c36WithSuffix(given, f.Suffix), "type": "person",
				"channel_form": c36FormNames[f.Form], "receiver": f.Peer,
				"sender_row": c36SenderRowNames[f.SenderRow], "channel_row": c36TerminalRowNames[f.TermRow], "denylisted": c36TriNames[f.Denied],
				"allowlisted": c36TriNames[f.Entry], "receiver_row": c36ReceiverRowNames[f.RecvRow], "irrelevant_flags_set": fmt.Sprint(f.Noise)}
		},
		Store: st, Want: want, Trusted: c36TrustedKind(f.Cfg, f.Sender, f.Device), Disbanded: disb,
		NonTrivial: f.SenderRow != 0 || f.TermRow > 1 || f.Denied != 0 || (f.Cfg.Whitelist && (f.Entry != 1)),
	}
}

// ---------------------------------------------------------------- malformed person channel ids

type c36MalformedFacts struct {
	Cfg                c36Cfg
	Sender, Device     string
	IDIndex            int
	Suffix             bool
	SenderRow, TermRow int
}

type c36BadID struct {
	id        string
	normalize bool
	// normalizeFails: NormalizePersonChannel rejects it (nothing is read before that).
	normalizeFails bool
}

// sender is u1 or sys; ids never contain the sender unless noted.
var c36BadIDs = []c36BadID{
	{id: "", normalize: true, normalizeFails: true},
	{id: "u2@u3", normalize: true, normalizeFails: true},    // sender is not a member
	{id: "u2@u3@u4", normalize: true, normalizeFails: true}, // three parts
	{id: "@u2", normalize: true, normalizeFails: true},
	{id: "u2@", normalize: true, normalizeFails: true},
	{id: "u2", normalize: false},       // as-is id without separator: undecodable
	{id: "u2@u3@u4", normalize: false}, // as-is, three parts
	{id: "@u2", normalize: false},
	{id: "u2@", normalize: false},
}

func c36MalformedCase(f c36MalformedFacts) c36Case {
	bad := c36BadIDs[f.IDIndex]
	w := &c36Walk{}
	invalid := c36Outcome{Reason: message.ReasonSuccess, Err: "invalid-person-channel"}
	trusted := c36TrustedKind(f.Cfg, f.Sender, f.Device)
	disb := false
	if bad.normalizeFails {
		w.set(invalid)
	} else if trusted == "system-uid" {
		disb = f.TermRow == 2
		w.terminal(f.TermRow, 3, 2)
		w.set(c36Allow(c36WithSuffix(bad.id, f.Suffix)))
	} else {
		w.senderBan(f.SenderRow)
		if !w.decided {
			disb = f.TermRow == 2
		}
		w.terminal(f.TermRow, 3, 2)
		if trusted == "system-device" {
			w.set(c36Allow(c36WithSuffix(bad.id, f.Suffix)))
		}
		w.set(invalid) // receiver cannot be derived from the id
	}
	st := map[message.PermissionRead]c36Ans{
		c36ChanKey(f.Sender, c36TPerson): c36SenderRow(f.SenderRow, false),
		c36ChanKey(bad.id, c36TPerson):   c36TerminalRow(f.TermRow, false),
	}
	return c36Case{
		Kind: "person-malformed", Cfg: f.Cfg,
		Cmd: message.SendCommand{FromUID: f.Sender, DeviceID: f.Device, ChannelID: c36WithSuffix(bad.id, f.Suffix), ChannelType: c36TPerson,
			NormalizePersonChannel: bad.normalize, Payload: []byte("p"), ClientMsgNo: "m1"},
		Facts: func() map[string]string {
			return map[string]string{"sender": f.Sender, "device": f.Device, "channel": c36WithSuffix(bad.id, f.Suffix), "type": "person",
				"channel_form": fmt.Sprintf("malformed/normalize=%v", bad.normalize),
				"sender_row":   c36SenderRowNames[f.SenderRow], "channel_row": c36TerminalRowNames[f.TermRow]}
		},
		Store: st, Want: w.out, Trusted: trusted, Disbanded: disb, NonTrivial: true,
	}
}

// ---------------------------------------------------------------- other channel types (fallback path in both entry points)

type c36OtherFacts struct {
	Cfg                          c36Cfg
	Type                         uint8
	Sender, Device               string
	Variant                      int
	Suffix                       bool
	SenderRow, TermRow           int
	Denied, Sub, HasAllow, Entry int
}

var c36AgentIDs = []string{"u1@agent-a", "agent-a@u1", "u3@agent-a", "not-an-agent-id"}

func c36OtherTypeName(t uint8) string {
	switch t {
	case c36TCS:
		return "customer-service"
	case c36TInfo:
		return "info"
	case c36TTemp:
		return "temp"
	case c36TVisitors:
		return "visitors"
	case c36TAgent:
		return "agent"
	}
	return "unknown-type"
}

func c36OtherCase(f c36OtherFacts) c36Case {
	id := "c1"
	switch f.Type {
	case c36TAgent:
		id = c36AgentIDs[f.Variant]
	case c36TVisitors:
		if f.Variant == 0 {
			id = f.Sender // a visitor writing to its own channel
		} else {
			id = "v9"
		}
	}
	channel := c36WithSuffix(id, f.Suffix)
	trusted := c36TrustedKind(f.Cfg, f.Sender, f.Device)
	w := &c36Walk{}
	disb := false
	if trusted == "system-uid" {
		disb = f.TermRow == 2
		w.terminal(f.TermRow, 3, 2)
		w.set(c36Allow(channel))
	} else {
		w.senderBan(f.SenderRow)
		if !w.decided {
			disb = f.TermRow == 2
		}
		w.terminal(f.TermRow, 3, 2)
		if trusted == "system-device" {
			w.set(c36Allow(channel))
		}
		switch f.Type {
		case c36TAgent:
			if !w.decided {
				l, r, err := runtimechannelid.DecodeAgentChannel(id)
				switch {
				case err != nil:
					w.set(c36Outcome{Reason: message.ReasonSuccess, Err: "invalid-agent-channel"})
				case f.Sender != l && f.Sender != r:
					w.set(c36Reject(message.ReasonNotAllowSend))
				}
			}
		case c36TVisitors:
			if f.Variant != 0 {
				w.commonMember(f.Denied, f.Sub, f.HasAllow, f.Entry)
			}
		}
		w.set(c36Allow(channel))
	}
	st := map[message.PermissionRead]c36Ans{
		c36ChanKey(f.Sender, c36TPerson): c36SenderRow(f.SenderRow, false),
	}
	// the sender row of a visitor writing to its own id is (id, person); the channel row is (id, visitors): distinct keys.
	st[c36ChanKey(id, f.Type)] = c36TerminalRow(f.TermRow, false)
	if f.Type == c36TVisitors {
		key := channelmembers.ChannelKey{ChannelID: id, ChannelType: c36TCS}
		deny, allow := channelmembers.DenylistChannelID(key), channelmembers.AllowlistChannelID(key)
		st[c36ContainsKey(deny, c36TCS, f.Sender)] = c36Tri(f.Denied, "denied")
		st[c36ContainsKey(id, c36TCS, f.Sender)] = c36Tri(f.Sub, "subscriber")
		st[c36HasAnyKey(allow, c36TCS)] = c36Tri(f.HasAllow, "has-allowlist")
		st[c36ContainsKey(allow, c36TCS, f.Sender)] = c36Tri(f.Entry, "allow-entry")
	}
	facts := func() map[string]string {
		m := map[string]string{"sender": f.Sender, "device": f.Device, "channel": channel, "type": c36OtherTypeName(f.Type),
			"sender_row": c36SenderRowNames[f.SenderRow], "channel_row": c36TerminalRowNames[f.TermRow]}
		if f.Type == c36TVisitors && f.Variant != 0 {
			m["denylisted"], m["subscriber"] = c36TriNames[f.Denied], c36TriNames[f.Sub]
			m["allowlist_nonempty"], m["allowlisted"] = c36TriNames[f.HasAllow], c36TriNames[f.Entry]
		}
		return m
	}
	return c36Case{
		Kind: c36OtherTypeName(f.Type), Cfg: f.Cfg,
		Cmd:   message.SendCommand{FromUID: f.Sender, DeviceID: f.Device, ChannelID: channel, ChannelType: f.Type, Payload: []byte("p"), ClientMsgNo: "m1"},
		Facts: facts, Store: st, Want: w.out, Trusted: trusted, Disbanded: disb,
		NonTrivial: f.SenderRow != 0 || f.TermRow > 1 || f.Type == c36TAgent || f.Type == c36TVisitors,
	}
}
