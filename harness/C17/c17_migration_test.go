package fsm_test

// C17 - Channel migration cutover is fenced and irreversible.
//
// Explicit-state BFS (engine mc) over the real slot state machine (pkg/slot/fsm) on a real
// metadb.DB: every sequence of channel-migration commands up to the depth bound, for three
// task ids (T1 leader transfer 1->2, T2 replica replace 3->4, T3 = the transfer 1->2 re-created
// under a fresh id) on one channel, with merging on the state read back through the metadb API
// (all task rows + the runtime meta row + both active-index answers + oracle bookkeeping).
// The task-only bookkeeping commands (claim, advance) are also sent for tasks that are already
// terminal while a successor task is active: the store accepts them, so they belong to the
// command language. Every transition is one real ApplyBatch. Requests are built from the rows
// read back before the command (fresh) or with exactly one stale field. A fence request names the
// phase the executor would name and, from every fenced phase, also the pre-cutover fence phases of
// the task's kind (a request that would put a cut-over task back where it can be aborted).
// Batch events put the failover upsert of the runtime meta and ONE migration command built against the
// meta before it into one ApplyBatch (one meta write batch) and compare with one-per-batch application.
// A second system (after-promotion) explores the same alphabet from the state right after the
// accepted promotion of T2, which the first system reaches only at depth 6.
//
// Each explored instance owns one fresh hash slot (and the physical slot id hashSlot+1) of a
// Pebble DB that it holds exclusively while it lives: rows of different instances never share
// a key prefix, so an instance is a fresh key namespace without paying a DB open per
// transition; a DB is replaced when its 16-bit hash-slot space is used up.

import (
	"context"
	"encoding/json"
	"errors"
	"fmt"
	"io"
	"log"
	"os"
	"reflect"
	"sort"
	"strings"
	"sync"
	"sync/atomic"
	"testing"

	metadb "github.com/WuKongIM/WuKongIM/pkg/db/meta"
	"github.com/WuKongIM/WuKongIM/pkg/slot/fsm"
	"github.com/WuKongIM/WuKongIM/pkg/slot/multiraft"
	"github.com/WuKongIM/WuKongIM/pkg/zzverif/ev"
	"github.com/WuKongIM/WuKongIM/pkg/zzverif/mc"
)

const (
	c17Chan           = "c"
	c17ChanType int64 = 2
	c17FenceUntil     = int64(5000)
	c17Now            = int64(1000) // inside the fence lease
	c17NowExpired     = int64(6000) // after the fence lease
)

var c17Ctx = context.Background()

// ---------------------------------------------------------------- DB arenas (one live instance per DB)

// The metadb commit coordinator builds all requests that arrive within its flush window into one
// engine batch and fails them together; two instances must therefore never commit into the same
// DB concurrently. An arena is checked out exclusively by one instance at a time.
type c17Arena struct {
	dir  string
	db   *metadb.DB
	next int // next free hash slot
}

var (
	c17Mu     sync.Mutex
	c17Free   []*c17Arena
	c17All    []*c17Arena
	c17Base   string
	c17Arenas atomic.Int64
	c17Quiet  sync.Once
)

const c17SlotsPerArena = 60000

func c17OpenArena() *c17Arena { // caller holds c17Mu
	n := c17Arenas.Add(1)
	dir := fmt.Sprintf("%s/a%d", c17Base, n)
	db, err := metadb.Open(dir)
	if err != nil {
		panic(fmt.Sprintf("c17 harness: open arena: %v", err))
	}
	a := &c17Arena{dir: dir, db: db}
	c17All = append(c17All, a)
	return a
}

func c17Alloc() (*c17Arena, uint16) {
	c17Quiet.Do(func() { log.SetOutput(io.Discard) })
	c17Mu.Lock()
	defer c17Mu.Unlock()
	if c17Base == "" {
		d, err := os.MkdirTemp("/dev/shm", "verif-c17-")
		if err != nil {
			if d, err = os.MkdirTemp("", "verif-c17-"); err != nil {
				panic(err)
			}
		}
		c17Base = d
	}
	var a *c17Arena
	if n := len(c17Free); n > 0 {
		a, c17Free = c17Free[n-1], c17Free[:n-1]
	} else {
		a = c17OpenArena()
	}
	if a.next >= c17SlotsPerArena { // hash-slot space used up: replace the DB
		_ = a.db.Close()
		a.db = nil
		_ = os.RemoveAll(a.dir)
		a = c17OpenArena()
	}
	hs := uint16(a.next)
	a.next++
	return a, hs
}

func c17Release(a *c17Arena) {
	c17Mu.Lock()
	c17Free = append(c17Free, a)
	c17Mu.Unlock()
}

func c17Shutdown() {
	c17Mu.Lock()
	defer c17Mu.Unlock()
	for _, a := range c17All {
		if a.db != nil {
			_ = a.db.Close()
			a.db = nil
		}
	}
	if c17Base != "" {
		_ = os.RemoveAll(c17Base)
	}
}

// ---------------------------------------------------------------- instance

type c17View struct {
	Tasks  map[string]metadb.ChannelMigrationTask // existing task rows by id
	Meta   metadb.ChannelRuntimeMeta
	Active string // id returned by GetActiveChannelMigrationTask ("" = none)
	Listed []string // ids returned by ListActiveChannelMigrationTasks, in the order returned
}

type c17Stats struct {
	commitOK, promoteOK, commitRefused, promoteRefused                 atomic.Int64
	staleProofRefused                                                   [4]atomic.Int64 // fv, ce, le, ld
	staleGuardRefused                                                   atomic.Int64
	naturalStaleRefused                                                 atomic.Int64
	abortOK, abortAfterCutoverRefused, createRefusedActive, foreignTries atomic.Int64
	fenceSet, fenceCleared, fenceReset, gcDeleted, learnerAdded          atomic.Int64
	// bookkeeping commands on terminal tasks (index 0 claim, 1 adv, 2 fail): accepted while another task is active
	terminalTouchedWithSuccessor                                        [3]atomic.Int64
	reviveOK, reviveRefusedActive                                       atomic.Int64
	createRefusedActiveBesideTerminal, createOKBesideTouchedTerminal    atomic.Int64
	// fence requests on a task whose cutover was accepted and that stands in a post-cutover phase
	renewAfterCutoverOK, rewindAfterCutoverRefused atomic.Int64
	// batch events [failover upsert | one migration command built against the old meta] in ONE ApplyBatch
	batchPairRefused    [7]atomic.Int64 // by c17BatchKinds index: the migration command answered stale_meta (batch == one per batch)
	batchCutoverWasReady [2]atomic.Int64 // commit / promote whose proof and guard matched the meta before the failover of the same batch
}

// c17BatchKinds: the migration commands that read the runtime meta through the shared stage.
var c17BatchKinds = []string{"setfence", "resetfence", "clearfence", "commit", "addlearner", "promote", "abort"}

// c17Space is the key namespace (one hash slot of one arena) shared by an instance and the
// successors cloned from it.
type c17Space struct {
	arena *c17Arena
	hs    uint16
	slot  uint64
	sm    multiraft.StateMachine
	shard *metadb.ShardStore
	snap  []byte // hash-slot snapshot of the parent state (taken at the first Clone)
	dirty bool   // a clone has applied an event since the namespace last held the parent state
}

type c17Inst struct {
	st    *c17Stats
	sp    *c17Space
	clone bool
	index uint64
	v     c17View
	cut   map[string]bool // task id -> its cutover (commit / promote) was accepted in this incarnation
	back  map[string]string // task id -> command that moved the task out of a post-cutover phase after its cutover was accepted
}

var c17TaskIDs = []string{"T1", "T2", "T3"}

// c17LT: the task is a leader transfer 1->2 (T1, and T3 = the same transfer re-created under a
// fresh id); T2 is the replica replace 3->4.
func c17LT(id string) bool { return id != "T2" }

// Bounds on the bookkeeping commands sent for a task that is already terminal (set per tier).
var (
	c17TouchBound  int64 = 1     // rewrites per terminal incarnation of a task (UpdatedAtMS - CompletedAtMS), sent while another task is active
	c17ReviveAlone       = false // revive also while no other task of the channel is active (then the task really becomes active again)
)

func c17SeedMeta() metadb.ChannelRuntimeMeta {
	return metadb.ChannelRuntimeMeta{ChannelID: c17Chan, ChannelType: c17ChanType, ChannelEpoch: 1, LeaderEpoch: 1,
		Replicas: []uint64{1, 2, 3}, ISR: []uint64{1, 2, 3}, Leader: 1, MinISR: 2, Status: 1, Features: 1, LeaseUntilMS: 900}
}

func c17NewTask(id string) metadb.ChannelMigrationTask {
	t := metadb.ChannelMigrationTask{TaskID: id, Status: metadb.ChannelMigrationStatusRunning, ChannelID: c17Chan, ChannelType: c17ChanType,
		BaseChannelEpoch: 1, BaseLeaderEpoch: 1, CreatedAtMS: 100, UpdatedAtMS: 100}
	if c17LT(id) {
		t.Kind, t.Phase = metadb.ChannelMigrationKindLeaderTransfer, metadb.ChannelMigrationPhaseWriteFence
		t.SourceNode, t.TargetNode, t.DesiredLeader = 1, 2, 2
	} else {
		t.Kind, t.Phase = metadb.ChannelMigrationKindReplicaReplace, metadb.ChannelMigrationPhaseAddLearner
		t.SourceNode, t.TargetNode = 3, 4
	}
	return t
}

func c17New(st *c17Stats) mc.Instance {
	a, hs := c17Alloc()
	sp := &c17Space{arena: a, hs: hs, slot: uint64(hs) + 1}
	in := &c17Inst{st: st, sp: sp, cut: map[string]bool{}, back: map[string]string{}}
	sm, err := fsm.NewStateMachineWithHashSlots(a.db, sp.slot, []uint16{hs})
	if err != nil {
		panic(fmt.Sprintf("c17 harness: state machine: %v", err))
	}
	sp.sm = sm
	sp.shard = a.db.ForHashSlot(hs)
	if res, err := in.apply(fsm.EncodeUpsertChannelRuntimeMetaCommand(c17SeedMeta())); err != nil || res != fsm.ApplyResultOK {
		panic(fmt.Sprintf("c17 harness: seeding runtime meta: %q %v", res, err))
	}
	in.v = in.read()
	return in
}

// c17Promoted is the shortest history of the alphabet that ends with the accepted promotion of
// the replica replace T2 (6 commands); the second system explores every continuation of it.
var c17Promoted = []string{"create:T2", "addlearner:T2", "adv:T2:fresh", "setfence:T2", "adv:T2:fresh", "promote:T2:fresh"}

// c17NewAt builds a fresh instance and runs the given history on it (through Apply, oracles included).
func c17NewAt(st *c17Stats, history []string) mc.Instance {
	in := c17New(st).(*c17Inst)
	for _, e := range history {
		enabled := false
		for _, x := range in.Events() {
			enabled = enabled || x == e
		}
		if !enabled {
			panic(fmt.Sprintf("c17 harness: start history %v: %s is not enabled", history, e))
		}
		if _, err := in.Apply(e, nil); err != nil {
			panic(fmt.Sprintf("c17 harness: start history %v: %s: %v", history, e, err))
		}
		if err := in.Check(); err != nil {
			panic(fmt.Sprintf("c17 harness: start history %v: after %s: %v", history, e, err))
		}
	}
	return in
}

func (in *c17Inst) Close() {
	if !in.clone {
		c17Release(in.sp.arena)
	}
}

// Clone produces the parent state again for the next successor: the first clone takes the
// hash-slot snapshot of the parent state, later clones restore it into the namespace through
// the real snapshot import (the clones of one parent are used strictly one after the other).
func (in *c17Inst) Clone() mc.Instance {
	sp := in.sp
	if in.clone {
		panic("c17 harness: clone of a clone")
	}
	if sp.snap == nil {
		snap, err := sp.arena.db.ExportHashSlotSnapshot(c17Ctx, []uint16{sp.hs})
		if err != nil {
			panic(fmt.Sprintf("c17 harness: export: %v", err))
		}
		sp.snap = snap.Data
	}
	if sp.dirty {
		if err := sp.arena.db.ImportHashSlotSnapshot(c17Ctx, metadb.SlotSnapshot{HashSlots: []uint16{sp.hs}, Data: append([]byte(nil), sp.snap...)}); err != nil {
			panic(fmt.Sprintf("c17 harness: import: %v", err))
		}
		sp.dirty = false
	}
	c := &c17Inst{st: in.st, sp: sp, clone: true, index: in.index, v: in.v, cut: map[string]bool{}, back: map[string]string{}}
	for k, b := range in.cut {
		c.cut[k] = b
	}
	for k, b := range in.back {
		c.back[k] = b
	}
	return c
}

func (in *c17Inst) apply(data []byte) (string, error) {
	in.index++
	if in.clone {
		in.sp.dirty = true
	} else {
		in.sp.snap = nil
	}
	res, err := in.sp.sm.(multiraft.BatchStateMachine).ApplyBatch(c17Ctx, []multiraft.Command{{SlotID: multiraft.SlotID(in.sp.slot), HashSlot: in.sp.hs, Index: in.index, Term: 1, Data: data}})
	if err != nil {
		return "", err
	}
	return string(res[0]), nil
}

// read reads the observable state back through the metadb API.
func (in *c17Inst) read() c17View {
	v := c17View{Tasks: map[string]metadb.ChannelMigrationTask{}}
	rows, err := in.sp.shard.ListChannelMigrationTasks(c17Ctx)
	if err != nil {
		panic(fmt.Sprintf("c17 harness: ListChannelMigrationTasks: %v", err))
	}
	for _, t := range rows {
		v.Tasks[t.TaskID] = t
	}
	m, err := in.sp.shard.GetChannelRuntimeMeta(c17Ctx, c17Chan, c17ChanType)
	if err != nil {
		panic(fmt.Sprintf("c17 harness: GetChannelRuntimeMeta: %v", err))
	}
	v.Meta = metadb.NormalizeChannelRuntimeMeta(m)
	act, ok, err := in.sp.shard.GetActiveChannelMigrationTask(c17Ctx, c17Chan, c17ChanType)
	if err != nil {
		panic(fmt.Sprintf("c17 harness: GetActiveChannelMigrationTask: %v", err))
	}
	if ok {
		v.Active = act.TaskID
	}
	listed, err := in.sp.shard.ListActiveChannelMigrationTasks(c17Ctx, 16)
	if err != nil {
		panic(fmt.Sprintf("c17 harness: ListActiveChannelMigrationTasks: %v", err))
	}
	for _, t := range listed {
		v.Listed = append(v.Listed, t.ChannelID+"/"+t.TaskID)
	}
	return v
}

func (in *c17Inst) Canon() string {
	type canon struct {
		Tasks  map[string]metadb.ChannelMigrationTask // encoding/json writes map keys in sorted order
		Meta   metadb.ChannelRuntimeMeta
		Active string
		Listed []string
		Cut    []string
		Back   map[string]string `json:",omitempty"`
	}
	c := canon{Tasks: in.v.Tasks, Meta: in.v.Meta, Active: in.v.Active, Listed: in.v.Listed, Back: in.back}
	for id, b := range in.cut {
		if b {
			c.Cut = append(c.Cut, id)
		}
	}
	sort.Strings(c.Cut)
	b, err := json.Marshal(c)
	if err != nil {
		panic(err)
	}
	return string(b)
}

// ---------------------------------------------------------------- alphabet

var c17StaleFields = []string{"fv", "ce", "le", "ld"}

func c17ProofPhase(t metadb.ChannelMigrationTask) bool { // phases from which the next advance records the drain proof
	if c17LT(t.TaskID) {
		return t.Phase == metadb.ChannelMigrationPhaseDrainLeader || t.Phase == metadb.ChannelMigrationPhaseCommitLeaderMeta
	}
	return t.Phase == metadb.ChannelMigrationPhaseCutoverFence || t.Phase == metadb.ChannelMigrationPhasePromoteAndRemove
}

func c17CutoverPhase(t metadb.ChannelMigrationTask) bool {
	if c17LT(t.TaskID) {
		return t.Phase == metadb.ChannelMigrationPhaseCommitLeaderMeta
	}
	return t.Phase == metadb.ChannelMigrationPhasePromoteAndRemove
}

func (in *c17Inst) Events() []string {
	var evs []string
	for _, id := range c17TaskIDs {
		t, ok := in.v.Tasks[id]
		if _, t1 := in.v.Tasks["T1"]; !ok && id == "T3" && !t1 {
			continue // T3 is T1 under a fresh id: creating it while no row T1 exists is the same history up to renaming
		}
		if !ok && id == "T3" {
			evs = append(evs, "create:T3") // the guarded creates and the abort of an absent task are exercised with T1 / T2
			continue
		}
		if !ok {
			evs = append(evs, "create:"+id, "gcreate:"+id+":fresh", "gcreate:"+id+":stale-le", "gcreate:"+id+":stale-fv", "abort:"+id)
			continue
		}
		evs = append(evs, "create:"+id)
		// The task-only bookkeeping commands (claim, advance) carry no terminal-state check in the
		// store, so they stay in the alphabet after the task became terminal: claim (first claim
		// or renewal), fail, adv (every variant; on a terminal task it keeps status and phase)
		// and revive (an advance back to Running).
		if t.IsActive() {
			if t.OwnerNodeID != 1 {
				evs = append(evs, "claim:"+id)
			}
			evs = append(evs, "fail:"+id)
			if _, ok := c17NextPhase(t); ok {
				evs = append(evs, "adv:"+id+":fresh")
			}
		}
		successor := false // another task of the channel is active
		for oid, o := range in.v.Tasks {
			successor = successor || (oid != id && o.IsActive())
		}
		touch := !t.IsActive() && successor && t.UpdatedAtMS-t.CompletedAtMS < c17TouchBound
		if touch {
			evs = append(evs, "claim:"+id, "adv:"+id+":fresh", "fail:"+id)
		}
		if !t.IsActive() && (successor || c17ReviveAlone) {
			evs = append(evs, "revive:"+id)
		}
		evs = append(evs, "setfence:"+id, "resetfence:"+id, "clearfence:"+id)
		if c17LT(id) {
			evs = append(evs, "commit:"+id+":fresh")
		} else {
			evs = append(evs, "addlearner:T2", "promote:T2:fresh")
		}
		evs = append(evs, "abort:"+id)
		// A fence request names the phase the task continues in. Besides the executor's choice
		// (plain setfence: first fence of the task, or a renewal in the current phase) the request
		// is sent naming the first fenced phase and the cutover phase of the task's kind, from every
		// fenced phase the task is in - in particular from the post-cutover phases, where an accepted
		// request would put a committed / promoted task back into a phase that can be aborted.
		if c17FencedPhase(t) {
			for _, ft := range c17FenceTargets(id) {
				if ft.phase != t.Phase {
					evs = append(evs, "setfence:"+id+":to-"+ft.name)
				}
			}
		}
		if c17ProofPhase(t) && (t.IsActive() || touch) {
			for _, f := range c17StaleFields {
				evs = append(evs, "adv:"+id+":stale-"+f)
			}
		}
		if c17CutoverPhase(t) {
			for _, f := range c17StaleFields {
				if c17LT(id) {
					evs = append(evs, "commit:"+id+":guard-"+f)
				} else {
					evs = append(evs, "promote:T2:guard-"+f)
				}
			}
		}
		// ONE ApplyBatch carrying [runtime-meta upsert (failover: leader epoch + 1) | one migration command
		// built against the meta read BEFORE the batch], for every command kind that reads the runtime meta.
		// Judged differentially against the same two commands applied one per batch. The successor is the
		// state of meta:leader-epoch+1 on a correct store, so these events add transitions, not states.
		if t.IsActive() && in.v.Meta.LeaderEpoch < 3 {
			for _, k := range c17BatchKinds {
				if lt := c17LT(id); (k == "commit" && !lt) || ((k == "addlearner" || k == "promote") && lt) {
					continue
				}
				evs = append(evs, "batch:"+id+":"+k)
			}
		}
	}
	evs = append(evs, "gc")
	if in.v.Meta.LeaderEpoch < 3 {
		evs = append(evs, "meta:leader-epoch+1")
	}
	return evs
}

type c17FenceTarget struct {
	name  string
	phase metadb.ChannelMigrationPhase
}

// c17FenceTargets lists the pre-cutover phases of the task's kind in which the harness's tasks hold
// a fence (both are phases AbortChannelMigration accepts): the first fenced phase and the cutover phase.
func c17FenceTargets(id string) []c17FenceTarget {
	if c17LT(id) {
		return []c17FenceTarget{{"drain", metadb.ChannelMigrationPhaseDrainLeader}, {"commitmeta", metadb.ChannelMigrationPhaseCommitLeaderMeta}}
	}
	return []c17FenceTarget{{"cutoverfence", metadb.ChannelMigrationPhaseCutoverFence}, {"promote", metadb.ChannelMigrationPhasePromoteAndRemove}}
}

// c17FencedPhase: the task stands in one of the phases reached through a fence request (the
// pre-cutover fence targets and the post-cutover phases).
func c17FencedPhase(t metadb.ChannelMigrationTask) bool {
	for _, ft := range c17FenceTargets(t.TaskID) {
		if t.Phase == ft.phase {
			return true
		}
	}
	return c17PostCutoverPhase(t.Phase)
}

// c17DefaultFencePhase is the phase the executor's fence request names: the first fenced phase
// when the task stands right before it, otherwise the current phase (a renewal).
func c17DefaultFencePhase(t metadb.ChannelMigrationTask) metadb.ChannelMigrationPhase {
	phase := t.Phase
	if c17LT(t.TaskID) && t.Phase == metadb.ChannelMigrationPhaseWriteFence {
		phase = metadb.ChannelMigrationPhaseDrainLeader
	}
	if t.TaskID == "T2" && t.Phase == metadb.ChannelMigrationPhaseWarmCatchUp {
		phase = metadb.ChannelMigrationPhaseCutoverFence
	}
	if phase == 0 {
		phase = metadb.ChannelMigrationPhaseDrainLeader
	}
	return phase
}

func c17PostCutoverPhase(p metadb.ChannelMigrationPhase) bool {
	return p == metadb.ChannelMigrationPhaseVerifyNewLeader || p == metadb.ChannelMigrationPhaseVerifyMembership || p == metadb.ChannelMigrationPhaseClearFence
}

// c17NextPhase is the phase an executor advance moves to from t.Phase (task-only advances).
func c17NextPhase(t metadb.ChannelMigrationTask) (metadb.ChannelMigrationPhase, bool) {
	if !t.IsActive() {
		return 0, false
	}
	if c17LT(t.TaskID) {
		switch t.Phase {
		case metadb.ChannelMigrationPhaseDrainLeader, metadb.ChannelMigrationPhaseCommitLeaderMeta:
			return metadb.ChannelMigrationPhaseCommitLeaderMeta, true // (re-)drain, record the proof
		}
		return 0, false
	}
	switch t.Phase {
	case metadb.ChannelMigrationPhaseBootstrapTarget:
		return metadb.ChannelMigrationPhaseWarmCatchUp, true
	case metadb.ChannelMigrationPhaseCutoverFence, metadb.ChannelMigrationPhasePromoteAndRemove:
		return metadb.ChannelMigrationPhasePromoteAndRemove, true
	}
	return 0, false
}

func c17Guard(t metadb.ChannelMigrationTask, id string) metadb.ChannelMigrationTaskGuard {
	g := metadb.ChannelMigrationTaskGuard{ChannelID: c17Chan, ChannelType: c17ChanType, TaskID: id, ExpectedStatus: t.Status, ExpectedPhase: t.Phase,
		ExpectedOwnerNodeID: t.OwnerNodeID, ExpectedOwnerLeaseUntilMS: t.OwnerLeaseUntilMS, ExpectedUpdatedAtMS: t.UpdatedAtMS}
	if g.ExpectedStatus == 0 { // task does not exist: any well-formed guard
		g.ExpectedStatus, g.ExpectedPhase, g.ExpectedUpdatedAtMS = metadb.ChannelMigrationStatusRunning, metadb.ChannelMigrationPhaseValidate, 100
	}
	return g
}

func c17RuntimeGuard(m metadb.ChannelRuntimeMeta, stale string) metadb.ChannelMigrationRuntimeGuard {
	g := metadb.ChannelMigrationRuntimeGuard{ChannelID: c17Chan, ChannelType: c17ChanType, ExpectedChannelEpoch: m.ChannelEpoch, ExpectedLeaderEpoch: m.LeaderEpoch,
		ExpectedLeader: m.Leader, ExpectedFenceToken: m.WriteFenceToken, ExpectedFenceVersion: m.WriteFenceVersion}
	switch stale {
	case "fv":
		g.ExpectedFenceVersion = c17Older(m.WriteFenceVersion)
	case "ce":
		g.ExpectedChannelEpoch = c17Older(m.ChannelEpoch)
	case "le":
		g.ExpectedLeaderEpoch = c17Older(m.LeaderEpoch)
	case "ld":
		g.ExpectedLeader = c17OtherNode(m.Leader)
	}
	return g
}

func c17Older(v uint64) uint64 {
	if v > 1 {
		return v - 1
	}
	return v + 1
}

func c17OtherNode(n uint64) uint64 {
	if n == 1 {
		return 2
	}
	return 1
}

func c17Proof(t metadb.ChannelMigrationTask, m metadb.ChannelRuntimeMeta, stale string) metadb.ChannelMigrationCutoverProof {
	p := metadb.ChannelMigrationCutoverProof{CutoverLEO: 10, CutoverHW: 10, DrainedLeaderNode: m.Leader, DrainedRuntimeGeneration: m.RouteGeneration,
		DrainedChannelEpoch: m.ChannelEpoch, DrainedLeaderEpoch: m.LeaderEpoch, DrainedFenceVersion: t.FenceVersion}
	switch stale {
	case "fv":
		p.DrainedFenceVersion = c17Older(t.FenceVersion)
	case "ce":
		p.DrainedChannelEpoch = c17Older(m.ChannelEpoch)
	case "le":
		p.DrainedLeaderEpoch = c17Older(m.LeaderEpoch)
	case "ld":
		p.DrainedLeaderNode = c17OtherNode(m.Leader)
	}
	return p
}

// c17ProofMismatch lists the property's four proof fields in which the proof recorded in the
// task row differs from the runtime meta row.
func c17ProofMismatch(t metadb.ChannelMigrationTask, m metadb.ChannelRuntimeMeta) []string {
	var bad []string
	if t.DrainedFenceVersion == 0 || t.DrainedFenceVersion != m.WriteFenceVersion || m.WriteFenceToken != t.TaskID {
		bad = append(bad, "fence-version")
	}
	if t.DrainedChannelEpoch != m.ChannelEpoch {
		bad = append(bad, "channel-epoch")
	}
	if t.DrainedLeaderEpoch != m.LeaderEpoch {
		bad = append(bad, "leader-epoch")
	}
	if t.DrainedLeaderNode != m.Leader {
		bad = append(bad, "leader")
	}
	return bad
}

// encode builds the command of one event from the rows read back before it.
func (in *c17Inst) encode(evl string) (data []byte, id, op, variant string) {
	parts := strings.Split(evl, ":")
	op = parts[0]
	if len(parts) > 1 {
		id = parts[1]
	}
	if len(parts) > 2 {
		variant = parts[2]
	}
	m := in.v.Meta
	t := in.v.Tasks[id] // zero value when absent
	g := c17Guard(t, id)
	up := t.UpdatedAtMS + 1
	if up <= 1 {
		up = 101
	}
	stale := ""
	if i := strings.IndexByte(variant, '-'); i >= 0 {
		stale = variant[i+1:]
	}
	run := metadb.ChannelMigrationStatusRunning
	switch op {
	case "create":
		data = fsm.EncodeCreateChannelMigrationTaskCommand(c17NewTask(id))
	case "gcreate":
		data = fsm.EncodeCreateChannelMigrationTaskWithRuntimeGuardCommand(metadb.ChannelMigrationTaskCreate{Task: c17NewTask(id), RuntimeGuard: c17RuntimeGuard(m, stale)})
	case "claim":
		data = fsm.EncodeClaimChannelMigrationTaskCommand(metadb.ChannelMigrationTaskClaim{Guard: g, Status: t.Status, Phase: t.Phase, OwnerNodeID: 1, OwnerLeaseUntilMS: 900, NowMS: 150, UpdatedAtMS: up})
	case "fail":
		done := up
		if t.TaskID != "" && !t.IsActive() {
			done = t.CompletedAtMS // already terminal: the completion time is kept
		}
		data = fsm.EncodeAdvanceChannelMigrationTaskCommand(metadb.ChannelMigrationTaskAdvance{Guard: g, Status: metadb.ChannelMigrationStatusFailed, Phase: t.Phase, UpdatedAtMS: up, CompletedAtMS: done, LastError: "failed"})
	case "revive":
		// an advance that puts a terminal task back to Running in the phase it stopped in
		data = fsm.EncodeAdvanceChannelMigrationTaskCommand(metadb.ChannelMigrationTaskAdvance{Guard: g, Status: run, Phase: t.Phase, UpdatedAtMS: up})
	case "adv":
		next, ok := c17NextPhase(t)
		if !ok {
			next = t.Phase
		}
		adv := metadb.ChannelMigrationTaskAdvance{Guard: g, Status: run, Phase: next, UpdatedAtMS: up}
		if t.TaskID != "" && !t.IsActive() {
			// bookkeeping on a task that is already terminal: status, phase and completion time are kept
			adv.Status, adv.CompletedAtMS, adv.LastError = t.Status, t.CompletedAtMS, t.LastError
			if c17ProofPhase(t) {
				adv.CutoverProof = c17Proof(t, m, stale)
				adv.Progress = metadb.ChannelMigrationProgress{LeaderLEO: 10, LeaderHW: 10}
			}
		} else if next == metadb.ChannelMigrationPhaseCommitLeaderMeta || next == metadb.ChannelMigrationPhasePromoteAndRemove {
			adv.CutoverProof = c17Proof(t, m, stale)
			adv.Progress = metadb.ChannelMigrationProgress{LeaderLEO: 10, LeaderHW: 10}
		}
		data = fsm.EncodeAdvanceChannelMigrationTaskCommand(adv)
	case "setfence":
		phase := c17DefaultFencePhase(t)
		for _, ft := range c17FenceTargets(id) {
			if variant == "to-"+ft.name {
				phase = ft.phase
			}
		}
		data = fsm.EncodeSetChannelWriteFenceCommand(metadb.ChannelMigrationFenceRequest{Guard: g, RuntimeGuard: c17RuntimeGuard(m, ""), Status: run, Phase: phase, FenceReason: 1, FenceUntilMS: c17FenceUntil, UpdatedAtMS: up})
	case "resetfence":
		phase := metadb.ChannelMigrationPhaseWriteFence
		if id == "T2" {
			phase = metadb.ChannelMigrationPhaseWarmCatchUp
		}
		data = fsm.EncodeResetChannelWriteFenceToPreCutoverCommand(metadb.ChannelMigrationResetFenceRequest{Guard: g, RuntimeGuard: c17RuntimeGuard(m, ""), Status: run, Phase: phase, NowMS: c17NowExpired, UpdatedAtMS: up})
	case "clearfence":
		data = fsm.EncodeClearChannelWriteFenceCommand(metadb.ChannelMigrationClearFenceRequest{Guard: g, RuntimeGuard: c17RuntimeGuard(m, ""), Status: metadb.ChannelMigrationStatusCompleted, Phase: metadb.ChannelMigrationPhaseClearFence, UpdatedAtMS: up, CompletedAtMS: up})
	case "commit":
		data = fsm.EncodeCommitChannelLeaderTransferCommand(metadb.ChannelMigrationLeaderTransferRequest{Guard: g, RuntimeGuard: c17RuntimeGuard(m, stale), Status: run, Phase: metadb.ChannelMigrationPhaseVerifyNewLeader,
			DesiredLeader: 2, NextLeaderEpoch: m.LeaderEpoch + 1, LeaseUntilMS: 9000, NowMS: c17Now, UpdatedAtMS: up})
	case "addlearner":
		data = fsm.EncodeAddChannelLearnerCommand(metadb.ChannelMigrationAddLearnerRequest{Guard: g, RuntimeGuard: c17RuntimeGuard(m, ""), Status: run, Phase: metadb.ChannelMigrationPhaseBootstrapTarget, TargetNode: 4, UpdatedAtMS: up})
	case "promote":
		data = fsm.EncodePromoteLearnerAndRemoveReplicaCommand(metadb.ChannelMigrationPromoteLearnerRequest{Guard: g, RuntimeGuard: c17RuntimeGuard(m, stale), Status: run, Phase: metadb.ChannelMigrationPhaseVerifyMembership,
			SourceNode: 3, TargetNode: 4, NowMS: c17Now, UpdatedAtMS: up})
	case "abort":
		phase := t.Phase
		if phase == 0 {
			phase = metadb.ChannelMigrationPhaseValidate
		}
		data = fsm.EncodeAbortChannelMigrationCommand(metadb.ChannelMigrationAbortRequest{Guard: g, RuntimeGuard: c17RuntimeGuard(m, ""), Status: metadb.ChannelMigrationStatusAborted, Phase: phase, UpdatedAtMS: up, CompletedAtMS: up, LastError: "abort"})
	case "gc":
		data = fsm.EncodeGarbageCollectTerminalChannelMigrationTasksCommand(metadb.ChannelMigrationTaskGCRequest{BeforeMS: 1 << 40, Limit: 10})
	case "meta":
		next := c17SeedMeta()
		next.ChannelEpoch, next.LeaderEpoch, next.Leader, next.Replicas, next.ISR, next.MinISR, next.LeaseUntilMS = m.ChannelEpoch, m.LeaderEpoch+1, m.Leader, m.Replicas, m.ISR, m.MinISR, m.LeaseUntilMS
		// The command encoding fills an absent route generation with max(channel epoch, leader epoch, fence version),
		// which the store then treats as a caller-supplied generation and ignores as stale once fence commands
		// advanced the row's generation: the failover names the generation of the row it was computed from.
		next.RouteGeneration = m.RouteGeneration
		data = fsm.EncodeUpsertChannelRuntimeMetaCommand(next)
	default:
		panic("c17: unknown event " + evl)
	}
	return data, id, op, variant
}

func c17FenceOf(m metadb.ChannelRuntimeMeta) string {
	return fmt.Sprintf("%s/v%d/r%d/u%d", m.WriteFenceToken, m.WriteFenceVersion, m.WriteFenceReason, m.WriteFenceUntilMS)
}

func c17Set(v []uint64) string { return fmt.Sprint(v) }

// applyRaw applies the commands as ONE ApplyBatch and returns the answers joined by ","; an error is part of the answer.
func (in *c17Inst) applyRaw(datas ...[]byte) string {
	if in.clone {
		in.sp.dirty = true
	} else {
		in.sp.snap = nil
	}
	cmds := make([]multiraft.Command, len(datas))
	for i, d := range datas {
		in.index++
		cmds[i] = multiraft.Command{SlotID: multiraft.SlotID(in.sp.slot), HashSlot: in.sp.hs, Index: in.index, Term: 1, Data: d}
	}
	res, err := in.sp.sm.(multiraft.BatchStateMachine).ApplyBatch(c17Ctx, cmds)
	if err != nil {
		return "error(" + err.Error() + ")"
	}
	out := make([]string, len(res))
	for i, r := range res {
		out[i] = string(r)
	}
	return strings.Join(out, ",")
}

// applyBatchPair: the event batch:<task>:<kind>. The failover upsert and the migration command (both built
// from the rows read back before the event) are applied one per batch, the answers and the state are
// recorded, the namespace is put back to the state before the event through the real snapshot import, and
// the same two commands are applied as ONE ApplyBatch. Batch and one-per-batch must agree (no hand-written
// expectation); the state kept is the batch's.
func (in *c17Inst) applyBatchPair(evl string) (string, error) {
	parts := strings.SplitN(evl, ":", 3)
	id, kind := parts[1], parts[2]
	inner := kind + ":" + id
	if kind == "commit" || kind == "promote" {
		inner += ":fresh"
	}
	pre := in.v
	preT := pre.Tasks[id]
	metaCmd, _, _, _ := in.encode("meta:leader-epoch+1")
	migCmd, _, _, _ := in.encode(inner)
	sp := in.sp
	snap, err := sp.arena.db.ExportHashSlotSnapshot(c17Ctx, []uint16{sp.hs})
	if err != nil {
		panic(fmt.Sprintf("c17 harness: export: %v", err))
	}
	seqRes := in.applyRaw(metaCmd) + "," + in.applyRaw(migCmd)
	seq := in.read()
	if err := sp.arena.db.ImportHashSlotSnapshot(c17Ctx, metadb.SlotSnapshot{HashSlots: []uint16{sp.hs}, Data: append([]byte(nil), snap.Data...)}); err != nil {
		panic(fmt.Sprintf("c17 harness: import: %v", err))
	}
	if back := in.read(); !reflect.DeepEqual(back, pre) {
		panic(fmt.Sprintf("c17 harness: snapshot import did not restore the state before %s", evl))
	}
	batchRes := in.applyRaw(metaCmd, migCmd)
	post := in.read()
	in.v = post
	obs := "batch:" + kind + ":" + batchRes
	if batchRes != seqRes || !reflect.DeepEqual(seq, post) {
		what := "state"
		if batchRes != seqRes {
			what = "answer"
		}
		return obs, mc.Violatef("C17:batch-after-failover-differs-from-one-per-batch:"+kind+":"+what,
			"%s: one ApplyBatch [failover upsert leader epoch %d -> %d | %s built against the meta before it] answered %q and left leader %d/e%d fence %s task status %d phase %d; the same two commands applied one per batch answer %q and leave leader %d/e%d fence %s task status %d phase %d",
			evl, pre.Meta.LeaderEpoch, pre.Meta.LeaderEpoch+1, inner, batchRes, post.Meta.Leader, post.Meta.LeaderEpoch, c17FenceOf(post.Meta), post.Tasks[id].Status, post.Tasks[id].Phase,
			seqRes, seq.Meta.Leader, seq.Meta.LeaderEpoch, c17FenceOf(seq.Meta), seq.Tasks[id].Status, seq.Tasks[id].Phase)
	}
	// the migration command's runtime guard and drain proof name the leader epoch before the failover: it must not take effect
	if !reflect.DeepEqual(pre.Tasks, post.Tasks) || post.Meta.Leader != pre.Meta.Leader || c17FenceOf(post.Meta) != c17FenceOf(pre.Meta) ||
		c17Set(post.Meta.ISR) != c17Set(pre.Meta.ISR) || c17Set(post.Meta.Replicas) != c17Set(pre.Meta.Replicas) {
		return obs, mc.Violatef("C17:command-with-pre-failover-guard-took-effect:"+kind, "%s: %s carries the runtime guard of leader epoch %d but changed tasks / leader / fence / membership after the failover to epoch %d (answers %q)",
			evl, inner, pre.Meta.LeaderEpoch, pre.Meta.LeaderEpoch+1, batchRes)
	}
	if post.Meta.LeaderEpoch != pre.Meta.LeaderEpoch+1 {
		return obs, mc.Violatef("C17:failover-staged-before-migration-command-lost:"+kind, "%s: leader epoch %d after the batch, the failover set %d (answers %q, one per batch %q; meta before %+v, after %+v)", evl, post.Meta.LeaderEpoch, pre.Meta.LeaderEpoch+1, batchRes, seqRes, pre.Meta, post.Meta)
	}
	if batchRes == fsm.ApplyResultOK+","+fsm.ApplyResultStaleMeta {
		for i, k := range c17BatchKinds {
			if k == kind {
				in.st.batchPairRefused[i].Add(1)
			}
		}
		if (kind == "commit" || kind == "promote") && c17CutoverPhase(preT) && len(c17ProofMismatch(preT, pre.Meta)) == 0 {
			in.st.batchCutoverWasReady[map[string]int{"commit": 0, "promote": 1}[kind]].Add(1)
		}
	}
	return obs, nil
}

func (in *c17Inst) Apply(evl string, _ *mc.Env) (string, error) {
	if strings.HasPrefix(evl, "batch:") {
		return in.applyBatchPair(evl)
	}
	pre := in.v
	data, id, op, variant := in.encode(evl)
	res, err := in.apply(data)
	if err != nil {
		// every command of the alphabet is well-formed and owned: an ApplyBatch error would fail-stop the slot
		in.v = in.read()
		if errors.Is(err, metadb.ErrInvalidArgument) {
			return "invalid-argument", nil // request refused as invalid (no state change is checked below)
		}
		return "", mc.Violatef("C17:command-error:"+op, "%s: ApplyBatch error %v", evl, err)
	}
	post := in.read()
	in.v = post
	preT, preHad := pre.Tasks[id]
	postT, postHas := post.Tasks[id]
	changed := !reflect.DeepEqual(pre, post)
	obs := op + ":" + res
	if variant != "" {
		obs = op + ":" + variant + ":" + res
	}
	if changed {
		obs += ":changed"
	}

	// ---- O4: a fence is only changed by its owner (or set while nobody holds one)
	if c17FenceOf(pre.Meta) != c17FenceOf(post.Meta) {
		owner := pre.Meta.WriteFenceToken
		if owner != "" && owner != id {
			return obs, mc.Violatef("C17:foreign-fence-changed:"+op, "%s changed the write fence owned by task %s: %s -> %s", evl, owner, c17FenceOf(pre.Meta), c17FenceOf(post.Meta))
		}
		if owner == "" && post.Meta.WriteFenceToken != id {
			return obs, mc.Violatef("C17:fence-set-for-other-task:"+op, "%s set a fence for %q", evl, post.Meta.WriteFenceToken)
		}
		if post.Meta.WriteFenceVersion <= pre.Meta.WriteFenceVersion {
			return obs, mc.Violatef("C17:fence-version-not-increased:"+op, "%s changed the fence but version %d -> %d", evl, pre.Meta.WriteFenceVersion, post.Meta.WriteFenceVersion)
		}
	}
	if owner := pre.Meta.WriteFenceToken; owner != "" && id != "" && owner != id && preHad {
		in.st.foreignTries.Add(1)
	}

	// ---- O1: leadership / membership only move through a cutover whose recorded proof matches the current meta
	leaderMoved := pre.Meta.Leader != post.Meta.Leader || (op != "meta" && pre.Meta.LeaderEpoch != post.Meta.LeaderEpoch)
	isrMoved := c17Set(pre.Meta.ISR) != c17Set(post.Meta.ISR)
	replicasMoved := c17Set(pre.Meta.Replicas) != c17Set(post.Meta.Replicas)
	cutover := false
	switch {
	case op == "commit" && leaderMoved:
		cutover = true
	case op == "promote" && (isrMoved || replicasMoved):
		cutover = true
	case leaderMoved || isrMoved:
		return obs, mc.Violatef("C17:leader-or-isr-changed-without-cutover:"+op, "%s moved leader %d/e%d -> %d/e%d, ISR %v -> %v", evl, pre.Meta.Leader, pre.Meta.LeaderEpoch, post.Meta.Leader, post.Meta.LeaderEpoch, pre.Meta.ISR, post.Meta.ISR)
	case replicasMoved && op != "addlearner" && op != "abort":
		return obs, mc.Violatef("C17:replicas-changed-without-cutover:"+op, "%s moved replicas %v -> %v", evl, pre.Meta.Replicas, post.Meta.Replicas)
	}
	if op == "commit" || op == "promote" {
		mismatch := []string(nil)
		if preHad {
			mismatch = c17ProofMismatch(preT, pre.Meta)
		} else {
			mismatch = []string{"no-task"}
		}
		guardStale := strings.HasPrefix(variant, "guard-")
		if cutover {
			if len(mismatch) > 0 {
				return obs, mc.Violatef("C17:cutover-with-stale-proof:"+op+":"+strings.Join(mismatch, "+"), "%s was accepted although the drain proof recorded in the task (fenceVersion=%d channelEpoch=%d leaderEpoch=%d leader=%d) does not match the channel (fence=%s channelEpoch=%d leaderEpoch=%d leader=%d): mismatch %v",
					evl, preT.DrainedFenceVersion, preT.DrainedChannelEpoch, preT.DrainedLeaderEpoch, preT.DrainedLeaderNode, c17FenceOf(pre.Meta), pre.Meta.ChannelEpoch, pre.Meta.LeaderEpoch, pre.Meta.Leader, mismatch)
			}
			if guardStale {
				return obs, mc.Violatef("C17:cutover-with-stale-runtime-guard:"+op+":"+variant, "%s was accepted although its runtime guard does not describe the current channel meta", evl)
			}
			if !c17CutoverPhase(preT) || !preT.IsActive() {
				return obs, mc.Violatef("C17:cutover-outside-cutover-phase:"+op, "%s accepted in status %d phase %d", evl, preT.Status, preT.Phase)
			}
			in.cut[id] = true
			if op == "commit" {
				in.st.commitOK.Add(1)
			} else {
				in.st.promoteOK.Add(1)
			}
		} else {
			if changed && res == fsm.ApplyResultOK {
				return obs, mc.Violatef("C17:cutover-command-changed-state-without-cutover:"+op, "%s changed the state without moving leader/membership", evl)
			}
			if op == "commit" {
				in.st.commitRefused.Add(1)
			} else {
				in.st.promoteRefused.Add(1)
			}
			if preHad && c17CutoverPhase(preT) && !guardStale {
				for i, f := range []string{"fence-version", "channel-epoch", "leader-epoch", "leader"} {
					if len(mismatch) == 1 && mismatch[0] == f {
						in.st.staleProofRefused[i].Add(1)
					}
				}
			}
			if guardStale && preHad && c17CutoverPhase(preT) && len(mismatch) == 0 {
				in.st.staleGuardRefused.Add(1)
			}
		}
	}

	// ---- O3: a task whose cutover was accepted can no longer be aborted
	if op == "abort" {
		aborted := postHas && postT.Status == metadb.ChannelMigrationStatusAborted && (!preHad || preT.Status != metadb.ChannelMigrationStatusAborted)
		if aborted {
			if in.cut[id] {
				where := "task-back-in-pre-cutover-phase" // (put back by a fence reset)
				if by := in.back[id]; by != "" && by != "resetfence" {
					where = "task-rewound-by-" + by // the command that moved the cut-over task back to a pre-cutover phase
				}
				if c17PostCutoverPhase(preT.Phase) {
					where = "in-post-cutover-phase"
				}
				return obs, mc.Violatef("C17:abort-after-cutover:"+where, "%s aborted task %s (phase %d at the abort) after its cutover was committed", evl, id, preT.Phase)
			}
			in.st.abortOK.Add(1)
		} else {
			if changed {
				return obs, mc.Violatef("C17:refused-abort-changed-state", "%s did not abort but changed the state", evl)
			}
			if in.cut[id] {
				in.st.abortAfterCutoverRefused.Add(1)
			}
		}
	}

	// which command moved a task whose cutover was accepted out of the post-cutover phases (names the
	// defect in the fingerprint of the abort that follows; the move itself is not what the property forbids)
	if op != "abort" && in.cut[id] && preHad && postHas && c17PostCutoverPhase(preT.Phase) && !c17PostCutoverPhase(postT.Phase) {
		in.back[id] = op
	}
	if op == "setfence" && preHad {
		accepted := changed && post.Meta.WriteFenceToken == id && post.Meta.WriteFenceVersion > pre.Meta.WriteFenceVersion
		switch {
		case variant == "" && in.cut[id] && preT.IsActive() && c17PostCutoverPhase(preT.Phase) && accepted:
			in.st.renewAfterCutoverOK.Add(1)
		case variant != "" && in.cut[id] && preT.IsActive() && c17PostCutoverPhase(preT.Phase) && pre.Meta.WriteFenceToken == id && !changed:
			in.st.rewindAfterCutoverRefused.Add(1)
		}
	}

	// ---- task-only commands never touch the runtime meta row
	switch op {
	case "create", "gcreate", "claim", "fail", "adv", "revive", "gc":
		if !reflect.DeepEqual(pre.Meta, post.Meta) {
			return obs, mc.Violatef("C17:task-only-command-changed-runtime-meta:"+op, "%s changed the runtime meta row", evl)
		}
	}
	otherActive, otherTouchedTerminal := false, false
	for oid, o := range pre.Tasks {
		if oid == id {
			continue
		}
		if o.IsActive() {
			otherActive = true
		} else {
			if o.UpdatedAtMS > o.CompletedAtMS { // rewritten by a bookkeeping command after it became terminal
				otherTouchedTerminal = true
			}
		}
	}
	if (op == "create" || op == "gcreate") && !preHad {
		if otherActive && !postHas {
			in.st.createRefusedActive.Add(1)
			if otherTouchedTerminal {
				in.st.createRefusedActiveBesideTerminal.Add(1)
			}
		}
		if !otherActive && otherTouchedTerminal && postHas {
			in.st.createOKBesideTouchedTerminal.Add(1)
		}
		if op == "gcreate" && variant != "fresh" && postHas {
			return obs, mc.Violatef("C17:guarded-create-with-stale-guard:"+variant, "%s created the task although its runtime guard is stale", evl)
		}
	}
	// bookkeeping commands on a task that is already terminal (vacuity counters; the state oracles are in Check)
	if preHad && !preT.IsActive() {
		switch op {
		case "claim", "adv", "fail":
			if changed && postHas && !postT.IsActive() {
				if otherActive {
					in.st.terminalTouchedWithSuccessor[map[string]int{"claim": 0, "adv": 1, "fail": 2}[op]].Add(1)
				}
			}
		case "revive":
			switch {
			case postHas && postT.IsActive():
				in.st.reviveOK.Add(1)
			case otherActive && !changed:
				in.st.reviveRefusedActive.Add(1)
			}
		}
	}
	// bookkeeping for the vacuity guards
	switch {
	case op == "setfence" && changed && post.Meta.WriteFenceToken == id:
		in.st.fenceSet.Add(1)
	case op == "clearfence" && changed && post.Meta.WriteFenceToken == "":
		in.st.fenceCleared.Add(1)
	case op == "resetfence" && changed && post.Meta.WriteFenceToken == "":
		in.st.fenceReset.Add(1)
	case op == "gc" && len(post.Tasks) < len(pre.Tasks):
		in.st.gcDeleted.Add(1)
	case op == "addlearner" && replicasMoved:
		in.st.learnerAdded.Add(1)
	}
	if op == "commit" && !cutover && preHad && c17CutoverPhase(preT) && len(c17ProofMismatch(preT, pre.Meta)) > 0 && variant == "fresh" && preT.DrainedLeaderEpoch != 0 && preT.DrainedLeaderEpoch == pre.Meta.LeaderEpoch-1 {
		in.st.naturalStaleRefused.Add(1)
	}
	// a task row that disappeared (GC) starts a new incarnation
	for _, t := range c17TaskIDs {
		if _, ok := post.Tasks[t]; !ok {
			delete(in.cut, t)
			delete(in.back, t)
		}
	}
	return obs, nil
}

// Check evaluates the state invariants.
func (in *c17Inst) Check() error {
	v := in.v
	var active []string
	for _, id := range c17TaskIDs {
		if t, ok := v.Tasks[id]; ok && t.IsActive() {
			active = append(active, id)
		}
	}
	if len(v.Tasks) > len(c17TaskIDs) {
		return mc.Violatef("C17:unexpected-task-rows", "%d task rows", len(v.Tasks))
	}
	if len(active) > 1 {
		return mc.Violatef("C17:two-active-tasks", "tasks %v are both active on channel %s", active, c17Chan)
	}
	if len(active) == 1 && v.Active != active[0] {
		return mc.Violatef("C17:active-index-misses-active-task", "task %s is active but GetActiveChannelMigrationTask returns %q", active[0], v.Active)
	}
	if len(active) == 0 && v.Active != "" {
		return mc.Violatef("C17:active-index-returns-terminal-task", "no task is active but GetActiveChannelMigrationTask returns %q", v.Active)
	}
	// the active listing of the hash slot is exactly the set of non-terminal task rows (one channel: at most one entry)
	var want []string
	for _, id := range active {
		want = append(want, c17Chan+"/"+id)
	}
	if !reflect.DeepEqual(want, v.Listed) {
		return mc.Violatef("C17:active-list-disagrees-with-task-rows", "non-terminal task rows %v but ListActiveChannelMigrationTasks returns %v", want, v.Listed)
	}
	for id, c := range in.cut {
		if t, ok := v.Tasks[id]; c && ok && t.Status == metadb.ChannelMigrationStatusAborted {
			return mc.Violatef("C17:aborted-after-cutover-state", "task %s is aborted although its cutover was committed", id)
		}
	}
	m := v.Meta
	inSet := func(s []uint64, x uint64) bool {
		for _, y := range s {
			if y == x {
				return true
			}
		}
		return false
	}
	if m.Leader != 0 && !inSet(m.ISR, m.Leader) {
		return mc.Violatef("C17:leader-not-in-isr", "leader %d not in ISR %v", m.Leader, m.ISR)
	}
	for _, x := range m.ISR {
		if !inSet(m.Replicas, x) {
			return mc.Violatef("C17:isr-not-within-replicas", "ISR %v not within replicas %v", m.ISR, m.Replicas)
		}
	}
	if m.MinISR <= 0 || int(m.MinISR) > len(m.ISR) || int(m.MinISR) > len(m.Replicas) {
		return mc.Violatef("C17:min-isr-not-satisfiable", "MinISR %d with ISR %v replicas %v", m.MinISR, m.ISR, m.Replicas)
	}
	if m.Leader == 0 {
		return mc.Violatef("C17:leader-lost", "runtime meta has no leader")
	}
	if m.WriteFenceToken != "" {
		// a fence always names a task row that still carries it (a terminal owner may leave an orphan fence behind; that is
		// not forbidden by the property, so only the "names a known task" part is checked)
		if _, ok := v.Tasks[m.WriteFenceToken]; !ok && m.WriteFenceToken != "T1" && m.WriteFenceToken != "T2" && m.WriteFenceToken != "T3" {
			return mc.Violatef("C17:fence-names-unknown-task", "fence token %q", m.WriteFenceToken)
		}
	}
	return nil
}

// c17ReviveAccepted runs one scripted history (a vacuity guard, not a deciding step): the revive
// command of the alphabet is accepted by the store when no other task is active.
func c17ReviveAccepted() bool {
	in := c17New(&c17Stats{}).(*c17Inst)
	defer in.Close()
	for _, e := range []string{"create:T1", "fail:T1", "revive:T1"} {
		if _, err := in.Apply(e, nil); err != nil {
			return false
		}
	}
	t, ok := in.v.Tasks["T1"]
	return ok && t.IsActive() && in.v.Active == "T1"
}

func TestVerifC17(t *testing.T) {
	r := ev.Start(t, "C17")
	defer r.Finish()
	defer c17Shutdown()
	defer func() {
		if p := recover(); p != nil {
			r.HarnessError("harness panic: %v", p)
		}
	}()
	st := &c17Stats{}
	c17TouchBound, c17ReviveAlone = 1, r.Thorough()
	// System after-promotion: every continuation of the accepted promotion of T2. The promotion is 6
	// commands deep, so the system migration-commands sees only what one more command (quick) does to a
	// promoted task; here the promoted state is the root and the whole alphabet is explored from it.
	// It is small and runs first, so that the time budget of the tier can only cut the large system.
	st2 := &c17Stats{}
	start := c17NewAt(&c17Stats{}, c17Promoted).(*c17Inst)
	t2 := start.v.Tasks["T2"]
	startOK := start.cut["T2"] && t2.IsActive() && t2.Phase == metadb.ChannelMigrationPhaseVerifyMembership && start.v.Meta.WriteFenceToken == "T2" &&
		c17Set(start.v.Meta.Replicas) == c17Set([]uint64{1, 2, 4}) && c17Set(start.v.Meta.ISR) == c17Set([]uint64{1, 2, 4})
	start.Close()
	r.Guard("after-promotion-root-is-the-promoted-state", startOK, "history %v must end with T2 promoted (VerifyMembership, fence held, replicas = ISR = {1,2,4})", c17Promoted)
	res2 := mc.Run(r, mc.System{
		Name:      "after-promotion",
		New:       func() mc.Instance { return c17NewAt(st2, c17Promoted) },
		MaxDepth:  ev.Pick(r, 3, 4),
		MaxStates: ev.Pick(r, int64(50000), int64(500000)),
		Bounds: map[string]any{"root": strings.Join(c17Promoted, " ; "), "alphabet": "as in migration-commands (all three task ids)"},
		Note:   "same instance, alphabet, oracles and merging as migration-commands; the root is the state after the accepted promotion of T2",
	})
	res := mc.Run(r, mc.System{
		Name:      "migration-commands",
		New:       func() mc.Instance { return c17New(st) },
		MaxDepth:  ev.Pick(r, 7, 9),
		MaxStates: ev.Pick(r, int64(200000), int64(3000000)),
		Bounds: map[string]any{"tasks": "T1 leader transfer 1->2 (created in WriteFence), T2 replica replace 3->4 (created in AddLearner), T3 leader transfer 1->2 under a fresh id (created in WriteFence)", "channels": 1,
			"stale_fields": c17StaleFields,
			"terminal_task_bookkeeping": fmt.Sprintf("claim / adv (all variants) / fail on a terminal task: at most %d per terminal incarnation, generated while another task is active; revive (advance back to Running) while another task is active%s",
				c17TouchBound, map[bool]string{false: "", true: " and while none is"}[c17ReviveAlone]),
			"third_task_id": "T3 is created (plain create only) only while the row T1 exists (same transfer under a fresh id); once it exists it has the full alphabet of T1", "seed_meta": "epoch 1/1, replicas=ISR={1,2,3}, leader 1, MinISR 2"},
		Note: "merging on all task rows + runtime meta row + GetActive and ListActive answers (read back through the metadb API) + cutover bookkeeping; requests are rebuilt from the rows read back, so the canonical state determines every future request",
	})
	if r.Replay() != nil {
		return
	}
	r.Count("db_arenas", c17Arenas.Load())
	g := func(name string, n int64, min int64) { r.Guard(name, n >= min, "%s=%d (need >=%d)", name, n, min) }
	g("commit-accepted-with-fresh-proof", st.commitOK.Load(), 1)
	g("promote-accepted-with-fresh-proof", st.promoteOK.Load(), 1)
	for i, f := range []string{"fence-version", "channel-epoch", "leader-epoch", "leader"} {
		g("cutover-refused-with-only-stale-"+f, st.staleProofRefused[i].Load(), 1)
	}
	g("cutover-refused-with-stale-runtime-guard-and-fresh-proof", st.staleGuardRefused.Load(), 1)
	g("commit-refused-after-leader-epoch-moved", st.naturalStaleRefused.Load(), 1)
	g("abort-accepted-before-cutover", st.abortOK.Load(), 1)
	g("abort-refused-after-cutover", st.abortAfterCutoverRefused.Load(), 1)
	g("create-refused-while-other-task-active", st.createRefusedActive.Load(), 1)
	g("commands-of-a-task-that-does-not-own-the-fence", st.foreignTries.Load(), 10)
	g("fence-set", st.fenceSet.Load(), 1)
	g("fence-cleared", st.fenceCleared.Load(), 1)
	g("fence-reset", st.fenceReset.Load(), 1)
	g("fence-renewal-accepted-in-post-cutover-phase", st.renewAfterCutoverOK.Load(), 1)
	g("fence-request-naming-a-pre-cutover-phase-refused-in-post-cutover-phase", st.rewindAfterCutoverRefused.Load(), 4)
	g("gc-deleted-task", st.gcDeleted.Load(), 1)
	g("claim-accepted-on-terminal-task-while-successor-active", st.terminalTouchedWithSuccessor[0].Load(), 1)
	g("advance-accepted-on-terminal-task-while-successor-active", st.terminalTouchedWithSuccessor[1].Load(), 1)
	g("fail-accepted-on-terminal-task-while-successor-active", st.terminalTouchedWithSuccessor[2].Load(), 1)
	if c17ReviveAlone {
		g("revive-of-terminal-task-accepted-when-nothing-is-active", st.reviveOK.Load(), 1)
	}
	r.Guard("revive-command-is-well-formed", c17ReviveAccepted(), "create:T1 ; fail:T1 ; revive:T1 must leave T1 active (otherwise the refusals counted below say nothing)")
	g("third-create-refused-while-successor-active-beside-touched-terminal-task", st.createRefusedActiveBesideTerminal.Load(), 1)
	g("create-accepted-beside-touched-terminal-task", st.createOKBesideTouchedTerminal.Load(), 1)
	g("revive-of-terminal-task-refused-while-successor-active", st.reviveRefusedActive.Load(), 1)
	g("learner-added", st.learnerAdded.Load(), 1)
	for i, k := range c17BatchKinds {
		g("batch [failover | "+k+" built before it]: answered ok,stale_meta like one per batch", st.batchPairRefused[i].Load()+st2.batchPairRefused[i].Load(), 1)
	}
	g("batch [failover | commit]: the commit was ready (proof and fence matched the meta before the failover)", st.batchCutoverWasReady[0].Load(), 1)
	g("batch [failover | promote]: the promote was ready (proof and fence matched the meta before the failover)", st.batchCutoverWasReady[1].Load(), 1)
	r.Guard("state-space-nontrivial", res.States >= 300, "states=%d", res.States)
	g("after-promotion: abort-refused-after-cutover", st2.abortAfterCutoverRefused.Load(), 1)
	g("after-promotion: fence-renewal-accepted-in-post-cutover-phase", st2.renewAfterCutoverOK.Load(), 1)
	g("after-promotion: fence-request-naming-a-pre-cutover-phase-refused-in-post-cutover-phase", st2.rewindAfterCutoverRefused.Load(), 4)
	g("after-promotion: fence-cleared", st2.fenceCleared.Load(), 1)
	r.Guard("after-promotion: state-space-nontrivial", res2.States >= 30, "states=%d", res2.States)
	r.Assume("\"aborted\" means an accepted AbortChannelMigration command; an Advance that marks a task Failed is the executor's failure path and is part of the alphabet (fail:<task>), an Advance to Aborted is not generated")
	r.Assume("a commit/promote whose RuntimeGuard does not describe the current meta must not cut over (the guard carries the fence version the proof is compared with)")
	r.Assume("fence lease times are fixed (until=5000, commit/promote at now=1000, reset at now=6000); lease expiry at cutover time is not varied")
}
