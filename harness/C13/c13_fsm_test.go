package fsm_test

// C13 - Slot state machine is deterministic and batch-transparent.
//
// Black-box differential model checking of the real fsm state machine over a real
// metadb.DB (Pebble on /dev/shm). mc.Run enumerates every command log up to the length
// bound (event = "append command k"); the instance applies the log one command per batch
// on a reference machine, and Check re-applies the same log on fresh machines
//   (b) under every other batch partition,
//   (c) with close + reopen of DB and state machine at every prefix, replaying from the
//       durable applied index,
//   (d) from the snapshot taken at every prefix, restored into a fresh DB,
// and demands identical per-command results and identical snapshot bytes.
// An enum section feeds garbage payloads (truncations, single-byte mutations, tiny bodies).

import (
	"bytes"
	"context"
	"encoding/hex"
	"encoding/json"
	"errors"
	"fmt"
	"io"
	"log"
	"os"
	"path/filepath"
	"strings"
	"sync"
	"sync/atomic"
	"testing"

	metadb "github.com/WuKongIM/WuKongIM/pkg/db/meta"
	"github.com/WuKongIM/WuKongIM/pkg/protocol/channelid"
	"github.com/WuKongIM/WuKongIM/pkg/slot/fsm"
	"github.com/WuKongIM/WuKongIM/pkg/slot/multiraft"
	"github.com/WuKongIM/WuKongIM/pkg/zzverif/ev"
	"github.com/WuKongIM/WuKongIM/pkg/zzverif/mc"
)

const (
	c13Slot    uint64 = 7
	c13HS      uint16 = 3 // owned
	c13HS2     uint16 = 4 // owned
	c13Foreign uint16 = 9 // not owned
)

var c13Ctx = context.Background()

// ---------------------------------------------------------------- command menu

type c13Cmd struct {
	label  string // "<kind>:<details>"
	family string // valid | stale | conflict | malformed | notowned
	slot   uint64
	hs     uint16
	data   []byte
}

func (c c13Cmd) kind() string {
	if i := strings.IndexByte(c.label, ':'); i >= 0 {
		return c.label[:i]
	}
	return c.label
}

func c13RuntimeMeta(channelEpoch, leaderEpoch, leader uint64) metadb.ChannelRuntimeMeta {
	return metadb.ChannelRuntimeMeta{ChannelID: "c1", ChannelType: 2, ChannelEpoch: channelEpoch, LeaderEpoch: leaderEpoch,
		Replicas: []uint64{1, 2, 3}, ISR: []uint64{1, 2, 3}, Leader: leader, MinISR: 2, Status: 1, Features: 1, LeaseUntilMS: 1000}
}

func c13Task(id string) metadb.ChannelMigrationTask {
	return metadb.ChannelMigrationTask{TaskID: id, Kind: metadb.ChannelMigrationKindLeaderTransfer, Status: metadb.ChannelMigrationStatusRunning,
		Phase: metadb.ChannelMigrationPhaseProbeTarget, ChannelID: "c1", ChannelType: 2, SourceNode: 1, TargetNode: 2, DesiredLeader: 2,
		BaseChannelEpoch: 1, BaseLeaderEpoch: 1, CreatedAtMS: 100, UpdatedAtMS: 100}
}

func c13TaskGuard(t metadb.ChannelMigrationTask) metadb.ChannelMigrationTaskGuard {
	return metadb.ChannelMigrationTaskGuard{ChannelID: t.ChannelID, ChannelType: t.ChannelType, TaskID: t.TaskID, ExpectedStatus: t.Status,
		ExpectedPhase: t.Phase, ExpectedOwnerNodeID: t.OwnerNodeID, ExpectedOwnerLeaseUntilMS: t.OwnerLeaseUntilMS, ExpectedUpdatedAtMS: t.UpdatedAtMS}
}

// c13Menu returns (non-erroring-by-construction commands, erroring commands). "full" adds the
// less central command types. Every command addresses the same few keys (user u1, channel
// c1/2, tasks T1/T2 on c1) so that commands collide.
func c13Menu(size string) []c13Cmd {
	mk := func(label, family string, hs uint16, data []byte) c13Cmd {
		return c13Cmd{label: label, family: family, slot: c13Slot, hs: hs, data: data}
	}
	t1 := c13Task("T1")
	t2 := c13Task("T2")
	t2.TargetNode, t2.DesiredLeader = 3, 3
	fail := metadb.ChannelMigrationTaskAdvance{Guard: c13TaskGuard(t1), Status: metadb.ChannelMigrationStatusFailed, Phase: t1.Phase,
		UpdatedAtMS: 200, CompletedAtMS: 200, LastError: "boom"}
	t0 := c13Task("T0") // created already terminal: garbage-collectable without any same-batch predecessor
	t0.Status, t0.CompletedAtMS, t0.UpdatedAtMS = metadb.ChannelMigrationStatusFailed, 150, 150
	userTrunc := fsm.EncodeUpsertUserCommand(metadb.User{UID: "u1", Token: "a"})
	userTrunc = userTrunc[:len(userTrunc)-3]

	latest := func(hs uint16, id string, seq uint64) fsm.ChannelLatestBatchItem {
		return fsm.ChannelLatestBatchItem{HashSlot: hs, Latest: metadb.ChannelLatest{ChannelID: id, ChannelType: 2, LastMessageID: seq, LastMessageSeq: seq, LastAt: 10, FromUID: "u1", ClientMsgNo: "n", Payload: []byte("p"), UpdatedAt: 10}}
	}
	core := []c13Cmd{
		mk("user-upsert:u1:a", "valid", c13HS, fsm.EncodeUpsertUserCommand(metadb.User{UID: "u1", Token: "a", DeviceFlag: 1})),
		mk("user-create:u1:b", "conflict", c13HS, fsm.EncodeCreateUserCommand(metadb.User{UID: "u1", Token: "b"})),
		mk("chan-create:c1", "conflict", c13HS, fsm.EncodeCreateChannelCommand(metadb.Channel{ChannelID: "c1", ChannelType: 2, Large: 1})),
		mk("chan-del:c1", "valid", c13HS, fsm.EncodeDeleteChannelCommand("c1", 2)),
		mk("sub-add:c1:u1,u2:v2", "valid", c13HS, fsm.EncodeAddSubscribersCommand("c1", 2, []string{"u1", "u2"}, 2)),
		mk("sub-rm:c1:u1:v1", "stale", c13HS, fsm.EncodeRemoveSubscribersCommand("c1", 2, []string{"u1"}, 1)),
		mk("rtm-upsert:c1:e1l1L1", "valid", c13HS, fsm.EncodeUpsertChannelRuntimeMetaCommand(c13RuntimeMeta(1, 1, 1))),
		mk("rtm-upsert:c1:e1l1L2", "conflict", c13HS, fsm.EncodeUpsertChannelRuntimeMetaCommand(c13RuntimeMeta(1, 1, 2))),
		mk("ret-adv:c1:e1l1L1:seq5", "stale", c13HS, fsm.EncodeAdvanceChannelRetentionThroughSeqCommand(metadb.ChannelRetentionAdvance{
			ChannelID: "c1", ChannelType: 2, ExpectedChannelEpoch: 1, ExpectedLeaderEpoch: 1, ExpectedLeader: 1, ExpectedLeaseUntilMS: 1000,
			RetentionThroughSeq: 5, RetentionUpdatedAtMS: 50})),
		mk("mig-create:T1", "valid", c13HS, fsm.EncodeCreateChannelMigrationTaskCommand(t1)),
		mk("mig-fail:T1", "stale", c13HS, fsm.EncodeAdvanceChannelMigrationTaskCommand(fail)),
		mk("mig-create:T2", "conflict", c13HS, fsm.EncodeCreateChannelMigrationTaskCommand(t2)),
		mk("mig-create-terminal:T0", "valid", c13HS, fsm.EncodeCreateChannelMigrationTaskCommand(t0)),
		mk("mig-gc:before1000", "valid", c13HS, fsm.EncodeGarbageCollectTerminalChannelMigrationTasksCommand(metadb.ChannelMigrationTaskGCRequest{BeforeMS: 1000, Limit: 10})),
	}
	coreBad := []c13Cmd{
		mk("bad-type:0xff", "malformed", c13HS, []byte{1, 0xff}),
		mk("bad-trunc:user-upsert", "malformed", c13HS, userTrunc),
		mk("notowned-envelope:user-upsert", "notowned", c13Foreign, fsm.EncodeUpsertUserCommand(metadb.User{UID: "u1", Token: "z"})),
		mk("bad-semantic:rtm-minisr", "malformed", c13HS, func() []byte {
			m := c13RuntimeMeta(1, 1, 1)
			m.MinISR = 5
			return fsm.EncodeUpsertChannelRuntimeMetaCommand(m)
		}()),
		mk("notowned-item:latest-batch", "notowned", c13HS, fsm.EncodeUpsertChannelLatestBatchCommand([]fsm.ChannelLatestBatchItem{latest(c13HS, "c1", 7), latest(c13Foreign, "c9", 8)})),
	}
	pick := func(labels ...string) []c13Cmd {
		var out []c13Cmd
		for _, l := range labels {
			found := false
			for _, c := range append(append([]c13Cmd{}, core...), coreBad...) {
				if c.label == l {
					out, found = append(out, c), true
				}
			}
			if !found {
				panic("c13: no menu entry " + l)
			}
		}
		return out
	}
	switch size {
	case "mini":
		// quick depth-3 menu: one command per commit-time mechanism (create-only row, channel delete vs subscriber rows,
		// subscriber mutation version, monotonic runtime meta + conflict, guarded retention advance, task create + guarded advance)
		return pick("chan-del:c1", "sub-add:c1:u1,u2:v2", "sub-rm:c1:u1:v1",
			"rtm-upsert:c1:e1l1L1", "rtm-upsert:c1:e1l1L2", "ret-adv:c1:e1l1L1:seq5", "mig-create:T1", "mig-fail:T1",
			"bad-type:0xff", "notowned-envelope:user-upsert", "bad-semantic:rtm-minisr")
	case "small":
		// depth-4 menu
		return pick("chan-create:c1", "chan-del:c1", "sub-add:c1:u1,u2:v2", "sub-rm:c1:u1:v1",
			"rtm-upsert:c1:e1l1L1", "ret-adv:c1:e1l1L1:seq5", "mig-create-terminal:T0", "mig-gc:before1000",
			"bad-trunc:user-upsert", "notowned-envelope:user-upsert")
	}
	if size == "core" {
		return append(core, coreBad...)
	}
	// full menu
	abort := metadb.ChannelMigrationAbortRequest{Guard: c13TaskGuard(t1),
		RuntimeGuard: metadb.ChannelMigrationRuntimeGuard{ChannelID: "c1", ChannelType: 2, ExpectedChannelEpoch: 1, ExpectedLeaderEpoch: 1, ExpectedLeader: 1},
		Status:       metadb.ChannelMigrationStatusAborted, Phase: t1.Phase, UpdatedAtMS: 300, CompletedAtMS: 300, LastError: "abort"}
	rtmCreate, err := fsm.EncodeCreateChannelRuntimeMetaBatchCommandChecked([]fsm.CreateChannelRuntimeMetaBatchItem{
		{HashSlot: c13HS, Meta: c13RuntimeMeta(1, 1, 3)},
		{HashSlot: c13HS2, Meta: metadb.ChannelRuntimeMeta{ChannelID: "c2", ChannelType: 2, ChannelEpoch: 1, LeaderEpoch: 1, Replicas: []uint64{1}, ISR: []uint64{1}, Leader: 1, MinISR: 1, Status: 1}},
	})
	if err != nil {
		panic(err)
	}
	rtmCreateForeign, err := fsm.EncodeCreateChannelRuntimeMetaBatchCommandChecked([]fsm.CreateChannelRuntimeMetaBatchItem{
		{HashSlot: c13HS, Meta: c13RuntimeMeta(1, 1, 3)},
		{HashSlot: c13Foreign, Meta: metadb.ChannelRuntimeMeta{ChannelID: "c9", ChannelType: 2, ChannelEpoch: 1, LeaderEpoch: 1, Replicas: []uint64{1}, ISR: []uint64{1}, Leader: 1, MinISR: 1, Status: 1}},
	})
	if err != nil {
		panic(err)
	}
	dupJSON := append([]byte{1, 30}, func() []byte { // create-task payload with a duplicate JSON key
		p := []byte(`{"TaskID":"T1","TaskID":"T9"}`)
		b := []byte{1, 0, 0, 0, byte(len(p))}
		return append(b, p...)
	}()...)
	full := append([]c13Cmd{}, core...)
	full = append(full,
		mk("chan-upsert:c1:ban", "valid", c13HS, fsm.EncodeUpsertChannelCommand(metadb.Channel{ChannelID: "c1", ChannelType: 2, Ban: 1})),
		mk("chan-patch:c1:sendban", "conflict", c13HS, fsm.EncodePatchChannelBusinessFlagsCommand("c1", 2, metadb.ChannelBusinessFlags{SendBan: 1})),
		mk("rtm-upsert:c1:e1l2L2", "valid", c13HS, fsm.EncodeUpsertChannelRuntimeMetaCommand(c13RuntimeMeta(1, 2, 2))),
		mk("rtm-upsert:c1:e0l9L3", "stale", c13HS, fsm.EncodeUpsertChannelRuntimeMetaCommand(c13RuntimeMeta(0, 9, 3))),
		mk("rtm-del:c1", "valid", c13HS, fsm.EncodeDeleteChannelRuntimeMetaCommand("c1", 2)),
		mk("rtm-create:c1@3,c2@4", "conflict", c13HS, rtmCreate),
		mk("mig-abort:T1", "stale", c13HS, fsm.EncodeAbortChannelMigrationCommand(abort)),
		mk("member-upsert:u1:c1", "valid", c13HS, fsm.EncodeUpsertUserChannelMembershipsCommand([]metadb.UserChannelMembership{{UID: "u1", ChannelID: "c1", ChannelType: 2, JoinSeq: 1, SourceVersion: 1, UpdatedAt: 5}})),
		mk("latest-batch:c1@3,c2@4", "valid", c13HS, fsm.EncodeUpsertChannelLatestBatchCommand([]fsm.ChannelLatestBatchItem{latest(c13HS, "c1", 7), latest(c13HS2, "c2", 8)})),
		mk("device-upsert:u1", "valid", c13HS2, fsm.EncodeUpsertDeviceCommand(metadb.Device{UID: "u1", DeviceFlag: 1, Token: "d", DeviceLevel: 1})),
		mk("noop", "valid", c13HS, fsm.EncodeNoopCommand()),
	)
	full = append(full, coreBad...)
	full = append(full,
		mk("notowned-item:rtm-create", "notowned", c13HS, rtmCreateForeign),
		mk("bad-json:dup-key", "malformed", c13HS, dupJSON),
		mk("bad-semantic:user-empty-uid", "malformed", c13HS, fsm.EncodeUpsertUserCommand(metadb.User{Token: "a"})),
		c13Cmd{label: "wrong-slot:user-upsert", family: "notowned", slot: c13Slot + 1, hs: c13HS, data: fsm.EncodeUpsertUserCommand(metadb.User{UID: "u1", Token: "w"})},
	)
	return full
}

// c13ExtraEncodings are valid encodings of the command types that are not in the log menus;
// they are only used as garbage seeds (truncations / single-byte mutations).
func c13ExtraEncodings() []c13Cmd {
	mk := func(label string, data []byte) c13Cmd {
		return c13Cmd{label: label, family: "valid", slot: c13Slot, hs: c13HS, data: data}
	}
	must := func(b []byte, err error) []byte {
		if err != nil {
			panic(fmt.Sprintf("c13 harness: encoder refused a seed command: %v", err))
		}
		return b
	}
	t1 := c13Task("T1")
	g := c13TaskGuard(t1)
	rg := metadb.ChannelMigrationRuntimeGuard{ChannelID: "c1", ChannelType: 2, ExpectedChannelEpoch: 1, ExpectedLeaderEpoch: 1, ExpectedLeader: 1}
	run := metadb.ChannelMigrationStatusRunning
	mem := metadb.UserChannelMembership{UID: "u1", ChannelID: "c1", ChannelType: 2, JoinSeq: 1, ReadSeq: 2, DeletedToSeq: 1, ActivatedAt: 3, SourceVersion: 1, UpdatedAt: 5}
	cmdMem := metadb.UserCMDChannelMembership{UID: "u1", CommandChannelID: "c1____cmd", ChannelType: 2, StartSeq: 1, AckSeq: 1, UpdatedAt: 5}
	evt := metadb.MessageEventAppend{ChannelID: "c1", ChannelType: 2, ClientMsgNo: "n1", EventID: "e1", EventKey: "k", EventType: "t", Visibility: "public", OccurredAt: 1, Payload: []byte("{}"), UpdatedAt: 1}
	person := channelid.EncodePersonChannel("u1", "u2")
	personMeta := metadb.ChannelRuntimeMeta{ChannelID: person, ChannelType: 1, ChannelEpoch: 1, LeaderEpoch: 1, Replicas: []uint64{1}, ISR: []uint64{1}, Leader: 1, MinISR: 1, Status: 1}
	return []c13Cmd{
		mk("mig-create-guarded:T3", fsm.EncodeCreateChannelMigrationTaskWithRuntimeGuardCommand(metadb.ChannelMigrationTaskCreate{Task: c13Task("T3"), RuntimeGuard: rg})),
		mk("mig-claim:T1", fsm.EncodeClaimChannelMigrationTaskCommand(metadb.ChannelMigrationTaskClaim{Guard: g, Status: run, Phase: t1.Phase, OwnerNodeID: 1, OwnerLeaseUntilMS: 900, NowMS: 150, UpdatedAtMS: 150})),
		mk("mig-set-fence:T1", fsm.EncodeSetChannelWriteFenceCommand(metadb.ChannelMigrationFenceRequest{Guard: g, RuntimeGuard: rg, Status: run, Phase: metadb.ChannelMigrationPhaseDrainLeader, FenceReason: 1, FenceUntilMS: 900, UpdatedAtMS: 150})),
		mk("mig-reset-fence:T1", fsm.EncodeResetChannelWriteFenceToPreCutoverCommand(metadb.ChannelMigrationResetFenceRequest{Guard: g, RuntimeGuard: rg, Status: run, Phase: metadb.ChannelMigrationPhaseWriteFence, NowMS: 950, UpdatedAtMS: 150})),
		mk("mig-commit:T1", fsm.EncodeCommitChannelLeaderTransferCommand(metadb.ChannelMigrationLeaderTransferRequest{Guard: g, RuntimeGuard: rg, Status: run, Phase: metadb.ChannelMigrationPhaseVerifyNewLeader, DesiredLeader: 2, NextLeaderEpoch: 2, LeaseUntilMS: 2000, NowMS: 150, UpdatedAtMS: 150})),
		mk("mig-add-learner:T1", fsm.EncodeAddChannelLearnerCommand(metadb.ChannelMigrationAddLearnerRequest{Guard: g, RuntimeGuard: rg, Status: run, Phase: metadb.ChannelMigrationPhaseBootstrapTarget, TargetNode: 4, UpdatedAtMS: 150})),
		mk("mig-promote:T1", fsm.EncodePromoteLearnerAndRemoveReplicaCommand(metadb.ChannelMigrationPromoteLearnerRequest{Guard: g, RuntimeGuard: rg, Status: run, Phase: metadb.ChannelMigrationPhaseVerifyMembership, SourceNode: 3, TargetNode: 4, NowMS: 150, UpdatedAtMS: 150})),
		mk("mig-clear-fence:T1", fsm.EncodeClearChannelWriteFenceCommand(metadb.ChannelMigrationClearFenceRequest{Guard: g, RuntimeGuard: rg, Status: metadb.ChannelMigrationStatusCompleted, Phase: metadb.ChannelMigrationPhaseClearFence, UpdatedAtMS: 150, CompletedAtMS: 150})),
		mk("latest-upsert:c1", fsm.EncodeUpsertChannelLatestCommand(metadb.ChannelLatest{ChannelID: "c1", ChannelType: 2, LastMessageID: 3, LastMessageSeq: 3, LastAt: 1, FromUID: "u1", ClientMsgNo: "n", Payload: []byte("p"), UpdatedAt: 1})),
		mk("member-delete:u1:c1", fsm.EncodeDeleteUserChannelMembershipsCommand([]metadb.UserChannelMembership{{UID: "u1", ChannelID: "c1", ChannelType: 2, Tombstone: true, TombstoneAt: 9, SourceVersion: 2, UpdatedAt: 9}})),
		mk("member-readseq:u1:c1", fsm.EncodeAdvanceUserChannelMembershipReadSeqCommand([]metadb.UserChannelMembership{mem})),
		mk("member-hide:u1:c1", fsm.EncodeHideUserChannelMembershipCommand([]metadb.UserChannelMembership{mem})),
		mk("member-activate:u1:c1", fsm.EncodeActivateUserChannelMembershipCommand([]metadb.UserChannelMembership{mem})),
		mk("cmdmember-upsert:u1", fsm.EncodeUpsertUserCMDChannelMembershipsCommand([]metadb.UserCMDChannelMembership{cmdMem})),
		mk("cmdmember-ack:u1", fsm.EncodeAdvanceUserCMDChannelMembershipAcksCommand([]metadb.UserCMDChannelMembership{cmdMem})),
		mk("cmdmember-tombstone:u1", fsm.EncodeTombstoneUserCMDChannelMembershipsCommand([]metadb.UserCMDChannelMembership{cmdMem})),
		mk("event-append:c1", fsm.EncodeAppendMessageEventCommand(evt)),
		mk("event-append-batch:c1", fsm.EncodeAppendMessageEventsCommand([]metadb.MessageEventAppend{evt})),
		mk("plugin-bind:u1", fsm.EncodeBindPluginUserCommand(metadb.PluginUserBinding{UID: "u1", PluginNo: "p1", CreatedAtMS: 1, UpdatedAtMS: 1})),
		mk("plugin-unbind:u1", fsm.EncodeUnbindPluginUserCommand("u1", "p1")),
		mk("person-admit:u1@u2", must(fsm.EncodeAdmitPersonDirectoryTaskBatchCommandChecked([]fsm.PersonDirectoryAdmissionBatchItem{{HashSlot: c13HS, Task: metadb.PersonDirectoryTask{ChannelID: person, ChannelType: 1, CommittedTail: 1, CreatedAt: 1}, RuntimeMeta: personMeta}}))),
		mk("person-ensure:u1", must(fsm.EncodeEnsureUserChannelMembershipBatchCommandChecked([]fsm.UserChannelMembershipBatchItem{{HashSlot: c13HS, Membership: metadb.UserChannelMembership{UID: "u1", ChannelID: person, ChannelType: 1, SourceVersion: 1, UpdatedAt: 1}}}))),
		mk("person-complete:u1@u2", must(fsm.EncodeCompletePersonDirectoryTaskBatchCommandChecked([]fsm.PersonDirectoryCompletionBatchItem{{HashSlot: c13HS, ChannelID: person, ChannelType: 1, Generation: 1}}))),
		mk("hs-apply-delta:user", fsm.EncodeApplyDeltaCommand(multiraft.SlotID(5), 11, c13HS, fsm.EncodeUpsertUserCommand(metadb.User{UID: "u3", Token: "d"}))),
		mk("hs-enter-fence:3", fsm.EncodeEnterFenceCommandForTarget(c13HS, multiraft.SlotID(8))),
		mk("hs-ack-outbox:3", fsm.EncodeAckHashSlotMigrationOutboxCommand(c13HS, multiraft.SlotID(c13Slot), multiraft.SlotID(8), 1)),
		mk("hs-cleanup-outbox:3", fsm.EncodeCleanupHashSlotMigrationOutboxCommand(c13HS, multiraft.SlotID(c13Slot), multiraft.SlotID(8), 1)),
	}
}

// ---------------------------------------------------------------- one replica (DB + state machine)

type c13Node struct {
	dir      string
	db       *metadb.DB
	sm       multiraft.StateMachine
	poisoned bool // a panic escaped from the code under test: locks may be held, never reuse
	// cfg is the in-memory runtime configuration (hash-slot migration table) that the slot runtime installs on every
	// state machine it builds; it is not durable, so it is installed again after a restart
	cfg func(multiraft.StateMachine)
}

func (n *c13Node) configure(cfg func(multiraft.StateMachine)) {
	n.cfg = cfg
	if cfg != nil && n.sm != nil {
		cfg(n.sm)
	}
}

// Replicas are pooled: a released replica is wiped through the metadb API (DeleteHashSlotData of every hash slot
// the harness addresses + the slot's applied index) and handed out again only if a new state machine on it
// reports exactly the state of a freshly created DB (empty export, applied index 0); otherwise it is discarded
// and a new DB is created. This keeps Pebble opens (about 10 ms each) for the restarts, where they are the point.
var (
	c13PoolMu     sync.Mutex
	c13PoolFree   []*c13Node
	c13EmptyOnce  sync.Once
	c13EmptyState []byte
	c13PoolReuse  atomic.Int64
	c13PoolReject atomic.Int64
)

func c13Acquire() *c13Node {
	c13EmptyOnce.Do(func() {
		n, err := c13Open(c13FreshDir())
		if err != nil {
			panic(fmt.Sprintf("c13 harness: open: %v", err))
		}
		s, a := n.state()
		if a != 0 {
			panic("c13 harness: fresh DB has a non-zero applied index")
		}
		c13EmptyState = s
		n.destroy()
	})
	for {
		var n *c13Node
		c13PoolMu.Lock()
		if k := len(c13PoolFree); k > 0 {
			n, c13PoolFree = c13PoolFree[k-1], c13PoolFree[:k-1]
		}
		c13PoolMu.Unlock()
		if n == nil {
			n, err := c13Open(c13FreshDir())
			if err != nil {
				panic(fmt.Sprintf("c13 harness: open: %v", err))
			}
			return n
		}
		sm, err := fsm.NewStateMachineWithHashSlots(n.db, c13Slot, []uint16{c13HS, c13HS2})
		if err != nil {
			n.destroy()
			continue
		}
		n.sm = sm
		if s, a := n.state(); a == 0 && bytes.Equal(s, c13EmptyState) {
			c13PoolReuse.Add(1)
			return n
		}
		c13PoolReject.Add(1)
		n.destroy()
	}
}

// release wipes the replica and returns it to the pool.
func (n *c13Node) release() {
	if n.poisoned || n.db == nil {
		n.destroy()
		return
	}
	for _, hs := range []uint16{c13HS, c13HS2, c13Foreign} {
		if err := n.db.DeleteHashSlotData(c13Ctx, hs); err != nil {
			n.destroy()
			return
		}
	}
	for _, slot := range []uint64{c13Slot, c13Slot + 1} { // also removes the slot's applied-index key
		if err := n.db.DeleteSlotData(c13Ctx, slot); err != nil {
			n.destroy()
			return
		}
	}
	n.sm, n.cfg = nil, nil
	c13PoolMu.Lock()
	c13PoolFree = append(c13PoolFree, n)
	c13PoolMu.Unlock()
}

func c13DrainPool() {
	c13PoolMu.Lock()
	free := c13PoolFree
	c13PoolFree = nil
	c13PoolMu.Unlock()
	for _, n := range free {
		n.destroy()
	}
}

var (
	c13Base    string
	c13DirSeq  atomic.Int64
	c13Opens   atomic.Int64
	c13BaseMu  sync.Mutex
	c13Silence sync.Once
)

func c13FreshDir() string {
	c13BaseMu.Lock()
	if c13Base == "" {
		d, err := os.MkdirTemp("/dev/shm", "verif-c13-")
		if err != nil {
			d, err = os.MkdirTemp("", "verif-c13-")
			if err != nil {
				panic(err)
			}
		}
		c13Base = d
	}
	c13BaseMu.Unlock()
	return filepath.Join(c13Base, fmt.Sprintf("n%d", c13DirSeq.Add(1)))
}

func c13Open(dir string) (*c13Node, error) {
	c13Silence.Do(func() { log.SetOutput(io.Discard) }) // Pebble prints "Found 0 WALs" per open
	n := &c13Node{dir: dir}
	if err := n.open(); err != nil {
		return nil, err
	}
	return n, nil
}

func (n *c13Node) open() error {
	db, err := metadb.Open(n.dir)
	if err != nil {
		return err
	}
	c13Opens.Add(1)
	sm, err := fsm.NewStateMachineWithHashSlots(db, c13Slot, []uint16{c13HS, c13HS2})
	if err != nil {
		_ = db.Close()
		return err
	}
	n.db, n.sm = db, sm
	if n.cfg != nil {
		n.cfg(sm)
	}
	return nil
}

func (n *c13Node) closeDB() {
	if n.db != nil {
		_ = n.db.Close()
		n.db, n.sm = nil, nil
	}
}

// destroy closes the DB and removes its directory.
func (n *c13Node) destroy() {
	n.closeDB()
	_ = os.RemoveAll(n.dir)
}

// restart models a process restart: close the DB, reopen it, build a new state machine.
func (n *c13Node) restart() error {
	n.closeDB()
	return n.open()
}

type c13Panic struct{ msg string }

func (p *c13Panic) Error() string { return p.msg }

// apply runs one ApplyBatch; a panic is converted into *c13Panic.
func (n *c13Node) apply(cmds []c13Cmd, firstIndex uint64) (res [][]byte, err error) {
	batch := make([]multiraft.Command, len(cmds))
	for i, c := range cmds {
		data := make([]byte, len(c.data)) // exact capacity: a decoder reading past the payload panics instead of seeing spare bytes
		copy(data, c.data)
		batch[i] = multiraft.Command{SlotID: multiraft.SlotID(c.slot), HashSlot: c.hs, Index: firstIndex + uint64(i), Term: 1, Data: data}
	}
	defer func() {
		if p := recover(); p != nil {
			n.poisoned = true
			res, err = nil, &c13Panic{msg: fmt.Sprintf("panic: %v", p)}
		}
	}()
	return n.sm.(multiraft.BatchStateMachine).ApplyBatch(c13Ctx, batch)
}

func (n *c13Node) snapshot() ([]byte, error) {
	s, err := n.sm.Snapshot(c13Ctx)
	return s.Data, err
}

// restorable returns the state machine's own snapshot (what multiraft ships to a lagging replica).
func (n *c13Node) restorable() []byte {
	s, err := n.snapshot()
	if err != nil {
		panic(fmt.Sprintf("c13 harness: Snapshot failed: %v", err))
	}
	return s
}

func (n *c13Node) applied() (uint64, error) {
	return n.sm.(multiraft.DurableAppliedStateMachine).DurableAppliedIndex(c13Ctx)
}

// state returns (meta snapshot bytes of the owned hash slots and of the foreign one, durable applied
// index); infrastructure errors panic and are reported by the caller's recover as harness errors.
func (n *c13Node) state() ([]byte, uint64) {
	exp, err := n.db.ExportHashSlotSnapshot(c13Ctx, []uint16{c13HS, c13HS2, c13Foreign})
	s := exp.Data
	if err != nil {
		panic(fmt.Sprintf("c13 harness: ExportHashSlotSnapshot failed: %v", err))
	}
	a, err := n.applied()
	if err != nil {
		panic(fmt.Sprintf("c13 harness: DurableAppliedIndex failed: %v", err))
	}
	return s, a
}

func c13ErrClass(err error) string {
	switch {
	case err == nil:
		return "ok"
	case errors.Is(err, metadb.ErrInvalidArgument):
		return "err:invalid-argument"
	case errors.Is(err, metadb.ErrCorruptValue):
		return "err:corrupt-value"
	default:
		var p *c13Panic
		if errors.As(err, &p) {
			return "PANIC"
		}
		return "err:other"
	}
}

// c13ResClass summarises a result for observation counting.
func c13ResClass(res []byte) string {
	s := string(res)
	switch {
	case s == fsm.ApplyResultOK || s == fsm.ApplyResultStaleMeta || s == fsm.ApplyResultHashSlotFenced:
		return s
	case len(res) >= 4:
		return fmt.Sprintf("%s:%x", s[:4], res[4:])
	default:
		return fmt.Sprintf("%x", res)
	}
}

// ---------------------------------------------------------------- reference trace

type c13Trace struct {
	pre     int // the first pre commands are the system's fixed preamble (always one command per batch)
	cmds    []c13Cmd
	res     [][]byte // result of command i when applied alone (nil for the refused one)
	errAt   int      // index of the refused command (always the last one), -1 if none
	errCls  string
	snaps   [][]byte // snaps[i] = meta snapshot bytes (hash slots 3,4,9) before command i; snaps[len] = final
	smSnaps [][]byte // state machine Snapshot() at the same points (what a restore starts from)
	applied []uint64 // durable applied index, same indexing
}

func (t *c13Trace) labels() []string {
	out := make([]string, len(t.cmds))
	for i, c := range t.cmds {
		out[i] = c.label
	}
	return out
}

func (t *c13Trace) lastKind() string {
	if len(t.cmds) == 0 {
		return "none"
	}
	return t.cmds[len(t.cmds)-1].kind()
}

// c13CheckApplied is the durable-applied-index rule after a successful ApplyBatch of the
// commands with raft indexes first..last: the index never moves backwards, is either unchanged
// or the index of a command of this batch, and every command above it was a stale no-op
// (the only commands whose write batch is legitimately not committed).
func c13CheckApplied(prev, now, first uint64, res [][]byte, _ string, where string) error {
	last := first + uint64(len(res)) - 1
	if now < prev {
		return mc.Violatef("C13:applied-index-moved-backwards", "%s: durable applied index %d -> %d", where, prev, now)
	}
	if now != prev && (now < first || now > last) {
		return mc.Violatef("C13:applied-index-outside-batch", "%s: durable applied index %d is neither the previous value %d nor an index of the batch [%d,%d]", where, now, prev, first, last)
	}
	for i, r := range res {
		idx := first + uint64(i)
		if idx > now && string(r) != fsm.ApplyResultStaleMeta {
			return mc.Violatef("C13:applied-index-behind-applied-command", "%s: command index %d returned %q but the durable applied index is only %d (a restart would apply it twice)", where, idx, c13ResClass(r), now)
		}
	}
	return nil
}

// ---------------------------------------------------------------- mc system

type c13Sys struct {
	cfg      func(multiraft.StateMachine) // in-memory runtime configuration of every replica of this system
	name     string
	menu     []c13Cmd
	byLabel  map[string]int
	maxDepth int

	partitionRuns, restartRuns, snapshotRuns, refusedLogs, multiBatchWithStale atomic.Int64
	families                                                                   sync.Map // family -> struct{}
	resultKinds                                                                sync.Map

	// preamble is applied one command per batch before the explored log starts (start state of the system); it is part
	// of every trace (raft indexes 1..len(preamble)), so restarts replay it and probes re-apply it, but no explored
	// batch ever contains a preamble command and snapshots are taken only at prefixes >= len(preamble)
	preamble        []c13Cmd
	r               *ev.R
	preambleBroken  atomic.Bool
	okChanged       sync.Map     // label -> struct{}: the command answered ok and changed the state when applied as its own batch
	migThenReader   atomic.Int64 // explored multi-command batches with exactly one successful task+meta migration command followed by a runtime-meta reader
	migThenReaderOK sync.Map     // label of that migration command -> struct{}
}

type c13Inst struct {
	sys  *c13Sys
	node *c13Node
	tr   c13Trace
	dead bool // the preamble did not produce the start state (harness error reported)
}

func (s *c13Sys) acquire() *c13Node {
	n := c13Acquire()
	n.configure(s.cfg)
	return n
}

func (s *c13Sys) newInst() mc.Instance {
	n := s.acquire()
	in := &c13Inst{sys: s, node: n}
	snap, a := n.state()
	in.tr.errAt = -1
	in.tr.snaps = [][]byte{snap}
	in.tr.smSnaps = [][]byte{n.restorable()}
	in.tr.applied = []uint64{a}
	for _, c := range s.preamble {
		_, err := in.step(c)
		if k := len(in.tr.res); err != nil || in.tr.errAt >= 0 || k == 0 || string(in.tr.res[k-1]) != fsm.ApplyResultOK {
			in.dead = true
			if s.preambleBroken.CompareAndSwap(false, true) && s.r != nil {
				s.r.HarnessError("system %s: preamble command %s did not answer ok (err=%v, refused=%s)", s.name, c.label, err, in.tr.errCls)
			}
			break
		}
	}
	in.tr.pre = len(in.tr.cmds)
	return in
}

func (in *c13Inst) Close() { in.node.release() }

func (in *c13Inst) Canon() string { return "" } // a log is not summarised by its final state: batches span the whole log

func (in *c13Inst) Events() []string {
	if in.tr.errAt >= 0 || in.dead {
		return nil // the slot fail-stops at a refused command: nothing is applied after it
	}
	out := make([]string, len(in.sys.menu))
	for i, c := range in.sys.menu {
		out[i] = c.label
	}
	return out
}

func (in *c13Inst) Apply(evl string, _ *mc.Env) (string, error) {
	ci, ok := in.sys.byLabel[evl]
	if !ok {
		panic("c13: unknown event " + evl)
	}
	return in.step(in.sys.menu[ci])
}

// step applies one command as its own batch on the reference replica and extends the trace.
func (in *c13Inst) step(c c13Cmd) (string, error) {
	t := &in.tr
	i := len(t.cmds)
	idx := uint64(i + 1)
	prevSnap, prevApplied := t.snaps[i], t.applied[i]
	res, err := in.node.apply([]c13Cmd{c}, idx)
	t.cmds = append(t.cmds, c)
	in.sys.families.Store(c.family, struct{}{})
	var p *c13Panic
	if errors.As(err, &p) {
		t.errAt, t.errCls = i, "PANIC"
		t.res = append(t.res, nil)
		t.snaps = append(t.snaps, prevSnap)
		t.smSnaps = append(t.smSnaps, t.smSnaps[i])
		t.applied = append(t.applied, prevApplied)
		return "PANIC", mc.Violatef("C13:panic-in-apply:"+c.kind(), "ApplyBatch([%s]) panicked: %s", c.label, p.msg)
	}
	snap, a := in.node.state()
	t.snaps = append(t.snaps, snap)
	t.smSnaps = append(t.smSnaps, in.node.restorable())
	t.applied = append(t.applied, a)
	if err != nil {
		t.errAt, t.errCls = i, c13ErrClass(err)
		t.res = append(t.res, nil)
		in.sys.refusedLogs.Add(1)
		if !bytes.Equal(snap, prevSnap) || a != prevApplied {
			return t.errCls, mc.Violatef("C13:refused-command-had-side-effects:"+c.kind(), "command %s was refused (%v) but changed the state (snapshot changed=%v, applied %d -> %d)", c.label, err, !bytes.Equal(snap, prevSnap), prevApplied, a)
		}
		if c.family != "malformed" && c.family != "notowned" {
			// not a violation by itself (the menu classification is only a label), but keep it visible
			return "unexpected-" + t.errCls, nil
		}
		return c.family + ":" + t.errCls, nil
	}
	if len(res) != 1 {
		return "", mc.Violatef("C13:result-count:"+c.kind(), "ApplyBatch of 1 command returned %d results", len(res))
	}
	t.res = append(t.res, res[0])
	in.sys.resultKinds.Store(c13ResClass(res[0]), struct{}{})
	if c.family == "malformed" || c.family == "notowned" {
		t.errAt, t.errCls = i, "ACCEPTED" // the log ends here: nothing meaningful follows a command that had to be refused
		return "", mc.Violatef("C13:refused-family-command-accepted:"+c.kind(), "command %s (%s) must be refused but returned %q", c.label, c.family, c13ResClass(res[0]))
	}
	if err := c13CheckApplied(prevApplied, a, idx, res, c.kind(), "one-per-batch "+c.label); err != nil {
		return "", err
	}
	changed := "same"
	if !bytes.Equal(snap, prevSnap) {
		changed = "changed"
		if string(res[0]) == fsm.ApplyResultOK {
			in.sys.okChanged.Store(c.label, struct{}{})
		}
	}
	return c.kind() + ":" + c13ResClass(res[0]) + ":" + changed, nil
}

// Check runs the differential comparison of the whole log against the reference trace.
func (in *c13Inst) Check() (verr error) {
	t := &in.tr
	n := len(t.cmds)
	p := t.pre
	if n <= p || in.dead {
		return nil
	}
	if t.errCls == "PANIC" || t.errCls == "ACCEPTED" {
		return nil // already reported by Apply
	}
	// (b) every other batch partition of the explored log; bit g of mask set = batch boundary after command g
	// (the boundaries after the p preamble commands are always set)
	if n-p >= 2 {
		forced := (1 << p) - 1
		all := (1 << (n - p - 1)) - 1
		for sub := 0; sub < all; sub++ {
			if err := in.sys.runPartition(t, forced|sub<<p); err != nil {
				return err
			}
		}
	}
	good := n // number of commands that the reference applied successfully
	if t.errAt >= 0 {
		good = t.errAt
	}
	// Prefix positions: the proper prefixes of this log were checked as logs of their own up to their end; here every
	// run continues to the end of this log. For a log that ends in a refused command only the longest good prefix is
	// restarted / snapshotted (shorter prefixes were covered by the log without the refused command).
	first := p + 1
	if t.errAt >= 0 {
		first = good
	}
	// (c) restart at every prefix
	for k := first; k <= good; k++ {
		if k == 0 {
			continue
		}
		if err := in.sys.runRestart(t, k); err != nil {
			return err
		}
	}
	// (d) snapshot at every prefix -> restore into a fresh DB -> apply the rest (the empty snapshot, k=0, once per first command)
	for k := first; k <= good; k++ {
		if err := in.sys.runSnapshot(t, k); err != nil {
			return err
		}
	}
	if n == p+1 && good == n {
		if err := in.sys.runSnapshot(t, p); err != nil {
			return err
		}
	}
	return nil
}

func c13PartitionString(t *c13Trace, mask int) string {
	var b strings.Builder
	if t.pre > 0 {
		fmt.Fprintf(&b, "preamble(%d, one per batch) + ", t.pre)
	}
	b.WriteByte('[')
	for i, c := range t.cmds {
		if i < t.pre {
			continue
		}
		b.WriteString(c.label)
		if i == len(t.cmds)-1 {
			break
		}
		if mask&(1<<i) != 0 {
			b.WriteString("] [")
		} else {
			b.WriteString(" | ")
		}
	}
	b.WriteByte(']')
	return b.String()
}

// c13Class groups command kinds by the metadb mechanism they go through; divergence fingerprints name
// the classes of the first and the last command of the smallest batch that still diverges.
func c13Class(kind string) string {
	switch kind {
	case "user-upsert", "user-create":
		return "user"
	case "chan-create", "chan-upsert", "chan-patch":
		return "channel-write"
	case "chan-del":
		return "channel-delete"
	case "sub-add", "sub-rm":
		return "subscribers"
	case "rtm-upsert", "rtm-create", "rtm-del":
		return "runtime-meta"
	case "ret-adv":
		return "retention"
	case "mig-create", "mig-create-terminal", "mig-fail", "mig-advance":
		return "task-lifecycle"
	case "mig-set-fence", "mig-reset-fence", "mig-commit", "mig-add-learner", "mig-promote", "mig-clear-fence", "mig-abort":
		return "migration-meta" // the seven commands that rewrite the task row AND the channel's runtime-meta row
	case "mig-gc":
		return "task-gc"
	case "hs-fence":
		return "hashslot-fence"
	case "hs-ack":
		return "hashslot-ack"
	case "hs-cleanup":
		return "hashslot-cleanup"
	case "hs-delta":
		return "hashslot-delta"
	}
	return kind
}

// probeBatch applies commands 0..a-1 one per batch and a..b as one batch on a fresh replica and reports how the
// batch differs from the reference: "result" (first differing command returned), "state", "error" or "".
func (s *c13Sys) probeBatch(t *c13Trace, a, b int) (string, int) {
	node := s.acquire()
	defer node.release()
	for i := 0; i < a; i++ {
		if _, err := node.apply(t.cmds[i:i+1], uint64(i+1)); err != nil {
			return "error", i
		}
	}
	res, err := node.apply(t.cmds[a:b+1], uint64(a+1))
	if err != nil || len(res) != b-a+1 {
		return "error", a
	}
	for i := a; i <= b; i++ {
		if !bytes.Equal(res[i-a], t.res[i]) {
			return "result", i
		}
	}
	if snap, _ := node.state(); !bytes.Equal(snap, t.snaps[b+1]) {
		return "state", b
	}
	return "", 0
}

// blameResult finds the smallest batch ending at command v (inside start..v) that still changes v's result.
func (s *c13Sys) blameResult(t *c13Trace, start, v int) (int, int) {
	for a := v - 1; a >= start; a-- {
		if sym, at := s.probeBatch(t, a, v); sym == "result" && at == v {
			return a, v
		}
	}
	return start, v
}

// blameState finds the smallest batch inside start..end whose results all equal the reference but whose state differs.
func (s *c13Sys) blameState(t *c13Trace, start, end int) (int, int) {
	for size := 2; size < end-start+1; size++ {
		for a := start; a+size-1 <= end; a++ {
			if sym, _ := s.probeBatch(t, a, a+size-1); sym == "state" {
				return a, a + size - 1
			}
		}
	}
	return start, end
}

func c13Range(t *c13Trace, a, b int) string {
	var l []string
	for i := a; i <= b; i++ {
		l = append(l, t.cmds[i].label)
	}
	return "[" + strings.Join(l, " | ") + "]"
}

func (s *c13Sys) runPartition(t *c13Trace, mask int) error {
	s.partitionRuns.Add(1)
	node := s.acquire()
	defer node.release()
	n := len(t.cmds)
	kind := t.lastKind()
	where := "partition " + c13PartitionString(t, mask)
	prevApplied := uint64(0)
	for start := 0; start < n; {
		end := start
		for end < n-1 && mask&(1<<end) == 0 {
			end++
		}
		batch := t.cmds[start : end+1]
		res, err := node.apply(batch, uint64(start+1))
		var p *c13Panic
		if errors.As(err, &p) {
			return mc.Violatef("C13:panic-in-apply:"+kind, "%s: batch %d..%d panicked: %s", where, start, end, p.msg)
		}
		containsRefused := t.errAt >= start && t.errAt <= end
		snap, a := node.state()
		if err != nil {
			if !containsRefused {
				return mc.Violatef("C13:batch-fails-though-each-command-succeeds-alone:"+kind, "%s: batch %d..%d failed with %v, but every command of it succeeds when applied alone", where, start, end, err)
			}
			// fail-stop: the state must be the reference state of a prefix that ends inside this batch, before the refused command
			okState := false
			for j := start; j <= t.errAt; j++ {
				if bytes.Equal(snap, t.snaps[j]) && a <= uint64(j) {
					okState = true
				}
			}
			if !okState {
				return mc.Violatef("C13:failed-batch-left-non-prefix-state:"+kind, "%s: batch %d..%d was refused (%v) but left a state (applied=%d) that is not the state of any log prefix %d..%d", where, start, end, err, a, start, t.errAt)
			}
			return nil
		}
		if containsRefused {
			return mc.Violatef("C13:refused-command-accepted-in-batch:"+kind, "%s: command %d (%s) is refused alone (%s) but batch %d..%d succeeded", where, t.errAt, t.cmds[t.errAt].label, t.errCls, start, end)
		}
		if len(res) != len(batch) {
			return mc.Violatef("C13:result-count:"+kind, "%s: %d results for %d commands", where, len(res), len(batch))
		}
		stale := false
		for i := range batch {
			if !bytes.Equal(res[i], t.res[start+i]) {
				a, v := s.blameResult(t, start, start+i)
				return mc.Violatef("C13:batch-changes-result:"+c13Class(t.cmds[a].kind())+"+"+c13Class(t.cmds[v].kind()),
					"%s: command %d (%s) returned %q, but %q when every command is its own batch; smallest batch that still changes this result: %s applied after the %d commands before it one per batch",
					where, start+i, batch[i].label, c13ResClass(res[i]), c13ResClass(t.res[start+i]), c13Range(t, a, v), a)
			}
			if string(res[i]) == fsm.ApplyResultStaleMeta {
				stale = true
			}
		}
		if stale && len(batch) > 1 {
			s.multiBatchWithStale.Add(1)
		}
		if len(batch) > 1 {
			mig, migAt := 0, -1
			for i, c := range batch {
				switch c13Class(c.kind()) {
				case "migration-meta", "task-lifecycle", "task-gc":
					mig++
					if c13Class(c.kind()) == "migration-meta" && string(res[i]) == fsm.ApplyResultOK {
						migAt = i
					}
				}
			}
			if mig == 1 && migAt >= 0 {
				for _, c := range batch[migAt+1:] {
					if cl := c13Class(c.kind()); cl == "runtime-meta" || cl == "retention" {
						s.migThenReader.Add(1)
						s.migThenReaderOK.Store(batch[migAt].label, struct{}{})
						break
					}
				}
			}
		}
		if !bytes.Equal(snap, t.snaps[end+1]) {
			a, b := s.blameState(t, start, end)
			return mc.Violatef("C13:batch-changes-state:"+c13Class(t.cmds[a].kind())+"+"+c13Class(t.cmds[b].kind()),
				"%s: after batch %d..%d the snapshot (%d bytes) differs from the one-per-batch snapshot (%d bytes) although all results are equal; smallest batch that still changes the state: %s applied after the %d commands before it one per batch; %s",
				where, start, end, len(snap), len(t.snaps[end+1]), c13Range(t, a, b), a, c13SnapDiff(t.snaps[end+1], snap))
		}
		if err := c13CheckApplied(prevApplied, a, uint64(start+1), res, kind, where); err != nil {
			return err
		}
		prevApplied = a
		start = end + 1
	}
	return nil
}

// c13Continue applies commands from..end one per batch on node and compares with the trace.
// floor is the prefix length whose state the node already holds (replayed no-ops must not change it).
func c13Continue(node *c13Node, t *c13Trace, from, floor int, what, where string) error {
	kind := c13Class(t.lastKind())
	for i := from; i < len(t.cmds); i++ {
		res, err := node.apply(t.cmds[i:i+1], uint64(i+1))
		var p *c13Panic
		if errors.As(err, &p) {
			return mc.Violatef("C13:panic-in-apply:"+kind, "%s: command %d panicked: %s", where, i, p.msg)
		}
		snap, _ := node.state()
		want := i + 1
		if want < floor {
			want = floor
		}
		if i == t.errAt {
			if err == nil {
				return mc.Violatef("C13:refused-command-accepted-"+what+":"+kind, "%s: command %d (%s) is refused by the reference run but was accepted", where, i, t.cmds[i].label)
			}
			if !bytes.Equal(snap, t.snaps[want]) {
				return mc.Violatef("C13:refused-command-had-side-effects-"+what+":"+kind, "%s: refused command %d changed the state", where, i)
			}
			return nil
		}
		if err != nil {
			return mc.Violatef("C13:"+what+"-fails:"+kind, "%s: command %d (%s) failed with %v but succeeds in the reference run", where, i, t.cmds[i].label, err)
		}
		if len(res) != 1 || !bytes.Equal(res[0], t.res[i]) {
			return mc.Violatef("C13:"+what+"-changes-result:"+kind, "%s: command %d (%s) returned %q, reference %q", where, i, t.cmds[i].label, c13ResClass(res[0]), c13ResClass(t.res[i]))
		}
		if !bytes.Equal(snap, t.snaps[want]) {
			return mc.Violatef("C13:"+what+"-changes-state:"+kind, "%s: after command %d (%s) the snapshot differs from the reference: %s", where, i, t.cmds[i].label, c13SnapDiff(t.snaps[want], snap))
		}
	}
	return nil
}

func (s *c13Sys) runRestart(t *c13Trace, k int) error {
	s.restartRuns.Add(1)
	node := s.acquire()
	defer node.release()
	kind := c13Class(t.lastKind())
	where := fmt.Sprintf("restart after %d of [%s]", k, strings.Join(t.labels(), " | "))
	for i := 0; i < k; i++ {
		if _, err := node.apply(t.cmds[i:i+1], uint64(i+1)); err != nil {
			return mc.Violatef("C13:nondeterministic-apply:"+kind, "%s: command %d failed (%v) on a second fresh replica", where, i, err)
		}
	}
	before, a0 := node.state()
	if !bytes.Equal(before, t.snaps[k]) {
		return mc.Violatef("C13:nondeterministic-apply:"+kind, "%s: a second fresh replica reached a different snapshot for the same one-per-batch prefix", where)
	}
	if err := node.restart(); err != nil {
		return mc.Violatef("C13:reopen-fails:"+kind, "%s: reopen failed: %v", where, err)
	}
	after, a := node.state()
	if !bytes.Equal(after, before) {
		return mc.Violatef("C13:restart-changes-state:"+kind, "%s: snapshot differs after close+reopen: %s", where, c13SnapDiff(before, after))
	}
	if a != a0 || a > uint64(k) {
		return mc.Violatef("C13:restart-changes-applied-index:"+kind, "%s: durable applied index %d before, %d after reopen", where, a0, a)
	}
	// replay everything above the durable applied index
	return c13Continue(node, t, int(a), k, "replay-after-restart", where)
}

func (s *c13Sys) runSnapshot(t *c13Trace, k int) error {
	s.snapshotRuns.Add(1)
	node := s.acquire()
	defer node.release()
	kind := c13Class(t.lastKind())
	where := fmt.Sprintf("snapshot at %d of [%s]", k, strings.Join(t.labels(), " | "))
	if err := node.sm.Restore(c13Ctx, multiraft.Snapshot{Index: uint64(k), Term: 1, Data: append([]byte(nil), t.smSnaps[k]...)}); err != nil {
		return mc.Violatef("C13:snapshot-restore-fails:"+kind, "%s: Restore failed: %v", where, err)
	}
	snap, a := node.state()
	if !bytes.Equal(snap, t.snaps[k]) {
		return mc.Violatef("C13:snapshot-restore-not-identical:"+kind, "%s: snapshot of the restored replica differs from the snapshot it was restored from: %s", where, c13SnapDiff(t.snaps[k], snap))
	}
	if a != uint64(k) {
		return mc.Violatef("C13:snapshot-restore-applied-index:"+kind, "%s: durable applied index after Restore(Index=%d) is %d", where, k, a)
	}
	return c13Continue(node, t, k, k, "apply-after-snapshot-restore", where)
}

// c13SnapDiff describes where two snapshots differ (sizes and first differing offset).
func c13SnapDiff(want, got []byte) string {
	i := 0
	for i < len(want) && i < len(got) && want[i] == got[i] {
		i++
	}
	ctx := func(b []byte) string {
		lo, hi := i-24, i+40
		if lo < 0 {
			lo = 0
		}
		if hi > len(b) {
			hi = len(b)
		}
		if lo > hi {
			lo = hi
		}
		return fmt.Sprintf("%q", b[lo:hi])
	}
	return fmt.Sprintf("reference %d bytes, this run %d bytes, first difference at offset %d (reference ...%s..., this run ...%s...)", len(want), len(got), i, ctx(want), ctx(got))
}

func c13Count(m *sync.Map) (int, []string) {
	var keys []string
	m.Range(func(k, _ any) bool { keys = append(keys, k.(string)); return true })
	return len(keys), keys
}

func c13RunLogs(r *ev.R, name, menuSize string, depth int) (*c13Sys, mc.Result) {
	return c13RunSystem(r, &c13Sys{name: name, menu: c13Menu(menuSize), byLabel: map[string]int{}, maxDepth: depth})
}

func c13RunSystem(r *ev.R, s *c13Sys) (*c13Sys, mc.Result) {
	name, depth := s.name, s.maxDepth
	s.r = r
	refused := 0
	for i, c := range s.menu {
		if _, dup := s.byLabel[c.label]; dup {
			panic("c13: duplicate label " + c.label)
		}
		s.byLabel[c.label] = i
		if c.family == "malformed" || c.family == "notowned" {
			refused++
		}
	}
	res := mc.Run(r, mc.System{
		Name:     name,
		New:      s.newInst,
		MaxDepth: depth,
		// a diverging log is extended all the same: independent divergences of longer logs are attributed to their own
		// smallest diverging batch instead of being hidden behind the first one
		KeepGoing: true,
		Bounds: map[string]any{"menu": len(s.menu), "menu_refused_commands": refused, "max_log_length": depth, "preamble_commands": len(s.preamble),
			"variants": "all 2^(n-1) batch partitions; restart at every prefix 1..n with replay from the durable applied index; snapshot at every prefix 0..n -> fresh DB -> rest"},
		Note: "no merging (a state is a command log; batches span the whole log); a refused command ends the log (the slot fail-stops); logs are extended past a divergence (KeepGoing), every divergence is attributed to the smallest batch that reproduces it",
	})
	r.Count(name+".partition_runs", s.partitionRuns.Load())
	r.Count(name+".restart_runs", s.restartRuns.Load())
	r.Count(name+".snapshot_restore_runs", s.snapshotRuns.Load())
	r.Count(name+".logs_ending_in_refused_command", s.refusedLogs.Load())
	r.Count(name+".multi_command_batches_with_stale_result", s.multiBatchWithStale.Load())
	return s, res
}

// ---------------------------------------------------------------- hash-slot migration systems

// c13DeltaConfig is the runtime configuration of a source slot whose hash slot 3 is being migrated to slot 22 in
// the delta phase (the runtime calls UpdateOutgoingDeltaTargets on every state machine it builds; the table is
// in memory only). With no configuration a fence must name its target itself (snapshot phase).
func c13DeltaConfig(sm multiraft.StateMachine) {
	sm.(interface {
		UpdateOutgoingDeltaTargets(map[uint16]multiraft.SlotID)
	}).UpdateOutgoingDeltaTargets(map[uint16]multiraft.SlotID{c13HS: 22})
}

// c13MenuHS is the menu of the hash-slot migration family on hash slot 3 (source slot 7 -> target 22): ordinary
// writes to the migrating and to another hash slot, enter-fence with / without explicit target and with another
// target, outbox ack, outbox cleanup (partial, and through the end = finalize, which lifts the fence), incoming
// apply-delta (fresh, and the same source index again).
func c13MenuHS(config, size string) []c13Cmd {
	mk := func(label, family string, hs uint16, data []byte) c13Cmd {
		return c13Cmd{label: label, family: family, slot: c13Slot, hs: hs, data: data}
	}
	self, target := multiraft.SlotID(c13Slot), multiraft.SlotID(22)
	noTargetFamily := "valid"
	if config == "snapshot-phase" {
		noTargetFamily = "malformed" // no migration known for the hash slot: the fence must be refused
	}
	all := map[string]c13Cmd{}
	for _, c := range []c13Cmd{
		mk("user-upsert:u1:a", "valid", c13HS, fsm.EncodeUpsertUserCommand(metadb.User{UID: "u1", Token: "a"})),
		mk("user-upsert:u9:b@4", "valid", c13HS2, fsm.EncodeUpsertUserCommand(metadb.User{UID: "u9", Token: "b"})),
		mk("hs-fence:3:no-target", noTargetFamily, c13HS, fsm.EncodeEnterFenceCommand(c13HS)),
		mk("hs-fence:3:target22", "valid", c13HS, fsm.EncodeEnterFenceCommandForTarget(c13HS, target)),
		mk("hs-fence:3:target23", "valid", c13HS, fsm.EncodeEnterFenceCommandForTarget(c13HS, 23)),
		mk("hs-ack:3:idx1", "valid", c13HS, fsm.EncodeAckHashSlotMigrationOutboxCommand(c13HS, self, target, 1)),
		mk("hs-ack:3:idx2", "valid", c13HS, fsm.EncodeAckHashSlotMigrationOutboxCommand(c13HS, self, target, 2)),
		mk("hs-cleanup:3:through1", "valid", c13HS, fsm.EncodeCleanupHashSlotMigrationOutboxCommand(c13HS, self, target, 1)),
		mk("hs-cleanup:3:through9", "valid", c13HS, fsm.EncodeCleanupHashSlotMigrationOutboxCommand(c13HS, self, target, 9)),
		mk("hs-delta:5>3:idx11:user-u3", "valid", c13HS, fsm.EncodeApplyDeltaCommand(5, 11, c13HS, fsm.EncodeUpsertUserCommand(metadb.User{UID: "u3", Token: "d"}))),
		mk("hs-delta:5>3:idx12:user-u1", "valid", c13HS, fsm.EncodeApplyDeltaCommand(5, 12, c13HS, fsm.EncodeUpsertUserCommand(metadb.User{UID: "u1", Token: "z"}))),
		mk("hs-fence:envelope4-body3", "malformed", c13HS2, fsm.EncodeEnterFenceCommand(c13HS)),
	} {
		all[c.label] = c
	}
	var labels []string
	switch config + "/" + size {
	case "snapshot-phase/small":
		labels = []string{"user-upsert:u1:a", "hs-fence:3:target22", "hs-fence:3:target23", "hs-ack:3:idx2", "hs-cleanup:3:through9", "hs-fence:3:no-target"}
	case "delta-phase/small":
		labels = []string{"user-upsert:u1:a", "hs-fence:3:no-target", "hs-ack:3:idx1", "hs-cleanup:3:through1", "hs-cleanup:3:through9", "hs-fence:envelope4-body3"}
	case "snapshot-phase/full":
		labels = []string{"user-upsert:u1:a", "user-upsert:u9:b@4", "hs-fence:3:target22", "hs-fence:3:target23", "hs-ack:3:idx2", "hs-cleanup:3:through1", "hs-cleanup:3:through9",
			"hs-delta:5>3:idx11:user-u3", "hs-delta:5>3:idx12:user-u1", "hs-fence:3:no-target", "hs-fence:envelope4-body3"}
	case "delta-phase/full":
		labels = []string{"user-upsert:u1:a", "user-upsert:u9:b@4", "hs-fence:3:no-target", "hs-fence:3:target23", "hs-ack:3:idx1", "hs-ack:3:idx2", "hs-cleanup:3:through1", "hs-cleanup:3:through9",
			"hs-delta:5>3:idx11:user-u3", "hs-fence:envelope4-body3"}
	default:
		panic("c13: unknown hash-slot menu " + config + "/" + size)
	}
	out := make([]c13Cmd, 0, len(labels))
	for _, l := range labels {
		c, ok := all[l]
		if !ok {
			panic("c13: no hash-slot menu entry " + l)
		}
		out = append(out, c)
	}
	return out
}

func c13RunHS(r *ev.R, config, size string, depth int) {
	s := &c13Sys{name: fmt.Sprintf("logs%d-hashslot-migration-%s", depth, config), menu: c13MenuHS(config, size), byLabel: map[string]int{}, maxDepth: depth}
	if config == "delta-phase" {
		s.cfg = c13DeltaConfig
	}
	_, res := c13RunSystem(r, s)
	if r.Replay() != nil {
		return
	}
	_, kinds := c13Count(&s.resultKinds)
	fenced := false
	for _, k := range kinds {
		if k == fsm.ApplyResultHashSlotFenced {
			fenced = true
		}
	}
	r.Guard(s.name+"/fenced-writes", fenced, "one-per-batch results observed=%v (need hash_slot_fenced)", kinds)
	r.Guard(s.name+"/logs", res.Transitions >= 150, "command logs=%d", res.Transitions)
	r.Guard(s.name+"/variants", s.partitionRuns.Load() >= 100 && s.restartRuns.Load() >= 100 && s.snapshotRuns.Load() >= 100,
		"partition runs=%d restart runs=%d snapshot-restore runs=%d", s.partitionRuns.Load(), s.restartRuns.Load(), s.snapshotRuns.Load())
	r.Guard(s.name+"/refused-logs", s.refusedLogs.Load() >= 5, "logs ending in a refused command=%d", s.refusedLogs.Load())
}

// ---------------------------------------------------------------- channel-migration (task + runtime-meta) systems

// c13MenuChanMig builds the four focused systems around the seven channel-migration commands that rewrite the task row AND
// the channel's runtime-meta row in one write-batch operation (SetChannelWriteFence, ResetChannelWriteFenceToPreCutover,
// CommitChannelLeaderTransfer, AddChannelLearner, PromoteLearnerAndRemoveReplica, ClearChannelWriteFence,
// AbortChannelMigration). The start state (preamble, one command per batch) is channel c1/2 with runtime meta and ONE
// active task T1 in the phase where the system's commands are applicable; the menu mixes those commands with later
// readers of the same runtime-meta row (lease renewal, an upsert that is stale once the migration command bumped the
// epoch, a newer-epoch upsert, a guarded retention advance) and a subscriber write as control. A batch with two or more
// migration commands is applied command by command by the state machine, so the interesting batches hold exactly one.
// Returns (preamble, menu, labels of migration commands that must answer ok and change the state in some log).
func c13MenuChanMig(config, size string) ([]c13Cmd, []c13Cmd, []string) {
	mk := func(label, family string, data []byte) c13Cmd {
		return c13Cmd{label: label, family: family, slot: c13Slot, hs: c13HS, data: data}
	}
	run := metadb.ChannelMigrationStatusRunning
	rtm := func(channelEpoch, leaderEpoch, leader uint64, replicas []uint64, lease int64) metadb.ChannelRuntimeMeta {
		m := c13RuntimeMeta(channelEpoch, leaderEpoch, leader)
		m.Replicas, m.LeaseUntilMS = replicas, lease
		return m
	}
	r123, r1234 := []uint64{1, 2, 3}, []uint64{1, 2, 3, 4}
	upsert := func(label, family string, m metadb.ChannelRuntimeMeta) c13Cmd {
		return mk("rtm-upsert:c1:"+label, family, fsm.EncodeUpsertChannelRuntimeMetaCommand(m))
	}
	retAdv := func(channelEpoch uint64) c13Cmd {
		return mk(fmt.Sprintf("ret-adv:c1:e%dl1L1:seq5", channelEpoch), "stale", fsm.EncodeAdvanceChannelRetentionThroughSeqCommand(metadb.ChannelRetentionAdvance{
			ChannelID: "c1", ChannelType: 2, ExpectedChannelEpoch: channelEpoch, ExpectedLeaderEpoch: 1, ExpectedLeader: 1, ExpectedLeaseUntilMS: 1000,
			RetentionThroughSeq: 5, RetentionUpdatedAtMS: 50}))
	}
	control := mk("sub-add:c1:u1,u2:v2", "valid", fsm.EncodeAddSubscribersCommand("c1", 2, []string{"u1", "u2"}, 2))
	guard := func(phase metadb.ChannelMigrationPhase, updatedAt int64) metadb.ChannelMigrationTaskGuard {
		return metadb.ChannelMigrationTaskGuard{ChannelID: "c1", ChannelType: 2, TaskID: "T1", ExpectedStatus: run, ExpectedPhase: phase, ExpectedUpdatedAtMS: updatedAt}
	}
	rg := func(channelEpoch, leaderEpoch, leader uint64, token string, version uint64) metadb.ChannelMigrationRuntimeGuard {
		return metadb.ChannelMigrationRuntimeGuard{ChannelID: "c1", ChannelType: 2, ExpectedChannelEpoch: channelEpoch, ExpectedLeaderEpoch: leaderEpoch,
			ExpectedLeader: leader, ExpectedFenceToken: token, ExpectedFenceVersion: version}
	}
	task := func(kind metadb.ChannelMigrationKind, phase metadb.ChannelMigrationPhase, source, target, desired, baseEpoch uint64) metadb.ChannelMigrationTask {
		return metadb.ChannelMigrationTask{TaskID: "T1", Kind: kind, Status: run, Phase: phase, ChannelID: "c1", ChannelType: 2, SourceNode: source, TargetNode: target,
			DesiredLeader: desired, BaseChannelEpoch: baseEpoch, BaseLeaderEpoch: 1, CreatedAtMS: 100, UpdatedAtMS: 100}
	}
	setFence := func(label string, g metadb.ChannelMigrationTaskGuard, r metadb.ChannelMigrationRuntimeGuard, phase metadb.ChannelMigrationPhase, until, updatedAt int64) c13Cmd {
		return mk("mig-set-fence:T1:"+label, "valid", fsm.EncodeSetChannelWriteFenceCommand(metadb.ChannelMigrationFenceRequest{Guard: g, RuntimeGuard: r, Status: run, Phase: phase,
			FenceReason: 1, FenceUntilMS: until, UpdatedAtMS: updatedAt}))
	}
	resetFence := func(g metadb.ChannelMigrationTaskGuard, r metadb.ChannelMigrationRuntimeGuard, phase metadb.ChannelMigrationPhase, updatedAt int64) c13Cmd {
		return mk("mig-reset-fence:T1:expired", "stale", fsm.EncodeResetChannelWriteFenceToPreCutoverCommand(metadb.ChannelMigrationResetFenceRequest{Guard: g, RuntimeGuard: r, Status: run, Phase: phase,
			NowMS: 950, UpdatedAtMS: updatedAt}))
	}
	abort := func(label string, g metadb.ChannelMigrationTaskGuard, r metadb.ChannelMigrationRuntimeGuard) c13Cmd {
		return mk("mig-abort:T1:"+label, "stale", fsm.EncodeAbortChannelMigrationCommand(metadb.ChannelMigrationAbortRequest{Guard: g, RuntimeGuard: r,
			Status: metadb.ChannelMigrationStatusAborted, Phase: g.ExpectedPhase, UpdatedAtMS: 300, CompletedAtMS: 300, LastError: "abort"}))
	}
	clearFence := func(g metadb.ChannelMigrationTaskGuard, r metadb.ChannelMigrationRuntimeGuard) c13Cmd {
		return mk("mig-clear-fence:T1:completed", "stale", fsm.EncodeClearChannelWriteFenceCommand(metadb.ChannelMigrationClearFenceRequest{Guard: g, RuntimeGuard: r,
			Status: metadb.ChannelMigrationStatusCompleted, Phase: metadb.ChannelMigrationPhaseClearFence, UpdatedAtMS: 180, CompletedAtMS: 180}))
	}
	advance := func(label string, g metadb.ChannelMigrationTaskGuard, phase metadb.ChannelMigrationPhase, updatedAt int64, proof metadb.ChannelMigrationCutoverProof) c13Cmd {
		return mk("mig-advance:T1:"+label, "stale", fsm.EncodeAdvanceChannelMigrationTaskCommand(metadb.ChannelMigrationTaskAdvance{Guard: g, Status: run, Phase: phase,
			UpdatedAtMS: updatedAt, CutoverProof: proof}))
	}
	proof := func(channelEpoch uint64) metadb.ChannelMigrationCutoverProof {
		return metadb.ChannelMigrationCutoverProof{CutoverLEO: 10, CutoverHW: 10, DrainedLeaderNode: 1, DrainedRuntimeGeneration: 1, DrainedChannelEpoch: channelEpoch, DrainedLeaderEpoch: 1, DrainedFenceVersion: 1}
	}
	create := func(t metadb.ChannelMigrationTask) c13Cmd {
		return mk("mig-create:T1", "valid", fsm.EncodeCreateChannelMigrationTaskCommand(t))
	}
	lt, rr := metadb.ChannelMigrationKindLeaderTransfer, metadb.ChannelMigrationKindReplicaReplace

	var pre, menu, full []c13Cmd
	var must []string
	switch config {
	case "leader-transfer-prefence":
		// T1 moves leadership 1 -> 2 and waits in phase write-fence: the fence is not set yet
		g0, r0 := guard(metadb.ChannelMigrationPhaseWriteFence, 100), rg(1, 1, 1, "", 0)
		g1, r1 := guard(metadb.ChannelMigrationPhaseDrainLeader, 150), rg(1, 1, 1, "T1", 1)
		pre = []c13Cmd{upsert("e1l1L1", "valid", rtm(1, 1, 1, r123, 1000)), create(task(lt, metadb.ChannelMigrationPhaseWriteFence, 1, 2, 2, 1))}
		fence := setFence("drain", g0, r0, metadb.ChannelMigrationPhaseDrainLeader, 900, 150)
		abortFenced := abort("fenced", g1, r1)
		menu = []c13Cmd{fence, abortFenced,
			upsert("e1l1L1:lease2000", "valid", rtm(1, 1, 1, r123, 2000)), retAdv(1), control}
		full = []c13Cmd{fence, abortFenced, abort("prefence", g0, r0), resetFence(g1, r1, metadb.ChannelMigrationPhaseWriteFence, 200),
			advance("commit-meta+proof", g1, metadb.ChannelMigrationPhaseCommitLeaderMeta, 160, proof(1)),
			upsert("e1l1L1:lease2000", "valid", rtm(1, 1, 1, r123, 2000)), upsert("e1l2L2:lease3000", "valid", rtm(1, 2, 2, r123, 3000)), retAdv(1), control}
		must = []string{fence.label, abortFenced.label}
	case "leader-transfer-cutover":
		// T1 holds the write fence (version 1, until 900) and carries the drain proof: the leader change can be committed
		g0, r0 := guard(metadb.ChannelMigrationPhaseWriteFence, 100), rg(1, 1, 1, "", 0)
		g1 := guard(metadb.ChannelMigrationPhaseDrainLeader, 150)
		g2, r2 := guard(metadb.ChannelMigrationPhaseCommitLeaderMeta, 160), rg(1, 1, 1, "T1", 1)
		g3, r3 := guard(metadb.ChannelMigrationPhaseVerifyNewLeader, 170), rg(1, 2, 2, "T1", 1)
		pre = []c13Cmd{upsert("e1l1L1", "valid", rtm(1, 1, 1, r123, 1000)), create(task(lt, metadb.ChannelMigrationPhaseWriteFence, 1, 2, 2, 1)),
			setFence("drain", g0, r0, metadb.ChannelMigrationPhaseDrainLeader, 900, 150),
			advance("commit-meta+proof", g1, metadb.ChannelMigrationPhaseCommitLeaderMeta, 160, proof(1))}
		commit := mk("mig-commit:T1:leader2", "stale", fsm.EncodeCommitChannelLeaderTransferCommand(metadb.ChannelMigrationLeaderTransferRequest{Guard: g2, RuntimeGuard: r2, Status: run,
			Phase: metadb.ChannelMigrationPhaseVerifyNewLeader, DesiredLeader: 2, NextLeaderEpoch: 2, LeaseUntilMS: 2000, NowMS: 500, UpdatedAtMS: 170}))
		clr := clearFence(g3, r3)
		abortCut := abort("cutover", g2, r2)
		menu = []c13Cmd{commit, clr, abortCut,
			upsert("e1l1L1:lease2000", "stale", rtm(1, 1, 1, r123, 2000)), retAdv(1), control}
		refresh := setFence("refresh", g2, r2, metadb.ChannelMigrationPhaseCommitLeaderMeta, 1500, 165)
		reset := resetFence(g2, r2, metadb.ChannelMigrationPhaseWriteFence, 200)
		full = []c13Cmd{commit, clr, abortCut, refresh, reset,
			upsert("e1l1L1:lease2000", "stale", rtm(1, 1, 1, r123, 2000)), upsert("e1l2L2:lease3000", "valid", rtm(1, 2, 2, r123, 3000)), retAdv(1), control}
		must = []string{commit.label, clr.label, abortCut.label}
		if size == "full" {
			must = append(must, refresh.label, reset.label)
		}
	case "replica-replace-add-learner":
		// T1 replaces replica 3 by node 4 and waits in phase add-learner
		g0, r0 := guard(metadb.ChannelMigrationPhaseAddLearner, 100), rg(1, 1, 1, "", 0)
		g1, r1 := guard(metadb.ChannelMigrationPhaseBootstrapTarget, 150), rg(2, 1, 1, "", 0)
		pre = []c13Cmd{upsert("e1l1L1", "valid", rtm(1, 1, 1, r123, 1000)), create(task(rr, metadb.ChannelMigrationPhaseAddLearner, 3, 4, 0, 1))}
		add := mk("mig-add-learner:T1:node4", "stale", fsm.EncodeAddChannelLearnerCommand(metadb.ChannelMigrationAddLearnerRequest{Guard: g0, RuntimeGuard: r0, Status: run,
			Phase: metadb.ChannelMigrationPhaseBootstrapTarget, TargetNode: 4, UpdatedAtMS: 150}))
		abortAdded := abort("learner-added", g1, r1)
		menu = []c13Cmd{add, abortAdded,
			upsert("e1l1L1:lease2000", "stale", rtm(1, 1, 1, r123, 2000)), upsert("e2l1L1:r1234:lease3000", "valid", rtm(2, 1, 1, r1234, 3000)), retAdv(1), control}
		full = []c13Cmd{add, abortAdded, abort("before-learner", g0, r0),
			advance("warm-catch-up", g1, metadb.ChannelMigrationPhaseWarmCatchUp, 160, metadb.ChannelMigrationCutoverProof{}),
			upsert("e1l1L1:lease2000", "stale", rtm(1, 1, 1, r123, 2000)), upsert("e2l1L1:r1234:lease3000", "valid", rtm(2, 1, 1, r1234, 3000)), retAdv(1), retAdv(2), control}
		must = []string{add.label, abortAdded.label}
	case "replica-replace-promote":
		// learner 4 is in the replica set (channel epoch 2), T1 holds the cutover fence and the drain proof: the learner can be promoted
		g0, r0 := guard(metadb.ChannelMigrationPhaseWarmCatchUp, 100), rg(2, 1, 1, "", 0)
		g1 := guard(metadb.ChannelMigrationPhaseCutoverFence, 150)
		g2, r2 := guard(metadb.ChannelMigrationPhasePromoteAndRemove, 160), rg(2, 1, 1, "T1", 1)
		g3, r3 := guard(metadb.ChannelMigrationPhaseVerifyMembership, 170), rg(3, 1, 1, "T1", 1)
		pre = []c13Cmd{upsert("e2l1L1:r1234", "valid", rtm(2, 1, 1, r1234, 1000)), create(task(rr, metadb.ChannelMigrationPhaseWarmCatchUp, 3, 4, 0, 2)),
			setFence("cutover", g0, r0, metadb.ChannelMigrationPhaseCutoverFence, 900, 150),
			advance("promote+proof", g1, metadb.ChannelMigrationPhasePromoteAndRemove, 160, proof(2))}
		promote := mk("mig-promote:T1:3>4", "stale", fsm.EncodePromoteLearnerAndRemoveReplicaCommand(metadb.ChannelMigrationPromoteLearnerRequest{Guard: g2, RuntimeGuard: r2, Status: run,
			Phase: metadb.ChannelMigrationPhaseVerifyMembership, SourceNode: 3, TargetNode: 4, NowMS: 500, UpdatedAtMS: 170}))
		clr := clearFence(g3, r3)
		abortFenced := abort("fenced-learner", g2, r2)
		menu = []c13Cmd{promote, clr, abortFenced,
			upsert("e2l1L1:r1234:lease2000", "stale", rtm(2, 1, 1, r1234, 2000)), retAdv(2), control}
		reset := resetFence(g2, r2, metadb.ChannelMigrationPhaseWarmCatchUp, 200)
		full = []c13Cmd{promote, clr, abortFenced, reset,
			upsert("e2l1L1:r1234:lease2000", "stale", rtm(2, 1, 1, r1234, 2000)), upsert("e3l1L1:r124:lease3000", "valid", func() metadb.ChannelRuntimeMeta {
				m := rtm(3, 1, 1, []uint64{1, 2, 4}, 3000)
				m.ISR = []uint64{1, 2, 4}
				return m
			}()), retAdv(2), control}
		must = []string{promote.label, clr.label, abortFenced.label}
		if size == "full" {
			must = append(must, reset.label)
		}
	default:
		panic("c13: unknown channel-migration system " + config)
	}
	if size == "full" {
		menu = full
	}
	return pre, menu, must
}

var c13ChanMigConfigs = []string{"leader-transfer-prefence", "leader-transfer-cutover", "replica-replace-add-learner", "replica-replace-promote"}

func c13RunChanMig(r *ev.R, config, size string, depth int) {
	pre, menu, must := c13MenuChanMig(config, size)
	s := &c13Sys{name: fmt.Sprintf("logs%d-chanmig-%s", depth, config), menu: menu, preamble: pre, byLabel: map[string]int{}, maxDepth: depth}
	if r.Replay() == nil {
		// the start state really is "runtime meta + one active task on c1" (read back through the metadb API, once)
		in := s.newInst().(*c13Inst)
		meta, merr := in.node.db.ForHashSlot(c13HS).GetChannelRuntimeMeta(c13Ctx, "c1", 2)
		active, ok, terr := in.node.db.ForHashSlot(c13HS).GetActiveChannelMigrationTask(c13Ctx, "c1", 2)
		r.Guard(s.name+"/start-state", !in.dead && merr == nil && terr == nil && ok && active.TaskID == "T1" && meta.ChannelID == "c1",
			"preamble ok=%v runtime meta err=%v (epoch %d fence %q/%d) active task found=%v err=%v (phase %d)", !in.dead, merr, meta.ChannelEpoch, meta.WriteFenceToken, meta.WriteFenceVersion, ok, terr, active.Phase)
		in.Close()
	}
	_, res := c13RunSystem(r, s)
	if r.Replay() != nil {
		return
	}
	var missing, unmixed []string
	for _, l := range must {
		if _, ok := s.okChanged.Load(l); !ok {
			missing = append(missing, l)
		}
		if _, ok := s.migThenReaderOK.Load(l); !ok {
			unmixed = append(unmixed, l)
		}
	}
	r.Count(s.name+".batches_one_successful_task+meta_command_then_runtime_meta_reader", s.migThenReader.Load())
	r.Guard(s.name+"/migration-commands-succeed", len(missing) == 0, "task+meta migration commands that never answered ok with a state change as their own batch: %v", missing)
	r.Guard(s.name+"/migration-command-then-reader-in-one-batch", len(unmixed) == 0 && s.migThenReader.Load() >= 20,
		"explored batches holding exactly one successful task+meta migration command followed by a runtime-meta upsert / retention advance=%d; commands never seen in such a batch: %v", s.migThenReader.Load(), unmixed)
	_, kinds := c13Count(&s.resultKinds)
	stale := false
	for _, k := range kinds {
		if k == fsm.ApplyResultStaleMeta {
			stale = true
		}
	}
	r.Guard(s.name+"/stale-results", stale, "one-per-batch results observed=%v (need stale_meta: guards of not-yet / no-longer applicable commands)", kinds)
	r.Guard(s.name+"/logs", res.Transitions >= 150, "command logs=%d", res.Transitions)
	r.Guard(s.name+"/variants", s.partitionRuns.Load() >= 100 && s.restartRuns.Load() >= 100 && s.snapshotRuns.Load() >= 100,
		"partition runs=%d restart runs=%d snapshot-restore runs=%d", s.partitionRuns.Load(), s.restartRuns.Load(), s.snapshotRuns.Load())
	r.Guard(s.name+"/menu-well-formed", s.refusedLogs.Load() == 0, "logs ending in a refused command=%d (every command of these menus is well-formed and owned: none may be refused)", s.refusedLogs.Load())
}

// ---------------------------------------------------------------- garbage payloads (enum)

type c13Garbage struct {
	node        *c13Node
	seedSnap    []byte
	seedRestore []byte // state machine snapshot of the seed state
	cur         []byte // snapshot the node currently holds
	curIdx      uint64 // durable applied index the node currently holds
	idx         uint64
}

// c13SeedCmds put a user, a channel with subscribers, runtime metadata and a migration task in place,
// so that garbage that happens to decode meets existing rows.
func c13SeedCmds() []c13Cmd {
	var out []c13Cmd
	for _, c := range c13Menu("core") {
		switch c.label {
		case "user-upsert:u1:a", "chan-create:c1", "sub-add:c1:u1,u2:v2", "rtm-upsert:c1:e1l1L1", "mig-create:T1":
			out = append(out, c)
		}
	}
	return out
}

func c13NewGarbage() *c13Garbage {
	n := c13Acquire()
	g := &c13Garbage{node: n}
	for _, c := range c13SeedCmds() {
		g.idx++
		if _, err := n.apply([]c13Cmd{c}, g.idx); err != nil {
			panic(fmt.Sprintf("c13 harness: seeding %s failed: %v", c.label, err))
		}
	}
	g.seedSnap, g.curIdx = n.state()
	g.seedRestore = n.restorable()
	g.cur = g.seedSnap
	return g
}

// feed applies one payload as its own batch and returns (outcome label, violation).
func (g *c13Garbage) feed(hs uint16, data []byte, what string) (string, *ev.Violation) {
	g.idx++
	a0 := g.curIdx
	res, err := g.node.apply([]c13Cmd{{label: what, slot: c13Slot, hs: hs, data: data}}, g.idx)
	replay := map[string]any{"system": "garbage", "hash_slot": hs, "payload_hex": hex.EncodeToString(data), "what": what}
	var p *c13Panic
	if errors.As(err, &p) {
		// the node may hold locks: replace it
		g.node.release()
		*g = *c13NewGarbage()
		return "PANIC", &ev.Violation{Fingerprint: "C13:panic-on-garbage-payload:" + strings.SplitN(what, ":", 2)[0], System: "garbage",
			Message: fmt.Sprintf("ApplyBatch panicked on %s payload %x: %s", what, data, p.msg), Replay: replay}
	}
	snap, a := g.node.state()
	if err != nil {
		if !bytes.Equal(snap, g.cur) || a != a0 {
			v := &ev.Violation{Fingerprint: "C13:refused-garbage-had-side-effects:" + strings.SplitN(what, ":", 2)[0], System: "garbage",
				Message: fmt.Sprintf("%s payload %x was refused (%v) but changed the state (applied %d -> %d): %s", what, data, err, a0, a, c13SnapDiff(g.cur, snap)), Replay: replay}
			g.cur, g.curIdx = snap, a
			return "refused-with-side-effect", v
		}
		return c13ErrClass(err), nil
	}
	if len(res) != 1 {
		return "bad-result-count", &ev.Violation{Fingerprint: "C13:result-count:garbage", System: "garbage", Message: fmt.Sprintf("%d results for one command", len(res)), Replay: replay}
	}
	out := "accepted:unchanged"
	if !bytes.Equal(snap, g.cur) {
		// the payload was a well-formed command: put the seed state back through the real restore path
		out = "accepted:changed"
		var foreign *ev.Violation
		if exp, err := g.node.db.ExportHashSlotSnapshot(c13Ctx, []uint16{c13Foreign}); err != nil {
			panic(fmt.Sprintf("c13 harness: export: %v", err))
		} else if exp.Stats.EntryCount != 0 {
			// an accepted command wrote rows into a hash slot the slot does not own
			if err := g.node.db.DeleteHashSlotData(c13Ctx, c13Foreign); err != nil {
				panic(fmt.Sprintf("c13 harness: wipe foreign hash slot: %v", err))
			}
			out = "accepted:wrote-foreign-hash-slot"
			foreign = &ev.Violation{Fingerprint: "C13:not-owned-hash-slot-written:" + strings.SplitN(what, ":", 2)[0], System: "garbage",
				Message: fmt.Sprintf("%s payload %x was accepted and wrote %d entries into hash slot %d, which slot %d does not own", what, data, exp.Stats.EntryCount, c13Foreign, c13Slot), Replay: replay}
		}
		if err := g.node.sm.Restore(c13Ctx, multiraft.Snapshot{Index: g.idx, Term: 1, Data: append([]byte(nil), g.seedRestore...)}); err != nil {
			panic(fmt.Sprintf("c13 harness: re-seeding failed: %v", err))
		}
		back, ba := g.node.state()
		if !bytes.Equal(back, g.seedSnap) {
			panic("c13 harness: re-seeding did not restore the seed snapshot")
		}
		g.cur, a = g.seedSnap, ba
		if foreign != nil {
			g.curIdx = a
			return out, foreign
		}
	}
	g.curIdx = a
	return out, nil
}

// c13Mutations lists the replacement values tried for one byte: quick = boundary values and
// neighbours, thorough = additionally every single-bit flip and small offsets.
func c13Mutations(b byte, wide bool) []byte {
	cand := []byte{0x00, 0xff, b ^ 0x01, b ^ 0x80, b + 1, b - 1}
	if wide {
		for k := 0; k < 8; k++ {
			cand = append(cand, b^(1<<k))
		}
		cand = append(cand, b+2, b-2, b+16, b-16, 0x01, 0x7f, 0x80, 0xfe, '"', '{', '}', ',', ':', '\\')
	}
	var out []byte
	seen := map[byte]bool{b: true}
	for _, v := range cand {
		if !seen[v] {
			seen[v] = true
			out = append(out, v)
		}
	}
	return out
}

func c13RunGarbage(r *ev.R) {
	thorough := r.Thorough()
	// 1. truncations and single-byte mutations of every valid encoding of the full menu
	e := r.NewEnum("garbage-truncations-and-mutations")
	var encs []c13Cmd
	for _, c := range c13Menu("full") {
		if c.family != "malformed" {
			encs = append(encs, c)
		}
	}
	encs = append(encs, c13ExtraEncodings()...)
	report := func(v *ev.Violation) {
		if v != nil {
			r.Violation(*v)
		}
	}
	typesSeen := map[byte]bool{}
	for _, c := range encs {
		typesSeen[c.data[1]] = true
	}
	{
		const workers = 8
		var wg sync.WaitGroup
		for w := 0; w < workers; w++ {
			wg.Add(1)
			go func(w int) {
				defer wg.Done()
				defer func() {
					if p := recover(); p != nil {
						r.HarnessError("garbage worker: %v", p)
					}
				}()
				gw := c13NewGarbage()
				defer func() { gw.node.release() }()
				for ci := w; ci < len(encs); ci += workers {
					c := encs[ci]
					for cut := 0; cut < len(c.data); cut++ {
						out, v := gw.feed(c.hs, c.data[:cut], "truncation:"+c.kind())
						report(v)
						e.Case(fmt.Sprintf("t|%s|%d", c.label, cut), true, out)
					}
					for pos := 0; pos < len(c.data); pos++ {
						for _, nv := range c13Mutations(c.data[pos], thorough) {
							m := append([]byte(nil), c.data...)
							m[pos] = nv
							out, v := gw.feed(c.hs, m, "mutation:"+c.kind())
							report(v)
							e.Case(fmt.Sprintf("m|%s|%d|%d", c.label, pos, nv), true, out)
						}
					}
				}
			}(w)
		}
		wg.Wait()
	}
	refused := e.Outcome("err:corrupt-value") + e.Outcome("err:invalid-argument") + e.Outcome("err:other")
	r.Guard("garbage-mutations-refused", refused >= 1000, "refused truncations/mutations=%d", refused)
	r.Guard("garbage-mutations-some-accepted", e.Outcome("accepted:changed")+e.Outcome("accepted:unchanged") >= 50, "mutations that are well-formed commands=%d", e.Outcome("accepted:changed")+e.Outcome("accepted:unchanged"))
	r.Guard("garbage-command-types", len(typesSeen) >= 40, "command types with a valid encoding=%d", len(typesSeen))
	e.Done(true, map[string]any{"valid_encodings": len(encs), "command_types": len(typesSeen), "mutation_values_per_byte": ev.Pick(r, "0x00,0xff,^1,^0x80,+1,-1", "quick set + every single-bit flip, +-2, +-16, 0x01,0x7f,0x80,0xfe and the JSON structural characters"),
		"truncations": "every proper prefix"}, "each payload is applied as its own batch on a replica seeded with user/channel/subscribers/runtime-meta/task; oracle: no panic, refused => snapshot and applied index unchanged")

	// 2. tiny bodies: every body of <=1 byte for every command-type byte; thorough additionally every 2-byte body
	e2 := r.NewEnum("garbage-tiny-bodies")
	deep := map[int]bool{}
	if thorough {
		for tb := range typesSeen {
			deep[int(tb)] = true
		}
		for tb := 0; tb < 256; tb++ {
			deep[tb] = true
		}
	}
	workers := 8
	var wg sync.WaitGroup
	for w := 0; w < workers; w++ {
		wg.Add(1)
		go func(w int) {
			defer wg.Done()
			defer func() {
				if p := recover(); p != nil {
					r.HarnessError("garbage worker: %v", p)
				}
			}()
			gw := c13NewGarbage()
			defer func() { gw.node.release() }()
			for typ := w; typ < 256; typ += workers {
				maxBody := 1
				if deep[typ] {
					maxBody = 2
				}
				for _, body := range [][]byte{{}} {
					out, v := gw.feed(c13HS, append([]byte{1, byte(typ)}, body...), "tiny-body:type")
					report(v)
					e2.CaseByConstruction(true, out)
				}
				for b0 := 0; b0 < 256; b0++ {
					out, v := gw.feed(c13HS, []byte{1, byte(typ), byte(b0)}, "tiny-body:type")
					report(v)
					e2.CaseByConstruction(true, out)
					if maxBody < 2 {
						continue
					}
					// the 256 two-byte bodies with this first byte: applied back to back, state compared once per block;
					// a block with an accepted payload or a changed state is repeated payload by payload from the seed state
					clean := true
					outs := make([]string, 256)
					for b1 := 0; b1 < 256; b1++ {
						gw.idx++
						_, err := gw.node.apply([]c13Cmd{{label: "tiny", slot: c13Slot, hs: c13HS, data: []byte{1, byte(typ), byte(b0), byte(b1)}}}, gw.idx)
						if err == nil || gw.node.poisoned {
							clean = false
							break
						}
						outs[b1] = c13ErrClass(err)
					}
					if clean {
						snap, a := gw.node.state()
						clean = bytes.Equal(snap, gw.cur) && a == gw.curIdx
					}
					if clean {
						for _, o := range outs {
							e2.CaseByConstruction(true, o)
						}
						continue
					}
					if gw.node.poisoned {
						gw.node.release()
						*gw = *c13NewGarbage()
					} else {
						if err := gw.node.sm.Restore(c13Ctx, multiraft.Snapshot{Index: gw.idx, Term: 1, Data: append([]byte(nil), gw.seedRestore...)}); err != nil {
							panic(fmt.Sprintf("c13 harness: re-seeding failed: %v", err))
						}
						gw.cur, gw.curIdx = gw.node.state()
						if !bytes.Equal(gw.cur, gw.seedSnap) {
							panic("c13 harness: re-seeding did not restore the seed snapshot")
						}
					}
					for b1 := 0; b1 < 256; b1++ {
						out, v := gw.feed(c13HS, []byte{1, byte(typ), byte(b0), byte(b1)}, "tiny-body:type")
						report(v)
						e2.CaseByConstruction(true, out)
					}
				}
			}
		}(w)
	}
	wg.Wait()
	r.Guard("tiny-bodies-refused", e2.Outcome("err:corrupt-value")+e2.Outcome("err:invalid-argument")+e2.Outcome("err:other") >= 60000, "refused tiny bodies=%d", e2.Outcome("err:corrupt-value")+e2.Outcome("err:invalid-argument")+e2.Outcome("err:other"))
	e2.Done(true, map[string]any{"command_type_bytes_with_bodies_up_to_1_byte": 256, "command_type_bytes_with_bodies_up_to_2_bytes": len(deep)}, "version byte 1; every type byte (registered or not) with every body of <=1 byte; the listed number of type bytes with every body of <=2 bytes")
}

// c13ReplayGarbage re-executes one recorded garbage violation.
func c13ReplayGarbage(r *ev.R, raw json.RawMessage) bool {
	var pl struct {
		System  string `json:"system"`
		HS      uint16 `json:"hash_slot"`
		Payload string `json:"payload_hex"`
		What    string `json:"what"`
	}
	if err := json.Unmarshal(raw, &pl); err != nil || pl.System != "garbage" {
		return false
	}
	data, err := hex.DecodeString(pl.Payload)
	if err != nil {
		r.HarnessError("replay: bad payload hex: %v", err)
		return true
	}
	g := c13NewGarbage()
	defer func() { g.node.release() }()
	out, v := g.feed(pl.HS, data, pl.What)
	fmt.Printf("replay garbage payload %x -> %s\n", data, out)
	if v != nil {
		r.MarkReplayReproduced()
		r.Violation(*v)
	}
	r.Section(ev.Section{Name: "garbage", Kind: "enum", Evaluations: 1, Note: "replay"})
	return true
}

// ---------------------------------------------------------------- test

func c13Setup(t *testing.T) (*ev.R, func()) {
	r := ev.Start(t, "C13")
	return r, func() {
		if p := recover(); p != nil {
			r.HarnessError("harness panic: %v", p)
		}
		c13DrainPool()
		if c13Base != "" {
			_ = os.RemoveAll(c13Base)
		}
		r.Finish()
	}
}

func c13Guards(r *ev.R, s *c13Sys, res mc.Result) {
	nf, fams := c13Count(&s.families)
	nr, kinds := c13Count(&s.resultKinds)
	r.Guard(s.name+"/families", nf >= 5, "command families exercised=%v (need valid, stale, conflict, malformed, notowned)", fams)
	r.Guard(s.name+"/result-kinds", nr >= 5, "distinct one-per-batch results=%d %v (need ok, stale_meta and conditional results)", nr, kinds)
	r.Guard(s.name+"/logs", res.Transitions >= 200, "command logs=%d", res.Transitions)
	r.Guard(s.name+"/variants", s.partitionRuns.Load() >= 200 && s.restartRuns.Load() >= 200 && s.snapshotRuns.Load() >= 200,
		"partition runs=%d restart runs=%d snapshot-restore runs=%d", s.partitionRuns.Load(), s.restartRuns.Load(), s.snapshotRuns.Load())
	r.Guard(s.name+"/stale-inside-multi-command-batch", s.multiBatchWithStale.Load() >= 10, "multi-command batches containing a stale_meta result (split-and-replay candidates)=%d", s.multiBatchWithStale.Load())
	r.Guard(s.name+"/refused-logs", s.refusedLogs.Load() >= 20, "logs ending in a refused command=%d", s.refusedLogs.Load())
}

func c13Assumptions(r *ev.R) {
	r.Count("db_opens", c13Opens.Load())
	r.Count("pooled_replicas_reused_after_verified_wipe", c13PoolReuse.Load())
	r.Count("pooled_replicas_rejected_not_empty", c13PoolReject.Load())
	r.Assume("a committed log contains a refused (malformed / not-owned) command only as its last applied entry: multiraft fail-stops the slot on an ApplyBatch error (slot.go applyCommittedEntries -> g.fail)")
	r.Assume("after a refused batch the replica may hold the state of any log prefix that ends inside the batch (whole-batch atomicity or split-and-replay), never anything else")
	r.Assume("the durable applied index may stay behind only for commands whose result is stale_meta (their write batch is not committed); it is compared by this rule, not for equality between partitions")
}

// TestVerifC13: quick = every log <=3 over the mini menu + every log <=2 over the core menu + garbage;
// thorough = every log <=2 over the full menu + every log <=3 over the core menu + garbage; both tiers: every log <=3 of
// the two hash-slot-migration systems and of the four channel-migration (task + runtime-meta) systems.
func TestVerifC13(t *testing.T) {
	r, done := c13Setup(t)
	defer done()
	if rf := r.Replay(); rf != nil {
		if c13ReplayGarbage(r, rf.Replay) {
			return
		}
	}
	type run struct {
		name, menu string
		depth      int
	}
	runs := []run{{"logs3-mini-menu", "mini", 3}, {"logs2-core-menu", "core", 2}}
	if r.Thorough() {
		runs = []run{{"logs2-full-menu", "full", 2}, {"logs3-core-menu", "core", 3}}
	}
	for _, x := range runs {
		s, res := c13RunLogs(r, x.name, x.menu, x.depth)
		if r.Replay() == nil {
			c13Guards(r, s, res)
		}
	}
	// hash-slot migration family (fence / outbox ack / cleanup / apply-delta around ordinary writes), with and
	// without the in-memory delta-phase migration table
	for _, config := range []string{"snapshot-phase", "delta-phase"} {
		if !r.Thorough() {
			c13RunHS(r, config, "small", 3)
		} else {
			c13RunHS(r, config, "full", 3)
		}
	}
	// channel-migration commands that rewrite task + runtime meta, mixed with later readers of the same runtime-meta row
	for _, config := range c13ChanMigConfigs {
		c13RunChanMig(r, config, ev.Pick(r, "small", "full"), 3)
	}
	if r.Replay() != nil {
		return
	}
	c13RunGarbage(r)
	c13Assumptions(r)
	r.Assume("the in-memory hash-slot migration table (UpdateOutgoingDeltaTargets) is fixed per explored system and installed on every state machine, also after a restart and on a snapshot-restored replica, as the slot runtime does; changes of that table between commands are outside the log and not explored")
}

// TestVerifC13Depth4 (thorough only): every log <=4 over the small menu, the small hash-slot-migration menus and the
// small channel-migration menus.
func TestVerifC13Depth4(t *testing.T) {
	r, done := c13Setup(t)
	defer done()
	s, res := c13RunLogs(r, "logs4-small-menu", "small", 4)
	for _, config := range []string{"snapshot-phase", "delta-phase"} {
		c13RunHS(r, config, "small", 4)
	}
	for _, config := range c13ChanMigConfigs {
		c13RunChanMig(r, config, "small", 4)
	}
	if r.Replay() != nil {
		return
	}
	c13Guards(r, s, res)
	c13Assumptions(r)
}
