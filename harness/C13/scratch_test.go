package fsm_test

import (
	"fmt"
	"os"
	"sync"
	"testing"
	"time"
)

func TestVerifC13Scratch(t *testing.T) {
	for _, w := range []int{1, 4, 16} {
		var wg sync.WaitGroup
		var mu sync.Mutex
		var tOpen, tApply, tSnap, tClose, tRm time.Duration
		N := 40
		t0 := time.Now()
		for g := 0; g < w; g++ {
			wg.Add(1)
			go func() {
				defer wg.Done()
				menu := c13Menu("core")
				for i := 0; i < N; i++ {
					a := time.Now()
					n, err := c13Open(c13FreshDir())
					if err != nil {
						panic(err)
					}
					b := time.Now()
					for k := 0; k < 3; k++ {
						n.apply(menu[k:k+1], uint64(k+1))
					}
					c := time.Now()
					n.state()
					d := time.Now()
					n.closeDB()
					e := time.Now()
					os.RemoveAll(n.dir)
					f := time.Now()
					mu.Lock()
					tOpen += b.Sub(a)
					tApply += c.Sub(b)
					tSnap += d.Sub(c)
					tClose += e.Sub(d)
					tRm += f.Sub(e)
					mu.Unlock()
				}
			}()
		}
		wg.Wait()
		tot := time.Duration(w * N)
		fmt.Printf("workers=%d wall=%v per-lifecycle(avg): open=%v apply3=%v snap=%v close=%v rm=%v throughput=%.0f/s\n", w, time.Since(t0), tOpen/tot, tApply/tot, tSnap/tot, tClose/tot, tRm/tot, float64(w*N)/time.Since(t0).Seconds())
	}
	os.RemoveAll(c13Base)
}
