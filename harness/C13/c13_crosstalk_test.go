package meta_test

// C13 (extension) - concurrent slots sharing ONE metadata DB.
//
// On a node every slot state machine writes into the same metadb.DB; all their write batches
// go through one group-commit coordinator (pkg/db/internal/commit). The slot state machine
// must give each replica identical metadata, so the answer to - and the effect of - a command
// of slot B must not depend on which command of slot A happens to share a physical commit.
//
// Engine E3 (vsched, delay bounding): pkg/db/internal/commit is rewritten completely,
// pkg/goroutine at spawn level, pkg/db/meta/db.go's locks (MetaDB.mu and the per-hash-slot
// commit locks that are held across Submit) become vsync locks. Pebble stays un-rewritten
// (on an in-memory vfs through the `verif` hook). One execution = fresh DB, two state
// machines (slot 1 / hash slot 1, slot 2 / hash slot 2), seed rows, then thread A applies a
// batch that is answered stale (its Build fails in the coordinator) while thread B applies a
// valid batch on a fresh key of the other hash slot. The coordinator's flush-window timer is
// virtual time. Every schedule within the delay bound is executed.
//
// Oracle: results, stored state (hash-slot snapshot bytes, durable applied index, stored row)
// of B equal those of B applied alone; the same for A. The references are computed on the same
// code in sequential executions (A alone, B alone, A;B and B;A, which must all agree).

import (
	"bytes"
	"context"
	"encoding/hex"
	"fmt"
	"os"
	"strings"
	"testing"
	"time"

	"github.com/cockroachdb/pebble/v2"
	"github.com/cockroachdb/pebble/v2/vfs"

	"github.com/WuKongIM/WuKongIM/pkg/db/internal/engine"
	metadb "github.com/WuKongIM/WuKongIM/pkg/db/meta"
	"github.com/WuKongIM/WuKongIM/pkg/slot/fsm"
	"github.com/WuKongIM/WuKongIM/pkg/slot/multiraft"
	"github.com/WuKongIM/WuKongIM/pkg/zzverif/ev"
	"github.com/WuKongIM/WuKongIM/pkg/zzverif/vsched"
	"github.com/WuKongIM/WuKongIM/pkg/zzverif/vsync"
)

const (
	c13xSlotA uint64 = 1
	c13xHSA   uint16 = 1
	c13xSlotB uint64 = 2
	c13xHSB   uint16 = 2

	c13xFP = "C13:group-commit-crosstalk:"

	c13xReportCap = 3
)

var c13xCtx = context.Background()

// ---------------------------------------------------------------- command menus

type c13xCmd struct {
	label string
	data  []byte
}

func c13xRTM(id string, channelEpoch, leaderEpoch, leader uint64) metadb.ChannelRuntimeMeta {
	return metadb.ChannelRuntimeMeta{ChannelID: id, ChannelType: 2, ChannelEpoch: channelEpoch, LeaderEpoch: leaderEpoch,
		Replicas: []uint64{1, 2, 3}, ISR: []uint64{1, 2, 3}, Leader: leader, MinISR: 2, Status: 1, Features: 1, LeaseUntilMS: 1000}
}

func c13xTask(id string, target uint64) metadb.ChannelMigrationTask {
	return metadb.ChannelMigrationTask{TaskID: id, Kind: metadb.ChannelMigrationKindLeaderTransfer, Status: metadb.ChannelMigrationStatusRunning,
		Phase: metadb.ChannelMigrationPhaseProbeTarget, ChannelID: "a", ChannelType: 2, SourceNode: 1, TargetNode: target, DesiredLeader: target,
		BaseChannelEpoch: 1, BaseLeaderEpoch: 1, CreatedAtMS: 100, UpdatedAtMS: 100}
}

func c13xRTMCmd(label, id string, ce, le, leader uint64) c13xCmd {
	return c13xCmd{label: label, data: fsm.EncodeUpsertChannelRuntimeMetaCommand(c13xRTM(id, ce, le, leader))}
}

func c13xUserCmd(uid, token string) c13xCmd {
	return c13xCmd{label: "user-upsert:" + uid + ":" + token, data: fsm.EncodeUpsertUserCommand(metadb.User{UID: uid, Token: token, DeviceFlag: 1})}
}

// c13xSideA returns (seed batches applied by the main thread before the race, A's batch,
// whether A's batch is meant to contain a command answered stale_meta).
func c13xSideA(kind string) (seed [][]c13xCmd, batch []c13xCmd, stale bool) {
	seedRTM := []c13xCmd{c13xRTMCmd("rtm-upsert:a:e1l1L1", "a", 1, 1, 1)}
	switch kind {
	case "leader-switch": // same (channel epoch, leader epoch), other leader: MonotonicConflict in Build
		return [][]c13xCmd{seedRTM}, []c13xCmd{c13xRTMCmd("rtm-upsert:a:e1l1L2", "a", 1, 1, 2)}, true
	case "retention-no-meta": // runtime row missing: ErrNotFound in Build
		return [][]c13xCmd{seedRTM}, []c13xCmd{{label: "ret-adv:zz", data: fsm.EncodeAdvanceChannelRetentionThroughSeqCommand(metadb.ChannelRetentionAdvance{
			ChannelID: "zz", ChannelType: 2, ExpectedChannelEpoch: 1, ExpectedLeaderEpoch: 1, ExpectedLeader: 1, ExpectedLeaseUntilMS: 1000,
			RetentionThroughSeq: 5, RetentionUpdatedAtMS: 50})}}, true
	case "second-active-task": // an active migration task exists: ErrAlreadyExists in Build
		return [][]c13xCmd{seedRTM, {{label: "mig-create:T1", data: fsm.EncodeCreateChannelMigrationTaskCommand(c13xTask("T1", 2))}}},
			[]c13xCmd{{label: "mig-create:T2", data: fsm.EncodeCreateChannelMigrationTaskCommand(c13xTask("T2", 3))}}, true
	case "user+leader-switch": // batch of two: the commit fails, the state machine re-applies one by one
		return [][]c13xCmd{seedRTM}, []c13xCmd{c13xUserCmd("ua", "t"), c13xRTMCmd("rtm-upsert:a:e1l1L2", "a", 1, 1, 2)}, true
	case "sub-add+leader-switch": // batch of two whose first command is NOT idempotent: its answer (changed count) reveals a partial write of the failed commit
		return [][]c13xCmd{seedRTM}, []c13xCmd{{label: "sub-add:a:u1,u2:v1", data: fsm.EncodeAddSubscribersCommand("a", 2, []string{"u1", "u2"}, 1)},
			c13xRTMCmd("rtm-upsert:a:e1l1L2", "a", 1, 1, 2)}, true
	case "leader-epoch-bump": // control: valid, nothing fails
		return [][]c13xCmd{seedRTM}, []c13xCmd{c13xRTMCmd("rtm-upsert:a:e1l2L2", "a", 1, 2, 2)}, false
	}
	panic("c13x: unknown A kind " + kind)
}

func c13xSideB(kind string) []c13xCmd {
	switch kind {
	case "first-rtm":
		return []c13xCmd{c13xRTMCmd("rtm-upsert:b:e1l1L1", "b", 1, 1, 1)}
	case "user":
		return []c13xCmd{c13xUserCmd("ub", "t")}
	case "first-rtm+user":
		return []c13xCmd{c13xRTMCmd("rtm-upsert:b:e1l1L1", "b", 1, 1, 1), c13xUserCmd("ub", "t")}
	}
	panic("c13x: unknown B kind " + kind)
}

// ---------------------------------------------------------------- one execution

type c13xSpec struct {
	Name  string
	A, B  string
	Order string // spawn order of the two appliers: "AB" | "BA"
	Bound int
}

type c13xSide struct {
	ran     bool
	res     []string
	err     string
	doneAt  time.Duration // virtual time at which ApplyBatch returned
	snap    []byte        // ExportHashSlotSnapshot of the side's hash slot after the race
	applied uint64        // durable applied index of the side's slot
	row     string        // side B: the stored runtime row of channel "b" / user "ub"
}

type c13xObs struct {
	a, b    c13xSide
	infra   string // harness-side failure (open, snapshot export, ...): reported as harness error
	grouped bool   // both ApplyBatch calls returned at the same virtual instant, i.e. their last commits were one physical commit (every physical commit ends its own 500us flush window)
}

func c13xLabels(cmds []c13xCmd) string {
	var l []string
	for _, c := range cmds {
		l = append(l, c.label)
	}
	return "[" + strings.Join(l, " | ") + "]"
}

func c13xApply(sm multiraft.StateMachine, slot uint64, hs uint16, cmds []c13xCmd, first uint64) ([]string, string) {
	batch := make([]multiraft.Command, len(cmds))
	for i, c := range cmds {
		batch[i] = multiraft.Command{SlotID: multiraft.SlotID(slot), HashSlot: hs, Index: first + uint64(i), Term: 1, Data: append([]byte(nil), c.data...)}
	}
	res, err := sm.(multiraft.BatchStateMachine).ApplyBatch(c13xCtx, batch)
	if err != nil {
		return nil, err.Error()
	}
	out := make([]string, len(res))
	for i, r := range res {
		out[i] = string(r)
		for _, c := range r {
			if c < 0x20 || c > 0x7e { // binary result encodings (e.g. subscriber mutation counts)
				out[i] = "0x" + hex.EncodeToString(r)
				break
			}
		}
	}
	return out, ""
}

// c13xExecute is the body of one execution. mode: "race" (A and B in their own threads),
// "A" / "B" (only that side, sequential), "AB" / "BA" (both, sequentially in that order).
func c13xExecute(s c13xSpec, mode string) *c13xObs {
	o := &c13xObs{}
	engine.VerifFS = vfs.NewMem()
	db, err := metadb.Open("/c13x/db")
	if err != nil {
		o.infra = "open: " + err.Error()
		return o
	}
	defer func() {
		if err := db.Close(); err != nil && o.infra == "" && !vsched.Aborting() {
			o.infra = "close: " + err.Error()
		}
	}()
	smA, errA := fsm.NewStateMachineWithHashSlots(db, c13xSlotA, []uint16{c13xHSA})
	smB, errB := fsm.NewStateMachineWithHashSlots(db, c13xSlotB, []uint16{c13xHSB})
	if errA != nil || errB != nil {
		o.infra = fmt.Sprintf("new state machine: %v %v", errA, errB)
		return o
	}
	seed, batchA, _ := c13xSideA(s.A)
	batchB := c13xSideB(s.B)
	next := uint64(1)
	for _, sb := range seed {
		res, e := c13xApply(smA, c13xSlotA, c13xHSA, sb, next)
		next += uint64(len(sb))
		for _, r := range res {
			if r != fsm.ApplyResultOK {
				e = "result " + r
			}
		}
		if e != "" {
			o.infra = "seed " + c13xLabels(sb) + ": " + e
			return o
		}
	}
	base := vsched.Now()
	runA := func() {
		o.a.res, o.a.err = c13xApply(smA, c13xSlotA, c13xHSA, batchA, next)
		o.a.doneAt, o.a.ran = vsched.Now().Sub(base), true
	}
	runB := func() {
		o.b.res, o.b.err = c13xApply(smB, c13xSlotB, c13xHSB, batchB, 1)
		o.b.doneAt, o.b.ran = vsched.Now().Sub(base), true
	}
	switch mode {
	case "race":
		var wg vsync.WaitGroup
		for _, c := range s.Order {
			wg.Add(1)
			if c == 'A' {
				vsched.GoNamed("slot1-applier-A", func() { defer wg.Done(); runA() })
			} else {
				vsched.GoNamed("slot2-applier-B", func() { defer wg.Done(); runB() })
			}
		}
		wg.Wait()
	case "A":
		runA()
	case "B":
		runB()
	case "AB":
		runA()
		runB()
	case "BA":
		runB()
		runA()
	}
	o.grouped = o.a.ran && o.b.ran && o.a.doneAt == o.b.doneAt
	// read back
	for _, side := range []struct {
		sd *c13xSide
		sm multiraft.StateMachine
		hs uint16
	}{{&o.a, smA, c13xHSA}, {&o.b, smB, c13xHSB}} {
		snap, err := db.ExportHashSlotSnapshot(c13xCtx, []uint16{side.hs})
		if err != nil {
			o.infra = "export: " + err.Error()
			return o
		}
		side.sd.snap = snap.Data
		idx, err := side.sm.(multiraft.DurableAppliedStateMachine).DurableAppliedIndex(c13xCtx)
		if err != nil {
			o.infra = "applied index: " + err.Error()
			return o
		}
		side.sd.applied = idx
	}
	if m, err := db.ForHashSlot(c13xHSB).GetChannelRuntimeMeta(c13xCtx, "b", 2); err == nil {
		o.b.row = fmt.Sprintf("rtm(b){epoch %d/%d leader %d}", m.ChannelEpoch, m.LeaderEpoch, m.Leader)
	} else {
		o.b.row = "rtm(b){" + err.Error() + "}"
	}
	if u, err := db.ForHashSlot(c13xHSB).GetUser(c13xCtx, "ub"); err == nil {
		o.b.row += " user(ub){token " + u.Token + "}"
	} else {
		o.b.row += " user(ub){" + err.Error() + "}"
	}
	return o
}

func (sd *c13xSide) String() string {
	if sd.err != "" {
		return "ERR(" + sd.err + ")"
	}
	return "[" + strings.Join(sd.res, ",") + "]"
}

func (sd *c13xSide) sameResult(ref *c13xSide) bool {
	return sd.err == ref.err && strings.Join(sd.res, "\x00") == strings.Join(ref.res, "\x00")
}

func (sd *c13xSide) sameState(ref *c13xSide) bool {
	return sd.applied == ref.applied && bytes.Equal(sd.snap, ref.snap) && sd.row == ref.row
}

// ---------------------------------------------------------------- references

type c13xRef struct {
	a, b c13xSide // A applied alone, B applied alone
}

// c13xSequential runs one sequential execution under the scheduler (the rewritten coordinator
// can only run inside an execution) with the default schedule.
func c13xSequential(s c13xSpec, mode string) (*c13xObs, error) {
	var o *c13xObs
	out := vsched.Run(vsched.Options{Delay: true, Horizon: 4000}, func() { o = c13xExecute(s, mode) })
	switch {
	case out.Panic != "":
		return nil, fmt.Errorf("panic: %s", out.Panic)
	case out.Deadlock:
		return nil, fmt.Errorf("deadlock: %v", out.BlockedAt)
	case out.Horizon:
		return nil, fmt.Errorf("horizon exceeded")
	case out.Unsupported != "":
		return nil, fmt.Errorf("unsupported: %s", out.Unsupported)
	case o == nil:
		return nil, fmt.Errorf("no observation")
	case o.infra != "":
		return nil, fmt.Errorf("%s", o.infra)
	}
	return o, nil
}

// c13xReference computes the sequential references and verifies that they are independent of
// the order of the two sides (the premise of the oracle: the two batches commute).
func c13xReference(r *ev.R, s c13xSpec) (*c13xRef, bool) {
	var obs [4]*c13xObs
	for i, mode := range []string{"A", "B", "AB", "BA"} {
		o, err := c13xSequential(s, mode)
		if err != nil {
			r.HarnessError("scenario %s: sequential reference %q failed: %v", s.Name, mode, err)
			return nil, false
		}
		obs[i] = o
	}
	ref := &c13xRef{a: obs[0].a, b: obs[1].b}
	for i, mode := range []string{"AB", "BA"} {
		o := obs[2+i]
		if !o.a.sameResult(&ref.a) || !o.a.sameState(&ref.a) || !o.b.sameResult(&ref.b) || !o.b.sameState(&ref.b) {
			r.HarnessError("scenario %s: sequential order %s differs from the sides applied alone (A %s vs %s, B %s vs %s): the batches do not commute, oracle premise broken",
				s.Name, mode, o.a.String(), ref.a.String(), o.b.String(), ref.b.String())
			return nil, false
		}
	}
	_, _, stale := c13xSideA(s.A)
	hasStale := false
	for _, x := range ref.a.res {
		if x == fsm.ApplyResultStaleMeta {
			hasStale = true
		}
	}
	r.Guard("reference-A-"+s.Name, ref.a.err == "" && hasStale == stale, "A alone %s -> %s (stale expected: %v)", c13xLabels(func() []c13xCmd { _, b, _ := c13xSideA(s.A); return b }()), ref.a.String(), stale)
	allOK := ref.b.err == ""
	for _, x := range ref.b.res {
		if x != fsm.ApplyResultOK {
			allOK = false
		}
	}
	// B's alone state must contain its write (not vacuous): compare with B's hash slot when only A ran
	r.Guard("reference-B-"+s.Name, allOK && !bytes.Equal(ref.b.snap, obs[0].b.snap), "B alone %s -> %s, hash slot %d changed: %v", c13xLabels(c13xSideB(s.B)), ref.b.String(), c13xHSB, !bytes.Equal(ref.b.snap, obs[0].b.snap))
	return ref, true
}

// ---------------------------------------------------------------- oracle

var (
	c13xSeen          = map[string]int64{}
	c13xFirstScenario = map[string]string{}
	c13xRepeats       int64
	c13xReported      = map[string]int{}
	c13xReportedSched = map[string]bool{}
	c13xInfra         string
)

func c13xJudge(s c13xSpec, ref *c13xRef, o *c13xObs, sched string, replay bool) error {
	if o == nil {
		return nil
	}
	if o.infra != "" {
		if c13xInfra == "" {
			c13xInfra = s.Name + ": " + o.infra
		}
		return nil
	}
	if o.grouped {
		c13xSeen["both-sides-finished-by-one-physical-commit"]++
	} else {
		c13xSeen["sides-finished-by-different-physical-commits"]++
	}
	_, batchA, stale := c13xSideA(s.A)
	batchB := c13xSideB(s.B)
	what := fmt.Sprintf("slot %d applies %s (alone: %s), slot %d applies %s (alone: %s) on one shared meta DB", c13xSlotA, c13xLabels(batchA), ref.a.String(), c13xSlotB, c13xLabels(batchB), ref.b.String())
	var errs []error
	bad := func(fp, format string, args ...any) {
		errs = append(errs, vsched.Violatef(c13xFP+fp, "%s: %s", what, fmt.Sprintf(format, args...)))
	}
	if !o.a.ran || !o.b.ran {
		bad("apply-never-returned", "ApplyBatch returned: A %v, B %v", o.a.ran, o.b.ran)
	}
	if o.a.ran && o.b.ran {
		// B: the valid batch of the other slot
		switch {
		case o.b.sameResult(&ref.b) && o.b.sameState(&ref.b):
			c13xSeen["B-as-alone"]++
		case !o.b.sameResult(&ref.b):
			gotStale := o.b.err == ""
			if gotStale {
				gotStale = false
				for _, x := range o.b.res {
					if x == fsm.ApplyResultStaleMeta {
						gotStale = true
					}
				}
			}
			lost := !o.b.sameState(&ref.b)
			if stale && gotStale && lost {
				bad("unrelated-request-failed-by-other-requests-build-error",
					"B was answered %s and its write is NOT stored on this replica (row now: %s; durable applied index of slot %d = %d, alone = %d); A was answered %s; both calls finished by the same physical commit: %v",
					o.b.String(), o.b.row, c13xSlotB, o.b.applied, ref.b.applied, o.a.String(), o.grouped)
			} else {
				bad("valid-batch-answer-differs-from-sequential", "B was answered %s (state as alone: %v, row now: %s); A was answered %s; both calls finished by the same physical commit: %v",
					o.b.String(), !lost, o.b.row, o.a.String(), o.grouped)
			}
		default:
			bad("valid-batch-answered-as-sequential-but-state-differs", "B was answered %s but hash slot %d differs from B applied alone (row now: %s, alone: %s; applied index %d, alone %d; snapshot equal: %v); both calls finished by the same physical commit: %v",
				o.b.String(), c13xHSB, o.b.row, ref.b.row, o.b.applied, ref.b.applied, bytes.Equal(o.b.snap, ref.b.snap), o.grouped)
		}
		// A: the batch with the stale command
		switch {
		case o.a.sameResult(&ref.a) && o.a.sameState(&ref.a):
			c13xSeen["A-as-alone"]++
		case !o.a.sameResult(&ref.a):
			bad("stale-batch-answer-differs-from-sequential", "A was answered %s (state as alone: %v); B was answered %s; both calls finished by the same physical commit: %v", o.a.String(), o.a.sameState(&ref.a), o.b.String(), o.grouped)
		default:
			bad("stale-batch-answered-as-sequential-but-state-differs", "A was answered %s but hash slot %d differs from A applied alone (applied index %d, alone %d; snapshot equal: %v); both calls finished by the same physical commit: %v",
				o.a.String(), c13xHSA, o.a.applied, ref.a.applied, bytes.Equal(o.a.snap, ref.a.snap), o.grouped)
		}
	}
	// The first scenario exhibiting a fingerprint reports it, for its first c13xReportCap
	// violating executions (the engine re-executes every reported violation twice and keeps
	// one entry per fingerprint anyway); every further execution with that fingerprint - in
	// this or in another scenario - is counted only.
	for _, err := range errs {
		fp := err.(interface{ Fingerprint() string }).Fingerprint()
		key := fp + "|" + s.Name + "|" + sched
		if replay || c13xReportedSched[key] {
			return err // --replay, or the engine's confirming re-execution of a reported schedule
		}
		c13xSeen["violating-executions:"+strings.TrimPrefix(fp, c13xFP)]++
		first, ok := c13xFirstScenario[fp]
		if !ok {
			c13xFirstScenario[fp], first = s.Name, s.Name
		}
		if first == s.Name && c13xReported[fp] < c13xReportCap {
			c13xReported[fp]++
			c13xReportedSched[key] = true
			return err
		}
		c13xRepeats++
	}
	return nil
}

func c13xScenario(s c13xSpec, ref *c13xRef, replay bool) vsched.Scenario {
	_, batchA, _ := c13xSideA(s.A)
	return vsched.Scenario{
		Name: s.Name, Property: "C13", Bound: s.Bound, Horizon: 4000, Delay: true,
		Bounds: map[string]any{"threads": "main + commit coordinator + applier A + applier B", "A_batch": c13xLabels(batchA), "B_batch": c13xLabels(c13xSideB(s.B)),
			"spawn_order": s.Order, "flush_window": "500us virtual", "hash_slots": "A: slot 1 / hash slot 1, B: slot 2 / hash slot 2"},
		Note: "two slot state machines race one ApplyBatch each on ONE meta DB (real rewritten group-commit coordinator, real Pebble on an in-memory vfs); oracle per complete execution: each side's answer and stored state equal the side applied alone",
		Body: func(x *vsched.Exec) {
			o := c13xExecute(s, "race")
			x.Data["obs"] = o
			x.Log("A=%s B=%s same-final-commit=%v appliedA=%d appliedB=%d rowB=%s infra=%q", o.a.String(), o.b.String(), o.grouped, o.a.applied, o.b.applied, o.b.row, o.infra)
		},
		Check: func(x *vsched.Exec) error {
			o, _ := x.Data["obs"].(*c13xObs)
			return c13xJudge(s, ref, o, fmt.Sprint(x.Out.Choices), replay)
		},
	}
}

// ---------------------------------------------------------------- the check

func c13xSpecs(r *ev.R) []c13xSpec {
	deep := ev.Pick(r, 3, 4)
	wide := ev.Pick(r, 2, 3)
	specs := []c13xSpec{
		{Name: "xtalk-leader-switch-vs-first-rtm-AB", A: "leader-switch", B: "first-rtm", Order: "AB", Bound: deep},
		{Name: "xtalk-leader-switch-vs-first-rtm-BA", A: "leader-switch", B: "first-rtm", Order: "BA", Bound: wide},
		{Name: "xtalk-control-epoch-bump-vs-first-rtm-AB", A: "leader-epoch-bump", B: "first-rtm", Order: "AB", Bound: wide},
		{Name: "xtalk-retention-no-meta-vs-user-BA", A: "retention-no-meta", B: "user", Order: "BA", Bound: wide},
		{Name: "xtalk-sub-add+leader-switch-vs-first-rtm-AB", A: "sub-add+leader-switch", B: "first-rtm", Order: "AB", Bound: wide},
	}
	if r.Thorough() {
		specs = append(specs,
			c13xSpec{Name: "xtalk-second-active-task-vs-first-rtm-AB", A: "second-active-task", B: "first-rtm", Order: "AB", Bound: wide},
			c13xSpec{Name: "xtalk-user+leader-switch-vs-first-rtm-AB", A: "user+leader-switch", B: "first-rtm", Order: "AB", Bound: wide},
			c13xSpec{Name: "xtalk-leader-switch-vs-first-rtm+user-BA", A: "leader-switch", B: "first-rtm+user", Order: "BA", Bound: wide},
			c13xSpec{Name: "xtalk-user+leader-switch-vs-first-rtm+user-AB", A: "user+leader-switch", B: "first-rtm+user", Order: "AB", Bound: wide},
		)
	}
	return specs
}

// c13xQuiet drops Pebble's informational log lines (one "Found 0 WALs" per opened DB).
type c13xQuiet struct{}

func (c13xQuiet) Infof(string, ...interface{})  {}
func (c13xQuiet) Errorf(string, ...interface{}) {}
func (c13xQuiet) Fatalf(format string, args ...interface{}) {
	panic("pebble fatal: " + fmt.Sprintf(format, args...))
}

func TestVerifC13Crosstalk(t *testing.T) {
	r := ev.Start(t, "C13")
	defer r.Finish()
	// small Pebble instances: one is opened per execution
	engine.VerifTweak = func(o *pebble.Options) {
		o.MemTableSize = 256 << 10
		o.CacheSize = 1 << 20
		o.Logger = c13xQuiet{}
	}
	r.Assume("crosstalk: Pebble is not rewritten (real goroutines, in-memory vfs, 256 KiB memtable): a managed thread really blocks for microseconds inside a Pebble commit; Pebble never waits for a managed thread")
	r.Assume("crosstalk: the coordinator's 500us flush window, time.Now and time.Since inside pkg/db/internal/commit run on virtual time: the window ends only as a scheduler decision (one deviation) or when no thread can run")
	r.Assume("crosstalk: pkg/goroutine is rewritten at spawn level only; of pkg/db/meta only db.go's sync import (MetaDB.mu and the per-hash-slot commit locks); pkg/slot/fsm is not rewritten (its locks are private to one state machine, each used by one thread)")
	r.Assume("crosstalk: the two sides address different hash slots and commute (verified per scenario: A;B, B;A and each side alone give identical answers and state)")
	specs := c13xSpecs(r)
	// VERIF_SEED only rotates the scenario order
	if n := len(specs); n > 0 {
		k := int(r.Seed() % int64(n))
		specs = append(append([]c13xSpec{}, specs[k:]...), specs[:k]...)
	}
	only := os.Getenv("C13X_ONLY")
	var execs int64
	outcomes, cut, explored := 0, 0, 0
	for _, s := range specs {
		if only != "" && !strings.Contains(s.Name, only) {
			continue
		}
		ref, ok := c13xReference(r, s)
		if !ok {
			continue
		}
		t0 := time.Now()
		st := vsched.Explore(r, c13xScenario(s, ref, r.Replay() != nil))
		fmt.Printf("c13x: %-52s bound=%d executions=%d outcomes=%d exhaustive=%v violations=%d %.1fs\n", s.Name, s.Bound, st.Executions, st.Outcomes, st.Exhaustive, st.Violations, time.Since(t0).Seconds())
		if c13xInfra != "" {
			r.HarnessError("infrastructure failure inside an execution: %s", c13xInfra)
			c13xInfra = ""
		}
		execs += st.Executions
		outcomes += st.Outcomes
		explored++
		if !st.Exhaustive {
			cut++
		}
	}
	if r.Replay() != nil {
		return
	}
	for k, v := range c13xSeen {
		r.Count("crosstalk_seen_"+k, v)
	}
	r.Count("crosstalk_violating_executions_counted_but_not_reported_again", c13xRepeats)
	if cut > 0 || only != "" {
		return // sections say exhaustive=false; coverage guards are only meaningful for complete runs
	}
	_, nsh := r.Shard()
	minExec := int64(200)
	if nsh > 1 {
		minExec = 20
	}
	r.Guard("crosstalk-executions", execs >= minExec, "executions=%d over %d scenarios", execs, explored)
	r.Guard("crosstalk-one-physical-commit", c13xSeen["both-sides-finished-by-one-physical-commit"] > 0, "executions in which one physical commit finished both ApplyBatch calls: %d", c13xSeen["both-sides-finished-by-one-physical-commit"])
	r.Guard("crosstalk-separate-physical-commits", c13xSeen["sides-finished-by-different-physical-commits"] > 0, "executions in which different physical commits finished the two ApplyBatch calls: %d", c13xSeen["sides-finished-by-different-physical-commits"])
	r.Guard("crosstalk-outcomes", outcomes >= explored, "sum of distinct observation vectors=%d", outcomes)
}
