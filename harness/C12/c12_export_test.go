package multiraft

// C12 export seam (in-package, test-only). The harness proper lives in the external
// package multiraft_test (c12_slotraft_test.go); this file only exposes what the exported
// API cannot reach:
//
//   - a Runtime WITHOUT goroutines and without the asynchronous apply pipeline, so that the
//     harness decides when a slot worker pass (the real Runtime.processSlot) runs;
//   - the tick flag, an explicit campaign control (= "the election timer of this node
//     fires"; no exported API enqueues controlCampaign) and a non-blocking variant of
//     Runtime.CompactLog (the exported one blocks until a worker goroutine answers);
//   - the slot object as an opaque value, for the reflective state dump used as Canon.
//
// Everything else (BootstrapSlot, OpenSlot, Step, Propose, TransferLeadership, Status) is
// the exported API.

import (
	"context"

	"github.com/WuKongIM/WuKongIM/pkg/goroutine"
)

// VerifC12NewRuntime mirrors New() minus start(): no worker, ticker or apply goroutines;
// apply == nil makes every slot apply committed entries inline (processReadySynchronously).
func VerifC12NewRuntime(opts Options) *Runtime {
	opts.Raft = NormalizeRaftOptions(opts.Raft)
	return &Runtime{
		opts:      opts,
		slots:     make(map[SlotID]*slot),
		scheduler: newScheduler(opts.Observer),
		stopCh:    make(chan struct{}),
	}
}

// VerifC12Pass runs one real worker pass over the slot and reports the requeue wish.
func (r *Runtime) VerifC12Pass(id SlotID) bool { return r.processSlot(id) }

// VerifC12Pending reports whether a worker pass would find anything to do.
func (r *Runtime) VerifC12Pending(id SlotID) bool {
	g := r.slots[id]
	if g == nil {
		return false
	}
	g.mu.Lock()
	pending := len(g.requests) > 0 || len(g.controls) > 0 || g.tickPending
	g.mu.Unlock()
	return pending || g.rawNode.HasReady()
}

// VerifC12Tick is what Runtime.enqueueTickForOpenSlots does for one slot.
func (r *Runtime) VerifC12Tick(id SlotID) {
	if g := r.slots[id]; g != nil {
		g.markTickPending()
	}
}

// VerifC12Campaign queues the campaign control (the local election timer fired).
func (r *Runtime) VerifC12Campaign(id SlotID) error {
	g := r.slots[id]
	if g == nil {
		return ErrSlotNotFound
	}
	return g.enqueueControl(controlAction{kind: controlCampaign})
}

// VerifC12CompactBegin queues the manual compaction control exactly as Runtime.CompactLog
// does and returns a poll function for its answer (available after the next pass).
func (r *Runtime) VerifC12CompactBegin(id SlotID) (func() (LogCompactionResult, error, bool), error) {
	g := r.slots[id]
	if g == nil {
		return nil, ErrSlotNotFound
	}
	req := logCompactionRequest{ctx: context.Background(), resp: make(chan logCompactionResponse, 1)}
	if err := g.enqueueControl(controlAction{kind: controlCompactLog, compact: &req}); err != nil {
		return nil, err
	}
	return func() (LogCompactionResult, error, bool) {
		select {
		case resp := <-req.resp:
			return resp.result, resp.err, true
		default:
			return LogCompactionResult{}, nil, false
		}
	}, nil
}

// VerifC12SlotObject returns the slot (including its RawNode) as an opaque value.
func (r *Runtime) VerifC12SlotObject(id SlotID) any {
	g := r.slots[id]
	if g == nil {
		return nil
	}
	return g
}

// VerifC12NewRuntimeNoTicker mirrors New() including the scheduler workers and the
// asynchronous apply pipeline, but does not start the ticker goroutine (run "async": a
// permanently pending virtual timer would add a "timer fires first" alternative to every
// scheduling decision; ticks are issued by the harness through VerifC12Kick instead).
func VerifC12NewRuntimeNoTicker(opts Options) (*Runtime, error) {
	opts.Raft = NormalizeRaftOptions(opts.Raft)
	if opts.NodeID == 0 || opts.Workers <= 0 || opts.Transport == nil {
		return nil, ErrInvalidOptions
	}
	if err := ValidateRaftOptions(opts.Raft); err != nil {
		return nil, err
	}
	rt := &Runtime{
		opts:      opts,
		slots:     make(map[SlotID]*slot),
		scheduler: newScheduler(opts.Observer),
		apply:     newApplyPipeline(opts.Workers, opts.Goroutines, opts.Observer),
		stopCh:    make(chan struct{}),
	}
	for i := 0; i < opts.Workers; i++ {
		rt.wg.Add(1)
		goroutine.SafeGo(opts.Goroutines, goroutine.TaskSlotRaftWorker, func() {
			defer rt.wg.Done()
			rt.runWorker()
		})
	}
	return rt, nil
}

// VerifC12Kick is one ticker beat for one slot (Runtime.enqueueTickForOpenSlots).
func (r *Runtime) VerifC12Kick(id SlotID) {
	r.mu.RLock()
	g := r.slots[id]
	r.mu.RUnlock()
	if g == nil {
		return
	}
	g.markTickPending()
	r.scheduler.enqueue(id)
}
