package multiraft_test

// C12 - Slot Raft replicas apply identical command sequences.
//
// Three real multiraft Runtimes (one per node, built by the in-package seam WITHOUT worker,
// ticker and apply goroutines) each host the slot(s) of a 3-voter Raft group. The harness
// owns the scheduling: a "pass" is one call of the real Runtime.processSlot (requests ->
// Ready -> tick -> Ready -> controls -> Ready, committed entries applied inline), messages
// travel through a harness Transport into per-node inboxes, storage is the repository's
// raftlog.NewMemory() behind a thin wrapper (crash injection), the state machine is a
// recording BatchStateMachine with a durable applied index (same contract as pkg/slot/fsm:
// ApplyBatch persists the last index, Restore replaces the state and sets the index).
//
// One top-level event = one client/timer/operator action followed by running the cluster
// to quiescence under the DEFAULT environment (every message delivered, per-node FIFO
// batches, nodes scheduled round-robin). Every departure from that default is an
// env.Choose deviation:
//   - at the start of an event: isolate node n (all its messages are lost) or stall node n
//     (it is not scheduled; its inbox and queued controls pile up) - persistent until the free
//     "heal" event, one faulty node at a time; or one directed link misbehaves for this event:
//     all its messages are dropped / held for later / delivered now and again later (the held
//     and duplicated copies are delivered by the "release" event = reordering, stale messages);
//     system msg1 asks the same three questions per single message instead;
//   - inside a worker pass: the node crashes before a Storage.Save, after it, or after a
//     state-machine apply, and is rebuilt from its storage + state machine (the crash-restart
//     event does the same between passes).
//
// Election timeouts are pushed beyond the horizon (ElectionTick 2^20, ticks only on
// leaders = heartbeats); "the election timer of node n fires" is the explicit campaign
// event and leader transfer is the explicit transfer event. This removes etcd-raft's only
// unseeded randomness (the randomized election timeout).
//
// Canon is a reflective dump of the complete slot objects including the etcd RawNode
// (every field, unexported ones included), the durable stores, the state machines, the
// network and the oracle bookkeeping - see c12Dump for the (short) exclusion list and why
// each excluded field cannot influence the future inside the bounds.

import (
	"bufio"
	"context"
	"crypto/sha256"
	"encoding/hex"
	"errors"
	"fmt"
	"os"
	"reflect"
	"sort"
	"strconv"
	"strings"
	"sync/atomic"
	"testing"
	"time"

	"github.com/WuKongIM/WuKongIM/pkg/raftlog"
	"github.com/WuKongIM/WuKongIM/pkg/slot/multiraft"
	"github.com/WuKongIM/WuKongIM/pkg/zzverif/ev"
	"github.com/WuKongIM/WuKongIM/pkg/zzverif/mc"
	"go.etcd.io/raft/v3/raftpb"
)

const (
	c12Nodes        = 3
	c12HashSlot     = uint16(7)
	c12EnvelopeSize = 10 // [hashSlot:2][createdAtMS:8], see slot.go proposalEnvelopeSize
	c12ElectionTick = 1 << 20
)

// ---------------------------------------------------------------- configuration

type c12Cfg struct {
	name         string
	slots        []multiraft.SlotID
	maxProposals int
	maxTicks     int
	maxLeaderChg int // campaign + transfer events
	maxCompacts  int
	maxCrashes   int // crash events + mid-step crashes
	transfer     bool
	campaign     bool
	leadTargets  []multiraft.NodeID // nodes that may campaign / receive a transfer
	compactNodes []multiraft.NodeID
	crashNodes   []multiraft.NodeID
	nodeFaults   bool          // isolate / stall deviations (persistent until heal)
	isolateOnly  bool          // node faults are restricted to "isolate n" (no stall)
	linkModes    []string      // per-event link deviations: "drop", "hold", "dup"
	msgDev       bool          // per-message drop / duplicate / hold deviations
	crashPoints  []string      // crash deviations inside a pass: "save-before", "save-after", "apply-after"
	pebble       *c12PebbleEnv // non-nil: raft log in the Pebble-backed raftlog store (no merging)
}

// c12PebbleEnv is one Pebble raft-log database per node on tmpfs, shared by all instances of
// a system; every instance uses fresh storage scopes (the scope id is independent of the
// multiraft SlotID), so "fresh instance" does not reopen a database.
type c12PebbleEnv struct {
	dir  string
	dbs  [c12Nodes + 1]*raftlog.DB
	next atomic.Uint64
}

func c12OpenPebble() (*c12PebbleEnv, error) {
	dir, err := os.MkdirTemp("/dev/shm", "verif-c12-")
	if err != nil {
		return nil, err
	}
	e := &c12PebbleEnv{dir: dir}
	for n := 1; n <= c12Nodes; n++ {
		db, err := raftlog.Open(fmt.Sprintf("%s/n%d", dir, n), raftlog.Options{WriteBatchMaxWait: time.Nanosecond})
		if err != nil {
			e.close()
			return nil, err
		}
		e.dbs[n] = db
	}
	return e, nil
}

func (e *c12PebbleEnv) close() {
	for _, db := range e.dbs {
		if db != nil {
			_ = db.Close()
		}
	}
	_ = os.RemoveAll(e.dir)
}

func (e *c12PebbleEnv) storage(node multiraft.NodeID) multiraft.Storage {
	return e.dbs[node].For(raftlog.SlotScope(e.next.Add(1)))
}

func c12Has(list []string, x string) bool {
	for _, y := range list {
		if x == y {
			return true
		}
	}
	return false
}

func c12HasNode(list []multiraft.NodeID, x multiraft.NodeID) bool {
	for _, y := range list {
		if x == y {
			return true
		}
	}
	return false
}

type c12Stats struct {
	passes, delivered, dropped, duplicated, held, isolatedDrops              atomic.Int64
	applyCalls, batchApplies, restoresRunning, restoresRestart               atomic.Int64
	acks, acksAfterLeaderChange, futNotLeader, futOtherErr, futAbandoned     atomic.Int64
	compactions, crashesTop, crashesMid, leaderChanges, twoLeaders, snapMsgs atomic.Int64
	forwardedProposals, proposeRejected, stalledBatches                      atomic.Int64
}

// ---------------------------------------------------------------- durable parts of a node

type c12Applied struct {
	Idx, Term uint64
	Data      string
}

// c12SM is the recording state machine of one (node, slot). It is "on disk": it survives
// crash-restart of the node. seq is the logical state (the applied command sequence).
type c12SM struct {
	in      *c12Inst
	node    multiraft.NodeID
	slot    multiraft.SlotID
	seq     []c12Applied
	applied uint64 // durable applied index (last command index, or snapshot index after Restore)
}

func (m *c12SM) lastIdx() uint64 {
	last := m.applied
	if n := len(m.seq); n > 0 && m.seq[n-1].Idx > last {
		last = m.seq[n-1].Idx
	}
	return last
}

func (m *c12SM) find(idx uint64) (c12Applied, bool) {
	for _, a := range m.seq {
		if a.Idx == idx {
			return a, true
		}
	}
	return c12Applied{}, false
}

func (m *c12SM) applyOne(cmd multiraft.Command) []byte {
	in := m.in
	data := string(cmd.Data)
	in.g.applyCalls.Add(1)
	if cmd.SlotID != m.slot || cmd.HashSlot != c12HashSlot {
		in.violate("C12:command-applied-on-wrong-slot", "node %d slot %d: command %q index %d arrived with slot %d hash slot %d", m.node, m.slot, data, cmd.Index, cmd.SlotID, cmd.HashSlot)
	}
	last := m.lastIdx()
	if cmd.Index <= last {
		in.violate("C12:reapplied-or-out-of-order-apply", "node %d slot %d: command %q applied at index %d but the state machine already holds everything up to index %d (restarts so far: %d)", m.node, m.slot, data, cmd.Index, last, in.nodes[m.node].restarts)
	}
	// no committed command may be skipped: neither one another replica already applied ...
	for _, e := range in.chosenSorted(m.slot) {
		if e.Idx > last && e.Idx < cmd.Index {
			in.violate("C12:skipped-committed-command", "node %d slot %d: applies index %d right after index %d, skipping index %d (%q, applied elsewhere)", m.node, m.slot, cmd.Index, last, e.Idx, e.Data)
		}
	}
	// ... nor a data entry of its own durable log
	for _, e := range in.nodes[m.node].stores[m.slot].entries(last+1, cmd.Index) {
		if e.Type == raftpb.EntryNormal && len(e.Data) > 0 {
			in.violate("C12:skipped-committed-command", "node %d slot %d: applies index %d right after index %d, skipping its own log entry %d", m.node, m.slot, cmd.Index, last, e.Index)
		}
	}
	if _, ok := in.labels[data]; !ok {
		in.violate("C12:applied-command-never-proposed", "node %d slot %d: index %d carries %q which no client proposed", m.node, m.slot, cmd.Index, data)
	}
	in.choose1(m.slot, m.node, c12Applied{Idx: cmd.Index, Term: cmd.Term, Data: data})
	m.seq = append(m.seq, c12Applied{Idx: cmd.Index, Term: cmd.Term, Data: data})
	m.applied = cmd.Index
	return []byte(c12ResultOf(data, cmd.Index))
}

func c12ResultOf(data string, idx uint64) string {
	return "r:" + data + "@" + strconv.FormatUint(idx, 10)
}

func (m *c12SM) Apply(ctx context.Context, cmd multiraft.Command) ([]byte, error) {
	res := m.applyOne(cmd)
	m.in.crashPoint(m.node, "apply-after")
	return res, nil
}

func (m *c12SM) ApplyBatch(ctx context.Context, cmds []multiraft.Command) ([][]byte, error) {
	if len(cmds) > 1 {
		m.in.g.batchApplies.Add(1)
	}
	out := make([][]byte, len(cmds))
	for i, cmd := range cmds {
		out[i] = m.applyOne(cmd)
	}
	m.in.crashPoint(m.node, "apply-after")
	return out, nil
}

func (m *c12SM) DurableAppliedIndex(ctx context.Context) (uint64, error) { return m.applied, nil }

func (m *c12SM) Snapshot(ctx context.Context) (multiraft.Snapshot, error) {
	var b strings.Builder
	for _, a := range m.seq {
		fmt.Fprintf(&b, "%d|%d|%s\n", a.Idx, a.Term, a.Data)
	}
	return multiraft.Snapshot{Data: []byte(b.String())}, nil
}

func (m *c12SM) Restore(ctx context.Context, snap multiraft.Snapshot) error {
	in := m.in
	var seq []c12Applied
	for _, line := range strings.Split(string(snap.Data), "\n") {
		if line == "" {
			continue
		}
		f := strings.SplitN(line, "|", 3)
		if len(f) != 3 {
			in.violate("C12:snapshot-corrupt", "node %d slot %d: snapshot at index %d does not decode (%q)", m.node, m.slot, snap.Index, line)
			continue
		}
		idx, err1 := strconv.ParseUint(f[0], 10, 64)
		term, err2 := strconv.ParseUint(f[1], 10, 64)
		if err1 != nil || err2 != nil {
			in.violate("C12:snapshot-corrupt", "node %d slot %d: snapshot at index %d does not decode (%q)", m.node, m.slot, snap.Index, line)
			continue
		}
		seq = append(seq, c12Applied{Idx: idx, Term: term, Data: f[2]})
	}
	if in.restarting {
		in.g.restoresRestart.Add(1)
	} else {
		in.g.restoresRunning.Add(1)
	}
	have := map[uint64]bool{}
	for _, a := range seq {
		have[a.Idx] = true
		if a.Idx > snap.Index {
			in.violate("C12:snapshot-beyond-its-index", "node %d slot %d: snapshot at index %d contains index %d", m.node, m.slot, snap.Index, a.Idx)
		}
		in.choose1(m.slot, m.node, a)
	}
	for _, e := range in.chosenSorted(m.slot) {
		if e.Idx <= snap.Index && !have[e.Idx] {
			in.violate("C12:snapshot-missing-committed-command", "node %d slot %d: restored snapshot at index %d lacks index %d (%q)", m.node, m.slot, snap.Index, e.Idx, e.Data)
		}
	}
	m.seq = seq
	if snap.Index > 0 {
		m.applied = snap.Index
	}
	return nil
}

// c12Store wraps the repository's in-memory raft log store; Save is a crash point.
type c12Store struct {
	in    *c12Inst
	node  multiraft.NodeID
	inner multiraft.Storage
}

func (s *c12Store) InitialState(ctx context.Context) (multiraft.BootstrapState, error) {
	return s.inner.InitialState(ctx)
}
func (s *c12Store) Entries(ctx context.Context, lo, hi, maxSize uint64) ([]raftpb.Entry, error) {
	return s.inner.Entries(ctx, lo, hi, maxSize)
}
func (s *c12Store) Term(ctx context.Context, index uint64) (uint64, error) {
	return s.inner.Term(ctx, index)
}
func (s *c12Store) FirstIndex(ctx context.Context) (uint64, error) { return s.inner.FirstIndex(ctx) }
func (s *c12Store) LastIndex(ctx context.Context) (uint64, error)  { return s.inner.LastIndex(ctx) }
func (s *c12Store) Snapshot(ctx context.Context) (raftpb.Snapshot, error) {
	return s.inner.Snapshot(ctx)
}
func (s *c12Store) Save(ctx context.Context, st multiraft.PersistentState) error {
	s.in.crashPoint(s.node, "save-before")
	err := s.inner.Save(ctx, st)
	s.in.crashPoint(s.node, "save-after")
	return err
}
func (s *c12Store) MarkApplied(ctx context.Context, index uint64) error {
	return s.inner.MarkApplied(ctx, index)
}
func (s *c12Store) MarkConfigApplied(ctx context.Context, index uint64) error {
	if c, ok := s.inner.(multiraft.ConfigAppliedIndexStorage); ok {
		return c.MarkConfigApplied(ctx, index)
	}
	return nil
}

// entries returns the durable log entries with lo <= index < hi (what is still there).
func (s *c12Store) entries(lo, hi uint64) []raftpb.Entry {
	if hi <= lo {
		return nil
	}
	ents, _ := s.inner.Entries(context.Background(), lo, hi, 0)
	return ents
}

func (s *c12Store) snapIndex() uint64 {
	snap, _ := s.inner.Snapshot(context.Background())
	return snap.Metadata.Index
}

// ---------------------------------------------------------------- volatile parts

type c12Transport struct {
	in   *c12Inst
	from multiraft.NodeID
}

func (t *c12Transport) Send(ctx context.Context, batch []multiraft.Envelope) error {
	for _, e := range batch {
		to := multiraft.NodeID(e.Message.To)
		if to < 1 || to > c12Nodes {
			t.in.violate("C12:message-to-unknown-node", "node %d sent %s to node %d", t.from, e.Message.Type, to)
			continue
		}
		if e.Message.Type == raftpb.MsgSnap {
			t.in.g.snapMsgs.Add(1)
		}
		if e.Message.Type == raftpb.MsgProp {
			t.in.g.forwardedProposals.Add(1)
		}
		t.in.nodes[to].inbox = append(t.in.nodes[to].inbox, c12CloneEnvelope(e))
	}
	return nil
}

func c12CloneEnvelope(e multiraft.Envelope) multiraft.Envelope {
	raw, err := e.Message.Marshal()
	if err != nil {
		panic(err)
	}
	var m raftpb.Message
	if err := m.Unmarshal(raw); err != nil {
		panic(err)
	}
	return multiraft.Envelope{SlotID: e.SlotID, Message: m}
}

type c12Node struct {
	id       multiraft.NodeID
	rt       *multiraft.Runtime
	stores   map[multiraft.SlotID]*c12Store
	sms      map[multiraft.SlotID]*c12SM
	inbox    []multiraft.Envelope
	restarts int
}

// c12FutObs is registered on the real future; it only records (no pointer back into the
// harness, so the reflective dump of a slot stays small).
type c12FutObs struct {
	Label string
	Done  bool
	Res   multiraft.Result
	Err   error
}

func (o *c12FutObs) ObserveFutureCompletion(res multiraft.Result, err error) {
	o.Done, o.Res, o.Err = true, res, err
}

const (
	c12Pending = iota
	c12Acked
	c12Failed
	c12Abandoned
)

type c12Proposal struct {
	label   string
	node    multiraft.NodeID
	slot    multiraft.SlotID
	fut     multiraft.Future
	obs     *c12FutObs
	state   int
	idx     uint64
	term    uint64
	errText string
	ackTerm uint64 // term of the acknowledging node when the future resolved
	// where the proposing node itself appended the command as leader (0 = never seen in its log)
	localIdx, localTerm uint64
}

type c12CrashSignal struct{ node multiraft.NodeID }

const (
	c12FaultNone = iota
	c12FaultIsolate
	c12FaultStall
)

// ---------------------------------------------------------------- instance

type c12Inst struct {
	cfg   *c12Cfg
	g     *c12Stats
	nodes [c12Nodes + 1]*c12Node
	pool  []multiraft.Envelope // delayed messages (held or duplicated), released by "release"

	faultKind int
	faultNode multiraft.NodeID
	// transient link deviation of the current event: every message from linkFrom to linkTo
	linkMode         string
	linkFrom, linkTo multiraft.NodeID

	env        *mc.Env
	restarting bool
	dead       bool

	nProp, nTick, nLeaderChg, nCompact, nCrash int
	leaderChangesSeen                          int

	proposals []*c12Proposal
	labels    map[string]bool
	chosen    map[multiraft.SlotID]map[uint64]c12Applied
	lastLead  map[multiraft.SlotID]string

	viol  error
	notes []string
}

func (in *c12Inst) violate(fp, format string, args ...any) {
	if in.viol == nil {
		in.viol = mc.Violatef(fp, format, args...)
	}
}

func (in *c12Inst) note(format string, args ...any) {
	in.notes = append(in.notes, fmt.Sprintf(format, args...))
}

// choose1 records / compares the command decided for one index of one slot.
func (in *c12Inst) choose1(slot multiraft.SlotID, node multiraft.NodeID, a c12Applied) {
	m := in.chosen[slot]
	if prev, ok := m[a.Idx]; ok {
		if prev.Data != a.Data || prev.Term != a.Term {
			in.violate("C12:divergent-command-at-index", "slot %d index %d: node %d applies (%q, term %d) but another replica applied (%q, term %d)", slot, a.Idx, node, a.Data, a.Term, prev.Data, prev.Term)
		}
		return
	}
	m[a.Idx] = a
}

func (in *c12Inst) chosenSorted(slot multiraft.SlotID) []c12Applied {
	m := in.chosen[slot]
	out := make([]c12Applied, 0, len(m))
	for _, a := range m {
		out = append(out, a)
	}
	sort.Slice(out, func(i, j int) bool { return out[i].Idx < out[j].Idx })
	return out
}

func (in *c12Inst) chooseEnv(label string, n int) int {
	if in.env == nil {
		return 0
	}
	return in.env.Choose(label, n)
}

// crashPoint asks the environment whether the node dies right here.
func (in *c12Inst) crashPoint(node multiraft.NodeID, where string) {
	if in.env == nil || in.restarting || in.nCrash >= in.cfg.maxCrashes || !c12Has(in.cfg.crashPoints, where) {
		return
	}
	if in.chooseEnv(fmt.Sprintf("crash %s@%d", where, node), 2) == 1 {
		in.nCrash++
		in.g.crashesMid.Add(1)
		in.note("n%d crashed at %s", node, where)
		panic(c12CrashSignal{node: node})
	}
}

func c12RaftOptions() multiraft.RaftOptions {
	return multiraft.RaftOptions{
		ElectionTick:  c12ElectionTick,
		HeartbeatTick: 1,
		PreVote:       true,
		CheckQuorum:   false,
		LogCompaction: multiraft.LogCompactionConfig{Enabled: true, EnabledSet: true, TriggerEntries: 1 << 40, CheckInterval: time.Hour},
	}
}

func (in *c12Inst) newRuntime(id multiraft.NodeID) *multiraft.Runtime {
	return multiraft.VerifC12NewRuntime(multiraft.Options{
		NodeID:       id,
		TickInterval: time.Second,
		Workers:      1,
		Transport:    &c12Transport{in: in, from: id},
		Raft:         c12RaftOptions(),
	})
}

func c12New(cfg *c12Cfg, g *c12Stats) *c12Inst {
	in := &c12Inst{cfg: cfg, g: g, labels: map[string]bool{}, chosen: map[multiraft.SlotID]map[uint64]c12Applied{}, lastLead: map[multiraft.SlotID]string{}}
	for _, s := range cfg.slots {
		in.chosen[s] = map[uint64]c12Applied{}
	}
	voters := []multiraft.NodeID{1, 2, 3}
	ctx := context.Background()
	for id := multiraft.NodeID(1); id <= c12Nodes; id++ {
		nd := &c12Node{id: id, stores: map[multiraft.SlotID]*c12Store{}, sms: map[multiraft.SlotID]*c12SM{}}
		in.nodes[id] = nd
		nd.rt = in.newRuntime(id)
		for _, s := range cfg.slots {
			inner := raftlog.NewMemory()
			if cfg.pebble != nil {
				inner = cfg.pebble.storage(id)
			}
			nd.stores[s] = &c12Store{in: in, node: id, inner: inner}
			nd.sms[s] = &c12SM{in: in, node: id, slot: s}
			err := nd.rt.BootstrapSlot(ctx, multiraft.BootstrapSlotRequest{
				Slot:     multiraft.SlotOptions{ID: s, Storage: nd.stores[s], StateMachine: nd.sms[s]},
				Voters:   voters,
				Campaign: id == 1,
			})
			if err != nil {
				panic(fmt.Sprintf("c12: bootstrap node %d slot %d: %v", id, s, err))
			}
		}
	}
	in.settle()
	for _, s := range cfg.slots {
		in.lastLead[s] = in.leaderKey(s)
	}
	return in
}

// ---------------------------------------------------------------- scheduling

func (in *c12Inst) isolated(n multiraft.NodeID) bool {
	return in.faultKind == c12FaultIsolate && in.faultNode == n
}
func (in *c12Inst) stalled(n multiraft.NodeID) bool {
	return in.faultKind == c12FaultStall && in.faultNode == n
}

// pass runs one real worker pass; a crash signal raised by a storage/state-machine crash
// point restarts the node, any other panic is reported.
func (in *c12Inst) pass(nd *c12Node, slot multiraft.SlotID) {
	defer func() {
		if r := recover(); r != nil {
			if _, ok := r.(c12CrashSignal); ok {
				in.restart(nd)
				return
			}
			in.violate("C12:panic-in-slot-step", "node %d slot %d: worker pass panicked: %v", nd.id, slot, r)
			in.dead = true
		}
	}()
	in.g.passes.Add(1)
	nd.rt.VerifC12Pass(slot)
	if c12Trace {
		st := in.status(nd.id, slot)
		fmt.Printf("   pass n%d: role=%d term=%d lead=%d commit=%d applied=%d sm=%v\n", nd.id, st.Role, st.Term, st.LeaderID, st.CommitIndex, st.AppliedIndex, nd.sms[slot].seq)
	}
	in.pollFutures()
}

func (in *c12Inst) restart(nd *c12Node) {
	for _, p := range in.proposals {
		if p.node == nd.id && p.state == c12Pending {
			p.state = c12Abandoned
			in.g.futAbandoned.Add(1)
		}
	}
	nd.restarts++
	nd.rt = in.newRuntime(nd.id)
	in.restarting = true
	defer func() { in.restarting = false }()
	for _, s := range in.cfg.slots {
		if err := nd.rt.OpenSlot(context.Background(), multiraft.SlotOptions{ID: s, Storage: nd.stores[s], StateMachine: nd.sms[s]}); err != nil {
			in.violate("C12:restart-failed", "node %d slot %d cannot be reopened from its own storage: %v", nd.id, s, err)
			in.dead = true
		}
	}
}

var c12Trace = os.Getenv("C12_TRACE") != ""

func c12MsgText(m raftpb.Message) string {
	var ents []string
	for _, e := range m.Entries {
		d := ""
		if e.Type == raftpb.EntryNormal && len(e.Data) > c12EnvelopeSize {
			d = ":" + string(e.Data[c12EnvelopeSize:])
		}
		ents = append(ents, fmt.Sprintf("%d/%d%s", e.Index, e.Term, d))
	}
	return fmt.Sprintf("%s %d>%d term=%d logterm=%d index=%d commit=%d reject=%v ents=%v", m.Type, m.From, m.To, m.Term, m.LogTerm, m.Index, m.Commit, m.Reject, ents)
}

func (in *c12Inst) deliver(nd *c12Node, e multiraft.Envelope) {
	if c12Trace {
		fmt.Println("   deliver", c12MsgText(e.Message))
	}
	if err := nd.rt.Step(context.Background(), e); err != nil {
		in.note("n%d step %s: %v", nd.id, e.Message.Type, err)
	}
}

// settle runs the cluster to quiescence. Round-robin over the nodes; a node takes its whole
// inbox as one batch (what a Runtime worker does) and then runs passes until idle.
func (in *c12Inst) settle() {
	for round := 0; round < 400; round++ {
		progressed := false
		for id := multiraft.NodeID(1); id <= c12Nodes; id++ {
			if in.dead {
				return
			}
			nd := in.nodes[id]
			if in.stalled(id) {
				continue
			}
			batch := nd.inbox
			nd.inbox = nil
			if len(batch) > 1 {
				in.g.stalledBatches.Add(1)
			}
			for _, e := range batch {
				progressed = true
				from := multiraft.NodeID(e.Message.From)
				if in.isolated(from) || in.isolated(id) {
					in.g.isolatedDrops.Add(1)
					continue
				}
				c := 0
				if in.linkMode != "" && in.linkFrom == from && in.linkTo == id {
					switch in.linkMode {
					case "drop":
						c = 1
					case "dup":
						c = 2
					case "hold":
						c = 3
					}
				} else if in.cfg.msgDev {
					c = in.chooseEnv(fmt.Sprintf("net %d>%d %s", from, id, e.Message.Type), 4)
				}
				switch c {
				case 0:
					in.g.delivered.Add(1)
					in.deliver(nd, e)
				case 1:
					in.g.dropped.Add(1)
					in.note("drop %d>%d %s", from, id, e.Message.Type)
				case 2:
					in.g.duplicated.Add(1)
					in.note("dup %d>%d %s", from, id, e.Message.Type)
					in.pool = append(in.pool, c12CloneEnvelope(e))
					in.deliver(nd, e)
				case 3:
					in.g.held.Add(1)
					in.note("hold %d>%d %s", from, id, e.Message.Type)
					in.pool = append(in.pool, e)
				}
			}
			for _, s := range in.cfg.slots {
				for k := 0; k < 64 && !in.dead && in.nodes[id].rt.VerifC12Pending(s); k++ {
					progressed = true
					in.pass(in.nodes[id], s)
				}
			}
		}
		if !progressed {
			return
		}
	}
	in.violate("C12:no-quiescence", "the cluster did not become idle within 400 scheduling rounds without ticks")
	in.dead = true
}

func (in *c12Inst) pollFutures() {
	for _, p := range in.proposals {
		if p.state == c12Pending && p.localIdx == 0 {
			st := in.nodes[p.node].stores[p.slot]
			first, _ := st.inner.FirstIndex(context.Background())
			last, _ := st.inner.LastIndex(context.Background())
			for _, e := range st.entries(first, last+1) {
				if e.Type == raftpb.EntryNormal && string(e.Data) == string(c12Payload(p.label)) {
					p.localIdx, p.localTerm = e.Index, e.Term
				}
			}
		}
		if p.state != c12Pending || !p.obs.Done {
			continue
		}
		// Future.Wait must agree with the completion observer (done is closed before dispatch).
		ctx, cancel := context.WithCancel(context.Background())
		res, err := p.fut.Wait(ctx)
		cancel()
		if (err == nil) != (p.obs.Err == nil) || res.Index != p.obs.Res.Index || res.Term != p.obs.Res.Term || string(res.Data) != string(p.obs.Res.Data) {
			in.violate("C12:future-wait-disagrees-with-completion", "proposal %q: Wait returned (%d,%d,%v), completion observer saw (%d,%d,%v)", p.label, res.Index, res.Term, err, p.obs.Res.Index, p.obs.Res.Term, p.obs.Err)
		}
		if err != nil {
			p.state = c12Failed
			p.errText = err.Error()
			if errors.Is(err, multiraft.ErrNotLeader) {
				in.g.futNotLeader.Add(1)
			} else {
				in.g.futOtherErr.Add(1)
			}
			in.note("fut %s failed: %v", p.label, err)
			continue
		}
		p.state, p.idx, p.term = c12Acked, res.Index, res.Term
		p.ackTerm = in.status(p.node, p.slot).Term
		in.g.acks.Add(1)
		if in.leaderChangesSeen > 0 {
			in.g.acksAfterLeaderChange.Add(1)
		}
		in.note("fut %s acked (%d,%d)", p.label, res.Index, res.Term)
		sm := in.nodes[p.node].sms[p.slot]
		got, ok := sm.find(res.Index)
		if p.localIdx == res.Index && p.localTerm != res.Term && (!ok || got.Data != p.label) {
			// the node appended the command itself as leader of term localTerm; that entry was
			// overwritten, and the future was completed by the entry another leader put there
			in.violate("C12:stale-future-completed-by-foreign-entry-of-later-term", "proposal %q was appended by node %d slot %d at (index %d, term %d) and never committed; its future was reported committed at index %d term %d with result %q when the entry of a later leader (%q) was applied there", p.label, p.node, p.slot, p.localIdx, p.localTerm, res.Index, res.Term, res.Data, got.Data)
		}
		if in.status(p.node, p.slot).Role != multiraft.RoleLeader && (!ok || got.Data != p.label) {
			// the acknowledging node is a follower: it forwarded the proposal (MsgProp) and bound the
			// future to the next data entry it received from the leader
			in.violate("C12:forwarded-proposal-future-bound-to-foreign-entry", "proposal %q was queued on node %d slot %d while it still believed to lead, forwarded after it stepped down, and then reported committed at index %d term %d with result %q - but index %d holds command %q", p.label, p.node, p.slot, res.Index, res.Term, res.Data, res.Index, got.Data)
		}
		switch {
		case !ok:
			in.violate("C12:future-result-mismatch", "proposal %q on node %d slot %d was reported committed at index %d term %d, but the local state machine applied nothing at that index", p.label, p.node, p.slot, res.Index, res.Term)
		case got.Data != p.label:
			in.violate("C12:future-result-mismatch", "proposal %q on node %d slot %d was reported committed at index %d term %d, but index %d holds command %q", p.label, p.node, p.slot, res.Index, res.Term, res.Index, got.Data)
		case got.Term != res.Term:
			in.violate("C12:future-result-mismatch", "proposal %q on node %d slot %d was reported committed at index %d term %d, but the entry applied there has term %d", p.label, p.node, p.slot, res.Index, res.Term, got.Term)
		case string(res.Data) != c12ResultOf(p.label, res.Index):
			in.violate("C12:future-result-mismatch", "proposal %q on node %d slot %d received apply result %q (expected %q)", p.label, p.node, p.slot, res.Data, c12ResultOf(p.label, res.Index))
		}
	}
}

func (in *c12Inst) status(n multiraft.NodeID, s multiraft.SlotID) multiraft.Status {
	st, err := in.nodes[n].rt.Status(s)
	if err != nil {
		return multiraft.Status{}
	}
	return st
}

func (in *c12Inst) leaderKey(s multiraft.SlotID) string {
	var parts []string
	for id := multiraft.NodeID(1); id <= c12Nodes; id++ {
		st := in.status(id, s)
		if st.Role == multiraft.RoleLeader {
			parts = append(parts, fmt.Sprintf("%d@%d", id, st.Term))
		}
	}
	return strings.Join(parts, ",")
}

// ---------------------------------------------------------------- mc.Instance

func c12Payload(label string) []byte {
	b := make([]byte, c12EnvelopeSize, c12EnvelopeSize+len(label))
	b[0], b[1] = byte(c12HashSlot>>8), byte(c12HashSlot)
	return append(b, label...)
}

func (in *c12Inst) Events() []string {
	if in.dead {
		return nil
	}
	var evs []string
	for _, s := range in.cfg.slots {
		sfx := fmt.Sprintf(":s%d", s)
		var leaders, others []multiraft.NodeID
		for id := multiraft.NodeID(1); id <= c12Nodes; id++ {
			if in.status(id, s).Role == multiraft.RoleLeader {
				leaders = append(leaders, id)
			} else {
				others = append(others, id)
			}
		}
		if in.nProp < in.cfg.maxProposals {
			label := string(rune('a' + in.nProp))
			for _, id := range leaders {
				evs = append(evs, fmt.Sprintf("propose@%d%s:%s", id, sfx, label))
			}
		}
		if in.nTick < in.cfg.maxTicks {
			for _, id := range leaders {
				evs = append(evs, fmt.Sprintf("tick@%d%s", id, sfx))
			}
		}
		if in.nCompact < in.cfg.maxCompacts {
			for _, id := range in.cfg.compactNodes {
				if !in.stalled(id) && in.status(id, s).AppliedIndex > in.nodes[id].stores[s].snapIndex() {
					evs = append(evs, fmt.Sprintf("compact@%d%s", id, sfx))
				}
			}
		}
		if in.nLeaderChg < in.cfg.maxLeaderChg {
			for _, id := range others {
				if in.cfg.campaign && c12HasNode(in.cfg.leadTargets, id) {
					evs = append(evs, fmt.Sprintf("campaign@%d%s", id, sfx))
				}
			}
			if in.cfg.transfer {
				for _, l := range leaders {
					for id := multiraft.NodeID(1); id <= c12Nodes; id++ {
						if id != l && c12HasNode(in.cfg.leadTargets, id) {
							evs = append(evs, fmt.Sprintf("transfer@%d>%d%s", l, id, sfx))
						}
					}
				}
			}
		}
	}
	if in.faultKind != c12FaultNone {
		evs = append(evs, "heal")
	}
	if len(in.pool) > 0 {
		evs = append(evs, "release")
	}
	if in.nCrash < in.cfg.maxCrashes {
		for _, id := range in.cfg.crashNodes {
			if !in.stalled(id) {
				evs = append(evs, fmt.Sprintf("crash@%d", id))
			}
		}
	}
	return evs
}

func c12ParseEvent(evl string) (verb string, node, target multiraft.NodeID, slot multiraft.SlotID, label string) {
	parts := strings.Split(evl, ":")
	head := parts[0]
	if i := strings.IndexByte(head, '@'); i >= 0 {
		verb = head[:i]
		rest := head[i+1:]
		if j := strings.IndexByte(rest, '>'); j >= 0 {
			t, _ := strconv.Atoi(rest[j+1:])
			target = multiraft.NodeID(t)
			rest = rest[:j]
		}
		n, _ := strconv.Atoi(rest)
		node = multiraft.NodeID(n)
	} else {
		verb = head
	}
	if len(parts) > 1 {
		s, _ := strconv.Atoi(strings.TrimPrefix(parts[1], "s"))
		slot = multiraft.SlotID(s)
	}
	if len(parts) > 2 {
		label = parts[2]
	}
	return
}

func (in *c12Inst) Apply(evl string, env *mc.Env) (string, error) {
	in.env = env
	in.viol = nil
	in.notes = in.notes[:0]
	defer func() { in.env = nil }()
	ctx := context.Background()
	verb, node, target, slot, label := c12ParseEvent(evl)

	// One environment deviation may begin with any event: a node fault (persistent until the
	// free "heal" event; one faulty node at a time = a minority) or a link deviation that
	// lasts for this event (all messages of one directed link dropped / held / duplicated).
	in.linkMode, in.linkFrom, in.linkTo = "", 0, 0
	{
		nNode := 0
		if in.cfg.nodeFaults && in.faultKind == c12FaultNone && verb != "heal" {
			nNode = 2 * c12Nodes
			if in.cfg.isolateOnly {
				nNode = c12Nodes
			}
		}
		nLink := len(in.cfg.linkModes) * c12Nodes * (c12Nodes - 1)
		if c := in.chooseEnv("env", 1+nNode+nLink); c > 0 {
			c--
			switch {
			case c < nNode && c < c12Nodes: // (isolateOnly: nNode == c12Nodes)
				in.faultKind, in.faultNode = c12FaultIsolate, multiraft.NodeID(c+1)
				in.note("isolate n%d", c+1)
			case c < nNode:
				in.faultKind, in.faultNode = c12FaultStall, multiraft.NodeID(c-c12Nodes+1)
				in.note("stall n%d", c-c12Nodes+1)
			default:
				c -= nNode
				links := c12Nodes * (c12Nodes - 1)
				in.linkMode = in.cfg.linkModes[c/links]
				l := c % links
				from := l/(c12Nodes-1) + 1
				to := l%(c12Nodes-1) + 1
				if to >= from {
					to++
				}
				in.linkFrom, in.linkTo = multiraft.NodeID(from), multiraft.NodeID(to)
				in.note("%s link %d>%d", in.linkMode, from, to)
			}
		}
	}

	var compactPoll func() (multiraft.LogCompactionResult, error, bool)
	switch verb {
	case "propose":
		in.nProp++
		in.labels[label] = true
		fut, err := in.nodes[node].rt.Propose(ctx, slot, c12Payload(label))
		if err != nil {
			in.g.proposeRejected.Add(1)
			in.note("propose %s rejected: %v", label, err)
			break
		}
		p := &c12Proposal{label: label, node: node, slot: slot, fut: fut, obs: &c12FutObs{Label: label}}
		cf, ok := fut.(multiraft.CompletionFuture)
		if !ok || !cf.ObserveCompletion(p.obs) {
			in.violate("C12:harness-cannot-observe-future", "future of %q does not accept a completion observer", label)
		}
		in.proposals = append(in.proposals, p)
	case "tick":
		in.nTick++
		in.nodes[node].rt.VerifC12Tick(slot)
	case "campaign":
		in.nLeaderChg++
		if err := in.nodes[node].rt.VerifC12Campaign(slot); err != nil {
			in.note("campaign rejected: %v", err)
		}
	case "transfer":
		in.nLeaderChg++
		if err := in.nodes[node].rt.TransferLeadership(ctx, slot, target); err != nil {
			in.note("transfer rejected: %v", err)
		}
	case "compact":
		in.nCompact++
		poll, err := in.nodes[node].rt.VerifC12CompactBegin(slot)
		if err != nil {
			in.note("compact rejected: %v", err)
		}
		compactPoll = poll
	case "crash":
		in.nCrash++
		in.g.crashesTop.Add(1)
		in.restart(in.nodes[node])
	case "heal":
		in.faultKind, in.faultNode = c12FaultNone, 0
	case "release":
		pool := in.pool
		in.pool = nil
		for _, e := range pool {
			to := multiraft.NodeID(e.Message.To)
			in.nodes[to].inbox = append(in.nodes[to].inbox, e)
		}
	default:
		panic("c12: unknown event " + evl)
	}
	in.settle()
	in.linkMode, in.linkFrom, in.linkTo = "", 0, 0
	if compactPoll != nil {
		res, err, ok := compactPoll()
		switch {
		case !ok:
			in.note("compact unanswered")
		case err != nil:
			in.note("compact error: %v", err)
		case res.Compacted:
			in.g.compactions.Add(1)
			in.note("compacted to %d", res.AfterSnapshotIndex)
		default:
			in.note("compact skipped: %s", res.SkippedReason)
		}
	}
	for _, s := range in.cfg.slots {
		key := in.leaderKey(s)
		if key != in.lastLead[s] {
			if key != "" && !strings.Contains(key, ",") {
				in.leaderChangesSeen++
				in.g.leaderChanges.Add(1)
			}
			in.lastLead[s] = key
		}
		if strings.Contains(key, ",") {
			in.g.twoLeaders.Add(1)
		}
	}
	return in.observation(), in.viol
}

func (in *c12Inst) observation() string {
	var b strings.Builder
	for _, s := range in.cfg.slots {
		fmt.Fprintf(&b, "s%d L=%s a=", s, in.leaderKey(s))
		for id := multiraft.NodeID(1); id <= c12Nodes; id++ {
			fmt.Fprintf(&b, "%d/", in.nodes[id].sms[s].lastIdx())
		}
		b.WriteByte(' ')
	}
	b.WriteString(strings.Join(in.notes, "; "))
	return b.String()
}

// Check is the state invariant (evaluated in every state, after the transition oracle).
func (in *c12Inst) Check() error {
	if in.viol != nil {
		return in.viol
	}
	for _, s := range in.cfg.slots {
		// per replica: strictly increasing indexes, every entry equals the decided command
		for id := multiraft.NodeID(1); id <= c12Nodes; id++ {
			sm := in.nodes[id].sms[s]
			var prev uint64
			for _, a := range sm.seq {
				if a.Idx <= prev {
					return mc.Violatef("C12:reapplied-or-out-of-order-apply", "node %d slot %d: state machine sequence not strictly increasing at index %d", id, s, a.Idx)
				}
				prev = a.Idx
				if c, ok := in.chosen[s][a.Idx]; !ok || c.Data != a.Data || c.Term != a.Term {
					return mc.Violatef("C12:divergent-command-at-index", "node %d slot %d index %d holds %q, decided command is %q", id, s, a.Idx, a.Data, c.Data)
				}
			}
			last := sm.lastIdx()
			for _, c := range in.chosenSorted(s) {
				if c.Idx <= last {
					if _, ok := sm.find(c.Idx); !ok {
						return mc.Violatef("C12:skipped-committed-command", "node %d slot %d is at index %d but never applied index %d (%q)", id, s, last, c.Idx, c.Data)
					}
				}
			}
		}
	}
	for _, p := range in.proposals {
		if p.state != c12Acked {
			continue
		}
		for id := multiraft.NodeID(1); id <= c12Nodes; id++ {
			nd := in.nodes[id]
			sm := nd.sms[p.slot]
			if sm.lastIdx() >= p.idx {
				if a, ok := sm.find(p.idx); !ok || a.Data != p.label {
					return mc.Violatef("C12:acked-command-not-applied-at-reported-index", "proposal %q was acknowledged at index %d, node %d slot %d reached index %d and holds %q there", p.label, p.idx, id, p.slot, sm.lastIdx(), a.Data)
				}
			}
			st := in.status(id, p.slot)
			if st.Role != multiraft.RoleLeader || st.Term < p.ackTerm {
				continue
			}
			// the leader of the acknowledging or any later term must still have the write
			if p.idx <= nd.stores[p.slot].snapIndex() {
				if a, ok := sm.find(p.idx); !ok || a.Data != p.label {
					return mc.Violatef("C12:acked-command-lost-on-later-leader", "proposal %q acknowledged at (%d, term %d) is missing from the snapshot state of node %d, leader of term %d", p.label, p.idx, p.term, id, st.Term)
				}
				continue
			}
			ents := nd.stores[p.slot].entries(p.idx, p.idx+1)
			if len(ents) != 1 || string(ents[0].Data) != string(c12Payload(p.label)) {
				return mc.Violatef("C12:acked-command-lost-on-later-leader", "proposal %q acknowledged at (%d, term %d) is not in the log of node %d, leader of term %d", p.label, p.idx, p.term, id, st.Term)
			}
		}
	}
	return nil
}

// ---------------------------------------------------------------- canonical form

// c12DumpSkip lists the only fields left out of the reflective dump, with the reason.
var c12DumpSkip = map[string]bool{
	// harness-owned objects, dumped separately and completely (store, state machine)
	"slot.storage": true, "slot.stateMachine": true, "storageAdapter.storage": true, "raftLog.storage": true,
	// loggers / observers (nil or no-op, never read back)
	"slot.logger": true, "slot.observer": true, "raft.logger": true, "raft.traceLogger": true, "raftLog.logger": true, "unstable.logger": true,
	// nil pipeline, condition variable (no waiter exists in a synchronous harness)
	"slot.apply": true, "slot.cond": true,
	// statistics that no code path reads for a decision
	"slot.requestCount": true, "slot.tickCount": true, "slot.basicStatusRefreshCount": true, "slot.fullStatusRefreshCount": true,
	// allocation hints of the pending-future maps
	"slot.pendingProposalCap": true, "slot.pendingConfigCap": true,
	// election clock: only compared against ElectionTick (2^20) resp. the randomized timeout
	// in [2^20, 2^21); the harness issues at most maxTicks (<= 4) ticks, so neither the counter
	// nor the random threshold can influence any step inside the bounds.
	"raft.electionElapsed": true, "raft.randomizedElectionTimeout": true,
}

var c12TimeType = reflect.TypeOf(time.Time{})

type c12Sink interface {
	WriteString(string) (int, error)
}

type c12Dumper struct {
	b    c12Sink
	seen map[uintptr]int
}

func (d *c12Dumper) val(v reflect.Value) {
	if !v.IsValid() {
		d.b.WriteString("nil")
		return
	}
	if v.Type() == c12TimeType {
		d.b.WriteString("T")
		return
	}
	switch v.Kind() {
	case reflect.Bool:
		if v.Bool() {
			d.b.WriteString("t")
		} else {
			d.b.WriteString("f")
		}
	case reflect.Int, reflect.Int8, reflect.Int16, reflect.Int32, reflect.Int64:
		d.b.WriteString(strconv.FormatInt(v.Int(), 10))
	case reflect.Uint, reflect.Uint8, reflect.Uint16, reflect.Uint32, reflect.Uint64, reflect.Uintptr:
		d.b.WriteString(strconv.FormatUint(v.Uint(), 10))
	case reflect.Float32, reflect.Float64:
		d.b.WriteString(strconv.FormatFloat(v.Float(), 'g', -1, 64))
	case reflect.String:
		d.b.WriteString(strconv.Quote(v.String()))
	case reflect.Slice, reflect.Array:
		if v.Type().Elem().Kind() == reflect.Uint8 {
			d.b.WriteString("x")
			for i := 0; i < v.Len(); i++ {
				d.b.WriteString(hex.EncodeToString([]byte{byte(v.Index(i).Uint())}))
			}
			return
		}
		d.b.WriteString("[")
		for i := 0; i < v.Len(); i++ {
			if i > 0 {
				d.b.WriteString(",")
			}
			d.val(v.Index(i))
		}
		d.b.WriteString("]")
	case reflect.Map:
		// keys first (sorted by their dump), values afterwards in that order, so that the
		// numbering of shared pointers does not depend on map iteration order
		type kv struct {
			k string
			v reflect.Value
		}
		var items []kv
		it := v.MapRange()
		for it.Next() {
			var kb strings.Builder
			(&c12Dumper{b: &kb, seen: d.seen}).val(it.Key())
			items = append(items, kv{kb.String(), it.Value()})
		}
		sort.Slice(items, func(i, j int) bool { return items[i].k < items[j].k })
		d.b.WriteString("map{")
		for _, it := range items {
			d.b.WriteString(it.k + "=")
			d.val(it.v)
			d.b.WriteString(";")
		}
		d.b.WriteString("}")
	case reflect.Struct:
		t := v.Type()
		d.b.WriteString(t.Name() + "{")
		for i := 0; i < v.NumField(); i++ {
			f := t.Field(i)
			if c12DumpSkip[t.Name()+"."+f.Name] {
				continue
			}
			d.b.WriteString(f.Name + ":")
			d.val(v.Field(i))
			d.b.WriteString(" ")
		}
		d.b.WriteString("}")
	case reflect.Ptr:
		if v.IsNil() {
			d.b.WriteString("nil")
			return
		}
		p := v.Pointer()
		if id, ok := d.seen[p]; ok {
			d.b.WriteString("@" + strconv.Itoa(id))
			return
		}
		d.seen[p] = len(d.seen) + 1
		d.b.WriteString("&" + strconv.Itoa(d.seen[p]))
		d.val(v.Elem())
	case reflect.Interface:
		if v.IsNil() {
			d.b.WriteString("nil")
			return
		}
		d.b.WriteString("<" + v.Elem().Type().String() + ">")
		d.val(v.Elem())
	case reflect.Func, reflect.Chan, reflect.UnsafePointer:
		// func values mirror raft.state (tick/step) or are clocks; channels carry no state here
		// (future.done is mirrored by future.completionState, request channels by the poll closure).
		d.b.WriteString("-")
	default:
		d.b.WriteString("?" + v.Kind().String())
	}
}

func c12Dump(w c12Sink, x any) {
	d := &c12Dumper{b: w, seen: map[uintptr]int{}}
	d.val(reflect.ValueOf(x))
}

func c12MsgKey(e multiraft.Envelope) string {
	raw, _ := e.Message.Marshal()
	return fmt.Sprintf("s%d:%s", e.SlotID, hex.EncodeToString(raw))
}

func (in *c12Inst) Canon() string {
	if in.dead || in.cfg.pebble != nil {
		// Pebble store: caches and on-disk layout are not readable through the Storage API
		return ""
	}
	h := sha256.New()
	b := bufio.NewWriterSize(h, 8192)
	in.writeState(b)
	b.Flush()
	return hex.EncodeToString(h.Sum(nil))
}

// writeState writes everything the future and the oracle depend on.
func (in *c12Inst) writeState(b *bufio.Writer) {
	fmt.Fprintf(b, "budget %d %d %d %d %d fault=%d/%d\n", in.nProp, in.nTick, in.nLeaderChg, in.nCompact, in.nCrash, in.faultKind, in.faultNode)
	for id := multiraft.NodeID(1); id <= c12Nodes; id++ {
		nd := in.nodes[id]
		for _, s := range in.cfg.slots {
			fmt.Fprintf(b, "n%d s%d\n slot=", id, s)
			c12Dump(b, nd.rt.VerifC12SlotObject(s))
			b.WriteString("\n store=")
			c12Dump(b, nd.stores[s].inner)
			fmt.Fprintf(b, "\n sm=%d %v\n", nd.sms[s].applied, nd.sms[s].seq)
		}
		b.WriteString(" inbox=")
		for _, e := range nd.inbox {
			b.WriteString(c12MsgKey(e) + ",")
		}
		b.WriteString("\n")
	}
	b.WriteString("pool=")
	for _, e := range in.pool {
		b.WriteString(c12MsgKey(e) + ",")
	}
	b.WriteString("\nprops=")
	for _, p := range in.proposals {
		fmt.Fprintf(b, "%s@%d/s%d:%d:%d:%d:%d:%s;", p.label, p.node, p.slot, p.state, p.idx, p.term, p.ackTerm, p.errText)
	}
	b.WriteString("\nchosen=")
	for _, s := range in.cfg.slots {
		for _, a := range in.chosenSorted(s) {
			fmt.Fprintf(b, "s%d/%d=%s/%d;", s, a.Idx, a.Data, a.Term)
		}
	}
}

// ---------------------------------------------------------------- test

func TestVerifC12(t *testing.T) {
	r := ev.Start(t, "C12")
	defer r.Finish()
	g := &c12Stats{}
	th := r.Thorough()

	all := []multiraft.NodeID{1, 2, 3}
	n12 := []multiraft.NodeID{1, 2}
	base := c12Cfg{
		slots:        []multiraft.SlotID{1},
		maxProposals: 2, maxTicks: 1, maxLeaderChg: 1, maxCompacts: 1, maxCrashes: 1,
		transfer: true, campaign: true, leadTargets: []multiraft.NodeID{2}, compactNodes: n12, crashNodes: all,
		nodeFaults: true, linkModes: []string{"drop", "hold", "dup"},
		crashPoints: []string{"save-before", "save-after", "apply-after"},
	}
	// C12_DEPTH_<system> / C12_DEV_<system> override a bound while developing (the bound actually
	// used is what the evidence records); C12_TRACE=1 prints every delivery and pass of a replay.
	dbg := func(name string, def int) int {
		if v, err := strconv.Atoi(os.Getenv(name)); err == nil {
			return v
		}
		return def
	}
	type sysSpec struct {
		cfg        c12Cfg
		depth, dev int
		maxStates  int64
	}
	var specs []sysSpec
	add := func(name string, depth, dev int, tweak func(c *c12Cfg)) {
		c := base
		c.name = name
		if tweak != nil {
			tweak(&c)
		}
		specs = append(specs, sysSpec{cfg: c, depth: dbg("C12_DEPTH_"+name, depth), dev: dbg("C12_DEV_"+name, dev), maxStates: 8000000})
	}
	// dev0: faultless network, long sequences of client / timer / operator / crash events
	add("dev0", ev.Pick(r, 5, 7), 0, func(c *c12Cfg) {
		c.leadTargets, c.compactNodes = all, all
		c.maxProposals, c.maxCrashes = 3, ev.Pick(r, 1, 2)
	})
	// dev1: every single deviation of every kind at every position
	add("dev1", ev.Pick(r, 3, 4), 1, func(c *c12Cfg) { c.maxProposals = ev.Pick(r, 2, 3) })
	// election: leadership change under node faults and lossy / slow links (no compaction, no crash)
	add("election", 4, ev.Pick(r, 1, 2), func(c *c12Cfg) {
		c.maxCompacts, c.maxCrashes, c.crashPoints = 0, 0, nil
		c.linkModes = ev.Pick(r, []string{"drop", "hold"}, []string{"drop", "hold", "dup"})
	})
	// staleleader: a leader cut off from its quorum keeps appending proposals locally while the
	// majority elects a new leader that commits other commands at the same indexes; after the
	// heal the old leader's log is overwritten (its pending futures must not be completed by the
	// foreign entries). Small alphabet {propose on any self-declared leader, campaign@2, leader
	// tick, heal}, long sequences.
	add("staleleader", ev.Pick(r, 6, 8), 1, func(c *c12Cfg) {
		c.maxProposals, c.maxTicks = ev.Pick(r, 3, 4), ev.Pick(r, 1, 2)
		c.maxCompacts, c.maxCrashes, c.crashPoints = 0, 0, nil
		c.transfer = false
		c.linkModes = nil
		c.isolateOnly = !th
	})
	// recovery: lagging follower, compaction, snapshot transfer, crash-restart (no leadership change)
	add("recovery", ev.Pick(r, 4, 5), 2, func(c *c12Cfg) {
		c.maxLeaderChg, c.nodeFaults = 0, false
		c.maxTicks = ev.Pick(r, 1, 2)
		c.compactNodes = ev.Pick(r, []multiraft.NodeID{1}, n12)
		c.crashNodes = ev.Pick(r, []multiraft.NodeID{3}, all)
		c.linkModes = []string{"drop"}
		c.crashPoints = ev.Pick(r, []string{"save-after"}, []string{"save-before", "save-after", "apply-after"})
	})
	if th {
		// dev2: every pair of deviations of every kind
		add("dev2", 3, 2, nil)
		// dev3: every triple of {node fault, dropped link, crash after a save}
		add("dev3", 3, 3, func(c *c12Cfg) {
			c.maxCompacts = 0
			c.linkModes = []string{"drop"}
			c.crashPoints = []string{"save-after"}
			c.crashNodes = n12
		})
		// msg1: per-message instead of per-link deviations
		add("msg1", 3, 1, func(c *c12Cfg) { c.linkModes = nil; c.msgDev = true })
	}
	if th {
		// pebble: the same protocol over the Pebble-backed raft log store (pebble_store.go,
		// pebble_writer.go) instead of raftlog.NewMemory(); no merging
		penv, err := c12OpenPebble()
		if err != nil {
			r.HarnessError("cannot open Pebble raft log stores on /dev/shm: %v", err)
			return
		}
		defer penv.close()
		add("pebble", 3, 1, func(c *c12Cfg) {
			c.pebble = penv
			c.campaign, c.nodeFaults = false, false
			c.compactNodes = []multiraft.NodeID{1}
			c.crashNodes = []multiraft.NodeID{1, 3}
			c.linkModes = []string{"drop"}
			c.crashPoints = []string{"save-after"}
		})
	}
	// slots2: two slots inside one Runtime per node (messages routed by Runtime.Step on Envelope.SlotID)
	add("slots2", ev.Pick(r, 3, 4), 1, func(c *c12Cfg) {
		c.slots = []multiraft.SlotID{1, 2}
		c.maxTicks, c.maxCompacts = 0, 0
		c.transfer = false
		c.crashNodes = []multiraft.NodeID{1}
		c.crashPoints = nil
		c.linkModes = []string{"drop", "hold"}
	})

	results := map[string]mc.Result{}
	for i := range specs {
		sp := &specs[i]
		cfg := &sp.cfg
		results[cfg.name] = mc.Run(r, mc.System{
			Name:          "slotraft-" + cfg.name,
			New:           func() mc.Instance { return c12New(cfg, g) },
			MaxDepth:      sp.depth,
			MaxDeviations: sp.dev,
			MaxStates:     sp.maxStates,
			Bounds: map[string]any{
				"replicas": 3, "slots": len(cfg.slots), "proposals": cfg.maxProposals, "leader_ticks": cfg.maxTicks,
				"leader_changes": cfg.maxLeaderChg, "new_leader_candidates": fmt.Sprint(cfg.leadTargets), "campaign_events": cfg.campaign, "transfer_events": cfg.transfer,
				"raft_log_store": map[bool]string{false: "raftlog.NewMemory()", true: "raftlog Pebble store on tmpfs (one DB per node, fresh scope per instance)"}[cfg.pebble != nil],
				"compactions":    cfg.maxCompacts, "compaction_nodes": fmt.Sprint(cfg.compactNodes),
				"crash_restarts": cfg.maxCrashes, "crash_nodes": fmt.Sprint(cfg.crashNodes),
				"deviation_kinds": fmt.Sprintf("node faults (isolate n | stall n until heal): %v (isolate only: %v); per-event link deviations %v on each of the 6 directed links; per-message drop/duplicate/hold: %v; crash-restart inside a pass at %v", cfg.nodeFaults, cfg.isolateOnly, cfg.linkModes, cfg.msgDev, cfg.crashPoints),
			},
			Note: "one event = action + run to quiescence on the real Runtime.processSlot; merging on a SHA-256 of a reflective dump of the whole slot + RawNode + stores + state machines + network + oracle bookkeeping",
		})
	}
	if r.Replay() != nil {
		return
	}
	cnt := func(name string, v *atomic.Int64) int64 { r.Count(name, v.Load()); return v.Load() }
	passes := cnt("worker_passes", &g.passes)
	cnt("messages_delivered", &g.delivered)
	dropped := cnt("messages_dropped", &g.dropped)
	dup := cnt("messages_duplicated", &g.duplicated)
	held := cnt("messages_held", &g.held)
	iso := cnt("messages_lost_to_isolation", &g.isolatedDrops)
	applies := cnt("commands_applied", &g.applyCalls)
	batches := cnt("apply_batches_with_2plus_commands", &g.batchApplies)
	instSnap := cnt("snapshot_installs_on_running_node", &g.restoresRunning)
	restSnap := cnt("snapshot_restores_at_restart", &g.restoresRestart)
	snapMsgs := cnt("snapshot_messages_sent", &g.snapMsgs)
	acks := cnt("proposals_acknowledged", &g.acks)
	acksLC := cnt("proposals_acknowledged_after_leader_change", &g.acksAfterLeaderChange)
	notLeader := cnt("futures_failed_not_leader", &g.futNotLeader)
	cnt("futures_failed_other", &g.futOtherErr)
	cnt("futures_abandoned_by_crash", &g.futAbandoned)
	cnt("proposals_rejected_at_admission", &g.proposeRejected)
	fwd := cnt("proposals_forwarded_by_a_follower", &g.forwardedProposals)
	comp := cnt("log_compactions", &g.compactions)
	crashTop := cnt("crash_restarts_between_passes", &g.crashesTop)
	crashMid := cnt("crash_restarts_inside_a_pass", &g.crashesMid)
	lc := cnt("leader_changes_completed", &g.leaderChanges)
	twoL := cnt("states_with_two_self_declared_leaders", &g.twoLeaders)
	cnt("inbox_batches_with_2plus_messages", &g.stalledBatches)

	var states int64
	for _, res := range results {
		states += res.States
	}
	r.Guard("state-space-nontrivial", states >= 5000 && results["slots2"].States >= 200, "states total=%d two-slots=%d", states, results["slots2"].States)
	r.Guard("real-passes-executed", passes >= 100000 && applies >= 10000, "passes=%d applied=%d", passes, applies)
	r.Guard("all-message-deviations-used", dropped >= 100 && dup >= 100 && held >= 100 && iso >= 100, "dropped=%d dup=%d held=%d isolation=%d", dropped, dup, held, iso)
	r.Guard("batched-apply-seen", batches >= 10, "ApplyBatch with >=2 commands: %d", batches)
	r.Guard("snapshot-transfer-seen", snapMsgs >= 10 && instSnap >= 10, "MsgSnap sent=%d installs=%d", snapMsgs, instSnap)
	r.Guard("restart-from-snapshot-seen", restSnap >= 10 && comp >= 10, "restores at restart=%d compactions=%d", restSnap, comp)
	r.Guard("crashes-seen", crashTop >= 100 && crashMid >= 100, "between passes=%d inside a pass=%d", crashTop, crashMid)
	r.Guard("leader-changes-seen", lc >= 100 && acksLC >= 10 && twoL >= 10, "completed=%d acks after a change=%d stale-leader states=%d", lc, acksLC, twoL)
	r.Guard("futures-both-outcomes", acks >= 100 && notLeader >= 10, "acked=%d failed-not-leader=%d", acks, notLeader)
	_ = fwd // 0 once proposal forwarding is disabled (proposed fix 0001); kept as a counter
	r.Assume("election timeouts never fire inside the horizon (ElectionTick 2^20, at most 2 heartbeat ticks, ticks only on leaders); the election timer is the explicit campaign event")
	r.Assume("CheckQuorum is off in the harness (production: on): its lease and step-down are functions of the election clock, which is outside the model; PreVote is on as in production")
	r.Assume("the apply path is the inline one (slot.apply == nil); Runtime worker/ticker goroutines, the scheduler and the asynchronous applyPipeline are not exercised")
	r.Assume("storage is raftlog.NewMemory() (the Pebble store's crash behaviour is the subject of C09-C11); a crash loses exactly the volatile slot object, Save/ApplyBatch are atomic and durable on return")
}
