package multiraft_test

// C12 (run "async") - the asynchronous apply pipeline of one slot under the controlled
// scheduler (engine E3, delay bounding).
//
// Real code under test, rewritten for vsched: pkg/slot/multiraft completely (Runtime.New with
// its worker, ticker and apply-pipeline goroutines, scheduler, Propose -> processSlot ->
// processReady -> processReadyAsyncNormal -> applyPipeline.enqueue / beginApply / ErrSlotBusy
// fallback -> processReadySynchronously (waitApplyIdle) -> runApplyTask -> markApplied ->
// future resolution, Close, OpenSlot) and pkg/goroutine at spawn level. etcd RawNode and
// raftlog.NewMemory() are the real, unrewritten packages (no goroutines, no blocking).
//
// One single-voter slot (no network): every proposal commits as soon as it is persisted, so
// the interleaving of the slot worker (Ready processing, Advance), the apply worker
// (ApplyBatch, MarkApplied, resolution), the proposers, the ticker and Close is the whole
// story. The state machine's Apply/ApplyBatch contains a scheduling point (latency) and
// records entry/exit, the storage wrapper records MarkApplied.

import (
	"context"
	"fmt"
	"os"
	"strconv"
	"strings"
	"testing"
	"time"

	"github.com/WuKongIM/WuKongIM/pkg/raftlog"
	"github.com/WuKongIM/WuKongIM/pkg/slot/multiraft"
	"github.com/WuKongIM/WuKongIM/pkg/zzverif/ev"
	"github.com/WuKongIM/WuKongIM/pkg/zzverif/vsched"
	"github.com/WuKongIM/WuKongIM/pkg/zzverif/vsync"
	"github.com/WuKongIM/WuKongIM/pkg/zzverif/vtime"
)

const (
	c12aSlot     = multiraft.SlotID(1)
	c12aHashSlot = uint16(7)
	c12aTick     = time.Hour // virtual
)

type c12aSpec struct {
	name        string
	maxApplying int
	workers     int
	proposers   int  // 1 or 2 proposer threads
	proposals   int  // total
	paced       bool // proposal k+1 is issued only after the Apply of command k has begun
	durable     bool // state machine implements DurableAppliedStateMachine (as pkg/slot/fsm)
	closeEarly  bool // Close without waiting for the futures
	restart     bool // reopen the slot from storage + state machine afterwards
	ticker      bool // real multiraft.New with its ticker goroutine (virtual time) instead of harness kicks
	bound       int
	quiet       bool
}

// ---------------------------------------------------------------- recording world

type c12aApply struct {
	Idx, Term uint64
	Data      string
	Thread    int
	Phase     int // 0 = first runtime, 1 = after restart
}

type c12aFut struct {
	label string
	err   error
	res   multiraft.Result
	done  bool
	admit error
}

type c12aWorld struct {
	x            *vsched.Exec
	spec         c12aSpec
	phase        int
	applies      []c12aApply
	inApply      bool
	overlaps     []string
	outOfOrder   []string
	applyStarted int // number of data commands whose Apply has begun
	calls        int
	callLog      []string
	batchCalls   int
	marks        []uint64
	markBack     []string
	obsApplied   uint64
	futs         []*c12aFut
	proposed     int
	closeErr     error
}

func c12aResult(data string, idx uint64) string {
	return "r:" + data + "@" + strconv.FormatUint(idx, 10)
}

// state machine (plain)
type c12aSM struct {
	w       *c12aWorld
	applied uint64
}

func (m *c12aSM) enter(n int) {
	w := m.w
	if w.inApply {
		w.overlaps = append(w.overlaps, fmt.Sprintf("an Apply call began on thread %d while another one was still running", vsched.ThreadID()))
	}
	w.inApply = true
	w.applyStarted += n
	w.calls++
	w.callLog = append(w.callLog, fmt.Sprintf("%dcmd/T%d", n, vsched.ThreadID()))
	// latency of the state machine: the applying thread can be preempted here
	vsched.Point("apply-latency")
}

func (m *c12aSM) one(cmd multiraft.Command) []byte {
	w := m.w
	data := string(cmd.Data)
	if n := len(w.applies); n > 0 && cmd.Index <= w.applies[n-1].Idx {
		w.outOfOrder = append(w.outOfOrder, fmt.Sprintf("command %q applied at index %d after index %d (phase %d)", data, cmd.Index, w.applies[n-1].Idx, w.phase))
	}
	w.applies = append(w.applies, c12aApply{Idx: cmd.Index, Term: cmd.Term, Data: data, Thread: vsched.ThreadID(), Phase: w.phase})
	if cmd.Index > m.applied {
		m.applied = cmd.Index
	}
	return []byte(c12aResult(data, cmd.Index))
}

func (m *c12aSM) Apply(ctx context.Context, cmd multiraft.Command) ([]byte, error) {
	m.enter(1)
	res := m.one(cmd)
	m.w.inApply = false
	return res, nil
}

func (m *c12aSM) ApplyBatch(ctx context.Context, cmds []multiraft.Command) ([][]byte, error) {
	m.enter(len(cmds))
	if len(cmds) > 1 {
		m.w.batchCalls++
	}
	out := make([][]byte, len(cmds))
	for i, cmd := range cmds {
		out[i] = m.one(cmd)
	}
	m.w.inApply = false
	return out, nil
}

func (m *c12aSM) Restore(ctx context.Context, snap multiraft.Snapshot) error { return nil }
func (m *c12aSM) Snapshot(ctx context.Context) (multiraft.Snapshot, error) {
	return multiraft.Snapshot{}, nil
}

// durable variant: additionally exposes the index persisted with the last command
type c12aDurableSM struct{ c12aSM }

func (m *c12aDurableSM) DurableAppliedIndex(ctx context.Context) (uint64, error) {
	return m.applied, nil
}

// storage wrapper: records the applied watermark writes
type c12aStore struct {
	multiraft.Storage
	w *c12aWorld
}

func (s *c12aStore) MarkApplied(ctx context.Context, index uint64) error {
	w := s.w
	if n := len(w.marks); n > 0 && index < w.marks[n-1] {
		w.markBack = append(w.markBack, fmt.Sprintf("Storage.MarkApplied(%d) after MarkApplied(%d)", index, w.marks[n-1]))
	}
	w.marks = append(w.marks, index)
	return s.Storage.MarkApplied(ctx, index)
}

func (s *c12aStore) MarkConfigApplied(ctx context.Context, index uint64) error {
	if c, ok := s.Storage.(multiraft.ConfigAppliedIndexStorage); ok {
		return c.MarkConfigApplied(ctx, index)
	}
	return nil
}

type c12aTransport struct{}

func (c12aTransport) Send(ctx context.Context, batch []multiraft.Envelope) error { return nil }

// observer: only the applied watermark is read (to know when the single voter leads)
type c12aObserver struct{ w *c12aWorld }

func (o *c12aObserver) SetSchedulerWorkers(int)                         {}
func (o *c12aObserver) SetSchedulerInflight(int)                        {}
func (o *c12aObserver) SetSchedulerState(multiraft.SchedulerStateEvent) {}
func (o *c12aObserver) ObserveSchedulerAdmission(string)                {}
func (o *c12aObserver) ObserveSchedulerTask(string, time.Duration)      {}
func (o *c12aObserver) SetSlotApplyState(_ multiraft.SlotID, _ uint64, applied uint64) {
	if applied > o.w.obsApplied {
		o.w.obsApplied = applied
		vsched.Progress()
	}
}

func c12aPayload(label string) []byte {
	b := make([]byte, 10, 10+len(label))
	b[0], b[1] = byte(c12aHashSlot>>8), byte(c12aHashSlot)
	return append(b, label...)
}

// ---------------------------------------------------------------- scenario

func c12aOptions(w *c12aWorld) multiraft.Options {
	return multiraft.Options{
		NodeID:       1,
		TickInterval: c12aTick,
		Workers:      w.spec.workers,
		Transport:    c12aTransport{},
		Observer:     &c12aObserver{w: w},
		Raft: multiraft.RaftOptions{
			ElectionTick:     10,
			HeartbeatTick:    1,
			MaxApplyingTasks: w.spec.maxApplying,
			LogCompaction:    multiraft.LogCompactionConfig{Enabled: false, EnabledSet: true},
		},
	}
}

func c12aBody(spec c12aSpec) func(x *vsched.Exec) {
	return func(x *vsched.Exec) {
		w := &c12aWorld{x: x, spec: spec}
		x.Data["w"] = w
		ctx := context.Background()
		store := &c12aStore{Storage: raftlog.NewMemory(), w: w}
		var sm multiraft.StateMachine
		if spec.durable {
			sm = &c12aDurableSM{c12aSM{w: w}}
		} else {
			sm = &c12aSM{w: w}
		}
		newRuntime := multiraft.VerifC12NewRuntimeNoTicker
		if spec.ticker {
			newRuntime = multiraft.New
		}
		rt, err := newRuntime(c12aOptions(w))
		if err != nil {
			vsched.Unsupported("c12a: New: %v", err)
		}
		err = rt.BootstrapSlot(ctx, multiraft.BootstrapSlotRequest{
			Slot:     multiraft.SlotOptions{ID: c12aSlot, Storage: store, StateMachine: sm},
			Voters:   []multiraft.NodeID{1},
			Campaign: true,
		})
		if err != nil {
			vsched.Unsupported("c12a: BootstrapSlot: %v", err)
		}
		// index 1 = bootstrap conf change, index 2 = the elected leader's empty entry
		vsched.WaitUntil("single voter leads", func() bool { return w.obsApplied >= 2 })

		for i := 0; i < spec.proposals; i++ {
			w.futs = append(w.futs, &c12aFut{label: string(rune('a' + i))})
		}
		var wg vsync.WaitGroup
		for p := 0; p < spec.proposers; p++ {
			p := p
			wg.Add(1)
			vsched.GoNamed(fmt.Sprintf("proposer%d", p), func() {
				defer wg.Done()
				var mine []int
				for i := p; i < spec.proposals; i += spec.proposers {
					if spec.paced && i > 0 {
						k := i
						vsched.WaitUntil("previous command is being applied", func() bool { return w.applyStarted >= k || w.closeErr != nil })
					}
					f := w.futs[i]
					fut, err := rt.Propose(ctx, c12aSlot, c12aPayload(f.label))
					w.proposed++
					vsched.Progress()
					if err != nil {
						f.admit, f.done = err, true
						continue
					}
					mine = append(mine, i)
					cf := fut.(multiraft.CompletionFuture)
					cf.ObserveCompletion(c12aFutObs{f})
				}
				if spec.closeEarly {
					return
				}
				for _, i := range mine {
					f := w.futs[i]
					vsched.WaitUntil("future resolved", func() bool { return f.done })
				}
			})
		}
		if spec.closeEarly {
			// close while proposals may be queued, committed or being applied
			vsched.WaitUntil("first proposal issued", func() bool { return w.proposed >= 1 })
		} else {
			wg.Wait()
		}
		w.closeErr = rt.Close()
		if w.closeErr == nil {
			w.closeErr = errClosedOK
		}
		vsched.Progress()
		wg.Wait()
		if spec.restart {
			w.phase = 1
			rt2, err := newRuntime(c12aOptions(w))
			if err != nil {
				vsched.Unsupported("c12a: New (restart): %v", err)
			}
			if err := rt2.OpenSlot(ctx, multiraft.SlotOptions{ID: c12aSlot, Storage: store, StateMachine: sm}); err != nil {
				x.Log("reopen-error %v", err)
			}
			// ticker beats: the reopened slot gets its worker passes and replays whatever its
			// storage says is committed but not applied; the virtual sleep ends when nothing else can run
			for k := 0; k < 2; k++ {
				if !spec.ticker {
					rt2.VerifC12Kick(c12aSlot)
				}
				vtime.Sleep(c12aTick + time.Minute)
			}
			_ = rt2.Close()
		}
		// observations (deterministic summary of the execution)
		var b strings.Builder
		for _, a := range w.applies {
			fmt.Fprintf(&b, "%s@%d/p%d ", a.Data, a.Idx, a.Phase)
		}
		x.Log("applies %s", b.String())
		x.Log("marks %v calls %v", w.marks, w.callLog)
		for _, f := range w.futs {
			x.Log("fut %s admit=%v err=%v idx=%d", f.label, f.admit, f.err, f.res.Index)
		}
	}
}

var errClosedOK = fmt.Errorf("closed")

type c12aFutObs struct{ f *c12aFut }

func (o c12aFutObs) ObserveFutureCompletion(res multiraft.Result, err error) {
	o.f.res, o.f.err, o.f.done = res, err, true
	vsched.Progress()
}

var c12aStats = map[string]int64{}

func c12aCheck(spec c12aSpec) func(x *vsched.Exec) error {
	return func(x *vsched.Exec) error {
		w, _ := x.Data["w"].(*c12aWorld)
		if w == nil {
			return nil
		}
		if len(w.overlaps) > 0 {
			return vsched.Violatef("C12:async-overlapping-apply-calls", "two Apply calls of one slot overlapped: %s; applies=%v", w.overlaps[0], w.applies)
		}
		if len(w.outOfOrder) > 0 {
			ph := "before restart"
			if strings.Contains(w.outOfOrder[0], "(phase 1)") {
				return vsched.Violatef("C12:async-reapplied-after-restart", "%s; applies=%v marks=%v", w.outOfOrder[0], w.applies, w.marks)
			}
			return vsched.Violatef("C12:async-apply-out-of-index-order", "%s (%s); applies=%v", w.outOfOrder[0], ph, w.applies)
		}
		if len(w.markBack) > 0 {
			return vsched.Violatef("C12:async-applied-watermark-went-backwards", "%s; marks=%v applies=%v", w.markBack[0], w.marks, w.applies)
		}
		// contiguous data indexes from 3 (1 = conf change, 2 = empty entry), one command per index
		seen := map[string]uint64{}
		for i, a := range w.applies {
			if want := uint64(3 + i); a.Idx != want {
				return vsched.Violatef("C12:async-gap-in-applied-indexes", "apply #%d is index %d (%q), expected index %d; applies=%v", i, a.Idx, a.Data, want, w.applies)
			}
			if prev, dup := seen[a.Data]; dup {
				return vsched.Violatef("C12:async-command-applied-twice", "command %q applied at index %d and %d", a.Data, prev, a.Idx)
			}
			seen[a.Data] = a.Idx
			if a.Phase == 1 && !spec.closeEarly {
				return vsched.Violatef("C12:async-reapplied-after-restart", "command %q (index %d) was applied after the restart although every future had resolved before the clean Close; applies=%v marks=%v", a.Data, a.Idx, w.applies, w.marks)
			}
		}
		for _, f := range w.futs {
			if f.admit != nil {
				if !spec.closeEarly {
					return vsched.Violatef("C12:async-proposal-refused-on-leader", "proposal %q refused: %v", f.label, f.admit)
				}
				continue
			}
			if !f.done {
				// only possible with closeEarly: a proposal still queued as a control when Close ran is
				// never resolved by the runtime (a liveness matter, outside C12)
				c12aStats["futures_left_unresolved_by_close"]++
				continue
			}
			if f.err != nil {
				if !spec.closeEarly {
					return vsched.Violatef("C12:async-future-failed-on-stable-leader", "future of %q failed: %v", f.label, f.err)
				}
				continue
			}
			idx, ok := seen[f.label]
			if !ok || idx != f.res.Index || string(f.res.Data) != c12aResult(f.label, idx) {
				return vsched.Violatef("C12:async-future-result-mismatch", "future of %q resolved with (index %d, term %d, %q) but the command was applied at index %d (applied=%v); applies=%v", f.label, f.res.Index, f.res.Term, f.res.Data, idx, ok, w.applies)
			}
			for _, a := range w.applies {
				if a.Idx == idx && a.Term != f.res.Term {
					return vsched.Violatef("C12:async-future-result-mismatch", "future of %q reports term %d, the applied entry has term %d", f.label, f.res.Term, a.Term)
				}
			}
		}
		if !spec.closeEarly && len(w.applies) != spec.proposals {
			return vsched.Violatef("C12:async-acked-command-not-applied", "%d proposals acknowledged, %d commands applied: %v", spec.proposals, len(w.applies), w.applies)
		}
		// statistics for the vacuity guards
		threads := map[int]bool{}
		for _, a := range w.applies {
			threads[a.Thread] = true
		}
		c12aStats["executions"]++
		if len(threads) >= 2 {
			c12aStats["exec_apply_on_worker_and_pipeline_thread"]++
		}
		if w.batchCalls > 0 {
			c12aStats["exec_with_batched_apply"]++
		}
		if w.calls >= 2 {
			c12aStats["exec_with_2plus_apply_calls"]++
		}
		if spec.closeEarly {
			failed, after := 0, 0
			for _, f := range w.futs {
				if f.err != nil || f.admit != nil {
					failed++
				}
			}
			for _, a := range w.applies {
				if a.Phase == 1 {
					after++
				}
			}
			if failed > 0 {
				c12aStats["exec_close_failed_a_future"]++
			}
			if after > 0 {
				c12aStats["exec_replayed_after_restart"]++
			}
		}
		return nil
	}
}

func c12aScenario(spec c12aSpec) vsched.Scenario {
	return vsched.Scenario{
		Name:         "async-" + spec.name,
		Property:     "C12",
		Body:         c12aBody(spec),
		Check:        c12aCheck(spec),
		Bound:        spec.bound,
		Delay:        true,
		Horizon:      6000,
		QuietAtomics: spec.quiet,
		Bounds: map[string]any{
			"voters": 1, "max_applying_tasks": spec.maxApplying, "runtime_workers": spec.workers, "proposer_threads": spec.proposers,
			"proposals": spec.proposals, "paced_on_apply_start": spec.paced, "durable_applied_state_machine": spec.durable,
			"close_without_waiting": spec.closeEarly, "restart_afterwards": spec.restart, "real_ticker_goroutine": spec.ticker, "atomics_are_scheduling_points": !spec.quiet,
		},
		Note: "real Runtime (worker, ticker, apply pipeline goroutines as managed threads), one single-voter slot, state-machine latency = scheduling point",
	}
}

func TestVerifC12Async(t *testing.T) {
	r := ev.Start(t, "C12")
	defer r.Finish()
	th := r.Thorough()
	b := ev.Pick(r, 2, 3)
	var specs []c12aSpec
	add := func(s c12aSpec) {
		s.name = fmt.Sprintf("max%d-w%d-p%dx%d", s.maxApplying, s.workers, s.proposers, s.proposals)
		for _, f := range []struct {
			on bool
			s  string
		}{{s.paced, "paced"}, {s.durable, "durable"}, {s.closeEarly, "closeearly"}, {s.restart, "restart"}, {s.ticker, "ticker"}, {!s.quiet, "atomics"}} {
			if f.on {
				s.name += "-" + f.s
			}
		}
		s.name += fmt.Sprintf("-b%d", s.bound)
		specs = append(specs, s)
	}
	// quick: the budget-exhausted inline fallback next to a running async task, clean restart;
	// and Close racing with queued / committed / half-applied proposals, then restart
	add(c12aSpec{maxApplying: 1, workers: 1, proposers: 1, proposals: 2, paced: true, durable: false, restart: true, bound: b, quiet: true})
	add(c12aSpec{maxApplying: 1, workers: 1, proposers: 1, proposals: 2, paced: false, durable: false, closeEarly: true, restart: true, bound: b, quiet: true})
	if th {
		// bound 3 (via ev.Pick above) for the two quick scenarios plus a burst with budget 2
		add(c12aSpec{maxApplying: 2, workers: 1, proposers: 1, proposals: 3, paced: false, durable: false, restart: true, bound: 3, quiet: true})
		// wider scenarios at bound 2
		add(c12aSpec{maxApplying: 1, workers: 1, proposers: 2, proposals: 3, paced: true, durable: true, restart: true, bound: 2, quiet: true})
		add(c12aSpec{maxApplying: 1, workers: 1, proposers: 1, proposals: 2, paced: true, durable: false, restart: true, ticker: true, bound: 2, quiet: true})
		add(c12aSpec{maxApplying: 2, workers: 1, proposers: 2, proposals: 4, paced: true, durable: false, restart: true, bound: 2, quiet: true})
		add(c12aSpec{maxApplying: 2, workers: 2, proposers: 1, proposals: 4, paced: true, durable: true, restart: true, bound: 2, quiet: true})
		add(c12aSpec{maxApplying: 1, workers: 2, proposers: 2, proposals: 4, paced: false, durable: false, restart: true, bound: 2, quiet: true})
		add(c12aSpec{maxApplying: 1, workers: 1, proposers: 1, proposals: 3, paced: true, durable: true, closeEarly: true, restart: true, bound: 2, quiet: true})
		// every atomic operation is a scheduling point
		add(c12aSpec{maxApplying: 1, workers: 1, proposers: 1, proposals: 3, paced: true, durable: false, restart: true, bound: 2, quiet: false})
		add(c12aSpec{maxApplying: 2, workers: 1, proposers: 2, proposals: 3, paced: true, durable: true, restart: false, bound: 2, quiet: false})
	}
	if name := os.Getenv("C12A_DEBUG"); name != "" {
		for _, s := range specs {
			if strings.Contains(s.name, name) {
				sc := c12aScenario(s)
				x := &vsched.Exec{Data: map[string]any{}}
				x.Out = vsched.Run(vsched.Options{Horizon: sc.Horizon, Trace: true, Delay: true, QuietAtomics: sc.QuietAtomics}, func() { sc.Body(x) })
				fmt.Println(s.name, "steps", x.Out.Steps, "points", len(x.Out.Points), "deadlock", x.Out.Deadlock, "panic", x.Out.Panic, "unsupported", x.Out.Unsupported)
				for _, l := range x.Out.BlockedAt {
					fmt.Println(l)
				}
				for _, l := range x.Obs {
					fmt.Println(l)
				}
			}
		}
		return
	}
	var execs int64
	for _, s := range specs {
		if only := os.Getenv("C12A_ONLY"); only != "" && !strings.Contains(s.name, only) {
			continue
		}
		st := vsched.Explore(r, c12aScenario(s))
		execs += st.Executions
	}
	if r.Replay() != nil {
		return
	}
	for _, k := range vsched.SortedKeys(c12aStats) {
		r.Count("async_"+k, c12aStats[k])
	}
	r.Guard("async-executions", execs >= 2000, "executions=%d", execs)
	for _, k := range []string{"exec_apply_on_worker_and_pipeline_thread", "exec_with_batched_apply", "exec_with_2plus_apply_calls", "exec_close_failed_a_future", "exec_replayed_after_restart"} {
		r.Guard("async-"+k, c12aStats[k] >= 1, "%s=%d", k, c12aStats[k])
	}
	r.Assume("async run: one single-voter slot (no network, no leadership change); the ticker runs on virtual time (1 h interval) and fires only as a scheduler decision; data races are invisible to a cooperative scheduler; pkg/goroutine is rewritten at spawn level only")
}
