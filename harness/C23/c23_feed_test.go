package wkproto_test

// C23 feeder: drives the real wkproto.Adapter.Decode the way pkg/gateway/core/server.go
// (onData / decodeInboundFrames) does: append the chunk to the inbound buffer, call Decode on
// the whole buffer, on progress drop the consumed prefix and call again, otherwise wait for
// the next chunk. Every Decode input is a fresh slice with cap == len (a re-slice or index
// past the input panics) that is overwritten after the call (transport buffers are reused).

import (
	"fmt"

	adapterpkg "github.com/WuKongIM/WuKongIM/pkg/gateway/protocol/wkproto"
	"github.com/WuKongIM/WuKongIM/pkg/gateway/session"
	gatewaytypes "github.com/WuKongIM/WuKongIM/pkg/gateway/types"
	"github.com/WuKongIM/WuKongIM/pkg/protocol/frame"
)

type c23Viol struct {
	fp, msg string
}

func c23V(fp, format string, args ...any) *c23Viol {
	return &c23Viol{fp: "C23:" + fp, msg: fmt.Sprintf(format, args...)}
}

// version cases: index 0 = session without a negotiated version (adapter falls back to
// LatestVersion), 1..LatestVersion = session value gateway.protocol_version = uint8(i).
const c23NVCases = int(frame.LatestVersion) + 1

func c23WireVersion(vcase int) uint8 {
	if vcase == 0 {
		return frame.LatestVersion
	}
	return uint8(vcase)
}

func c23Session(vcase int) session.Session {
	s := session.New(session.Config{ID: uint64(vcase + 1), Listener: "verif", RemoteAddr: "r", LocalAddr: "l"})
	if vcase > 0 {
		s.SetValue(gatewaytypes.SessionValueProtocolVersion, uint8(vcase))
	}
	return s
}

type c23Feeder struct {
	ad      *adapterpkg.Adapter
	sess    session.Session
	inbound []byte
	slab    []byte
	slabOff int
}

func c23NewFeeder(vcase int) *c23Feeder {
	return &c23Feeder{ad: adapterpkg.New(), sess: c23Session(vcase), slab: make([]byte, 1<<16)}
}

// exact returns a copy of in whose capacity equals its length (three-index slice of a
// per-feeder slab that is reused cyclically, like a transport read buffer).
func (fd *c23Feeder) exact(in []byte) []byte {
	n := len(in)
	if n > len(fd.slab)/4 {
		b := make([]byte, n)
		copy(b, in)
		return b
	}
	if fd.slabOff+n > len(fd.slab) {
		fd.slabOff = 0
	}
	b := fd.slab[fd.slabOff : fd.slabOff+n : fd.slabOff+n]
	fd.slabOff += n
	copy(b, in)
	return b
}

type c23Call struct {
	frames   []frame.Frame
	consumed int
	err      error
	buf      []byte // the slice handed to Decode (poisoned by release)
}

// decode performs one Decode call on a private exact-size copy of in and checks the
// result shape the property demands for arbitrary input: no panic, and exactly one of
// {error (no frames, no progress), frames with 0 < consumed <= len, wait (nothing)}.
func (fd *c23Feeder) decode(in []byte) (c c23Call, v *c23Viol) {
	buf := fd.exact(in)
	c.buf = buf
	func() {
		defer func() {
			if x := recover(); x != nil {
				v = c23V("decoder-panic", "Adapter.Decode panicked on %d input bytes: %v", len(in), x)
			}
		}()
		c.frames, c.consumed, c.err = fd.ad.Decode(fd.sess, buf)
	}()
	if v != nil {
		return
	}
	switch {
	case c.err != nil:
		if len(c.frames) != 0 || c.consumed != 0 {
			v = c23V("error-with-progress", "Decode returned error %q together with %d frames / consumed=%d", c.err, len(c.frames), c.consumed)
		}
	case c.consumed < 0 || c.consumed > len(in):
		v = c23V("consumed-out-of-range", "Decode consumed=%d on %d input bytes", c.consumed, len(in))
	case len(c.frames) > 0 && c.consumed == 0:
		v = c23V("frames-without-progress", "Decode returned %d frames with consumed=0", len(c.frames))
	case len(c.frames) == 0 && c.consumed > 0:
		v = c23V("progress-without-frame", "Decode consumed %d bytes but returned no frame", c.consumed)
	}
	if v == nil {
		for i, f := range c.frames {
			if f == nil {
				v = c23V("nil-frame-returned", "Decode returned a nil frame at position %d", i)
			}
		}
	}
	return
}

// release models the transport reusing its read buffer after the frames were handed over.
func (c *c23Call) release() {
	for i := range c.buf {
		c.buf[i] = 0xEE
	}
}

// c23Arbitrary feeds one arbitrary byte string as a single chunk and keeps calling Decode on
// the unconsumed tail while it reports progress. It returns an outcome class.
func (fd *c23Feeder) arbitrary(in []byte) (string, *c23Viol) {
	rest := in
	nframes := 0
	for calls := 0; ; calls++ {
		if len(rest) == 0 {
			// core never gets anything from Decode(empty); still required not to panic
			c, v := fd.decode(rest)
			if v != nil {
				return "", v
			}
			if c.err != nil || len(c.frames) != 0 {
				return "", c23V("empty-input-not-wait", "Decode(empty) returned frames=%d err=%v", len(c.frames), c.err)
			}
			return c23Class(nframes, "end"), nil
		}
		c, v := fd.decode(rest)
		if v != nil {
			return "", v
		}
		if c.err != nil {
			c.release()
			return c23Class(nframes, "error"), nil
		}
		if c.consumed == 0 {
			c.release()
			return c23Class(nframes, "wait"), nil
		}
		nframes += len(c.frames)
		rest = rest[c.consumed:]
		c.release()
		if calls > len(in)+2 {
			return "", c23V("decode-loop-does-not-terminate", "more than %d Decode calls on %d bytes", calls, len(in))
		}
	}
}

func c23Class(nframes int, end string) string {
	switch {
	case nframes == 0:
		return end
	case nframes == 1:
		return "frames(1)+" + end
	case nframes <= 3:
		return "frames(2-3)+" + end
	default:
		return "frames(4+)+" + end
	}
}

// c23Stream is a concatenation of encoded menu frames with the expected decoded frames.
type c23Stream struct {
	wire     []byte
	bounds   []int // bounds[i] = end offset of frame i in wire
	expected []frame.Frame
	names    []string
}

type c23SplitStats struct {
	waits, insideCuts, varintCuts int64
	retainedSends                 int64 // SEND frames compared again at the end of the stream, after the read buffer was overwritten
}

// split feeds the stream in the given chunks (cut offsets, ascending, strictly inside the
// stream) and checks: exactly the original frames in order, progress only on frame
// boundaries (never on an incomplete frame), no error, nothing left at the end, and SEND
// payloads that survive the reuse of the input buffer.
func (fd *c23Feeder) split(s *c23Stream, cuts []int, st *c23SplitStats) *c23Viol {
	fd.inbound = fd.inbound[:0]
	type pending struct {
		got *frame.SendPacket
		idx int
	}
	var sends [4]pending
	nsends := 0
	next, consumedTotal, delivered := 0, 0, 0
	prev := 0
	for ci := 0; ci <= len(cuts); ci++ {
		end := len(s.wire)
		if ci < len(cuts) {
			end = cuts[ci]
		}
		fd.inbound = append(fd.inbound, s.wire[prev:end]...)
		prev = end
		delivered = end
		for len(fd.inbound) > 0 {
			c, v := fd.decode(fd.inbound)
			if v != nil {
				return v
			}
			if c.err != nil {
				return c23V("error-on-valid-stream", "Decode error %q after %d of %d bytes of a valid stream %v were delivered (frames so far %d)", c.err, delivered, len(s.wire), s.names, next)
			}
			if c.consumed == 0 {
				st.waits++
				c.release()
				break
			}
			for _, f := range c.frames {
				if next >= len(s.expected) {
					return c23V("extra-frame", "decoder yielded more frames than the stream %v contains (extra %T)", s.names, f)
				}
				if fld, det := c23Diff(s.expected[next], f); fld != "" {
					return c23V("frame-mismatch:"+s.expected[next].GetFrameType().String()+"."+fld, "frame #%d (%s) of stream %v differs in %s: %s", next, s.names[next], s.names, fld, det)
				}
				if sp, ok := f.(*frame.SendPacket); ok && nsends < len(sends) {
					sends[nsends] = pending{sp, next}
					nsends++
				}
				next++
			}
			consumedTotal += c.consumed
			if consumedTotal != s.bounds[next-1] {
				return c23V("progress-off-frame-boundary", "after yielding %d frames of %v the decoder has consumed %d bytes, frame boundary is %d (delivered %d)", next, s.names, consumedTotal, s.bounds[next-1], delivered)
			}
			if consumedTotal > delivered {
				return c23V("progress-on-incomplete-frame", "consumed %d > delivered %d", consumedTotal, delivered)
			}
			fd.inbound = fd.inbound[:copy(fd.inbound, fd.inbound[c.consumed:])]
			c.release()
		}
	}
	if next != len(s.expected) {
		return c23V("frames-missing-at-end-of-stream", "all %d bytes of %v delivered, decoder yielded %d of %d frames (unconsumed %d bytes)", len(s.wire), s.names, next, len(s.expected), len(fd.inbound))
	}
	if len(fd.inbound) != 0 {
		return c23V("bytes-left-at-end-of-stream", "%d unconsumed bytes after a complete stream", len(fd.inbound))
	}
	for i := 0; i < nsends; i++ {
		st.retainedSends++
		if fld, det := c23Diff(s.expected[sends[i].idx], sends[i].got); fld != "" {
			return c23V("send-frame-aliases-input-buffer", "SEND frame #%d of %v changed in %s after the input buffer was reused: %s", sends[i].idx, s.names, fld, det)
		}
	}
	return nil
}
