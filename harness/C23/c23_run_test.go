package wkproto_test

import (
	"encoding/hex"
	"encoding/json"
	"fmt"
	"runtime"
	"slices"
	"sort"
	"strings"
	"sync"
	"sync/atomic"
	"testing"
	"time"

	adapterpkg "github.com/WuKongIM/WuKongIM/pkg/gateway/protocol/wkproto"
	codec "github.com/WuKongIM/WuKongIM/pkg/protocol/codec"
	"github.com/WuKongIM/WuKongIM/pkg/protocol/frame"
	"github.com/WuKongIM/WuKongIM/pkg/zzverif/ev"
)

// ---- frame menu -------------------------------------------------------------------------

type c23MenuFrame struct {
	name string
	f    frame.Frame
}

func c23Pat(tag byte, n int) []byte {
	b := make([]byte, n)
	for i := range b {
		b[i] = tag + byte(i*31)
	}
	return b
}

// c23Menu: one frame per type plus a second SEND whose body is 128 bytes (2-byte length
// prefix). All frames are encodable at every version (MessageSeq fits 32 bits).
func c23Menu() []c23MenuFrame {
	big := &frame.SendPacket{Setting: frame.SettingTopic | frame.SettingStream, MsgKey: "k", Expire: 7, ClientSeq: 0x01020304, ClientMsgNo: "n2",
		StreamNo: "st", ChannelID: "g1", ChannelType: 2, Topic: "tp"}
	big.RedDot, big.DUP = true, true
	// pad the payload so that the body is exactly 128 bytes at LatestVersion (longer at 2<=v<5)
	b, _ := codec.New().EncodeFrame(big, frame.LatestVersion)
	big.Payload = c23Pat('P', 128-(len(b)-2))
	connack := &frame.ConnackPacket{ServerVersion: 6, ServerKey: "sk", Salt: "sa", TimeDiff: -3, ReasonCode: frame.ReasonSuccess, NodeId: 9}
	connack.HasServerVersion = true
	send := &frame.SendPacket{Setting: frame.SettingNoEncrypt, ClientSeq: 1, ClientMsgNo: "n1", ChannelID: "u2", ChannelType: 1, Payload: []byte("hi!")}
	send.NoPersist, send.SyncOnce = true, true
	recv := &frame.RecvPacket{Setting: frame.SettingStream, MsgKey: "mk", Expire: 1, MessageID: 0x0102030405060708, MessageSeq: 0x80000001, ClientMsgNo: "n1", StreamNo: "s",
		StreamId: 5, StreamFlag: frame.StreamFlagEnd, Timestamp: 1700000000, ChannelID: "u1", ChannelType: 1, FromUID: "u2", Payload: []byte{0, 0xFF}}
	return []c23MenuFrame{
		{"PING", &frame.PingPacket{}},
		{"PONG", &frame.PongPacket{}},
		{"CONNECT", &frame.ConnectPacket{Version: 6, ClientKey: "ck", DeviceID: "d", DeviceFlag: frame.WEB, ClientTimestamp: 1700000000000, UID: "u1", Token: "t"}},
		{"CONNACK", connack},
		{"SEND", send},
		{"SEND128", big},
		{"SENDACK", &frame.SendackPacket{MessageID: 0x0102030405060708, MessageSeq: 3, ClientSeq: 1, ClientMsgNo: "n1", ReasonCode: frame.ReasonSuccess}},
		{"RECV", recv},
		{"RECVACK", &frame.RecvackPacket{MessageID: -1, MessageSeq: 0xFFFFFFFF}},
		{"DISCONNECT", &frame.DisconnectPacket{ReasonCode: frame.ReasonConnectKick, Reason: "bye"}},
		{"SUB", &frame.SubPacket{Setting: 1, SubNo: "s1", ChannelID: "c", ChannelType: 6, Action: frame.UnSubscribe, Param: "p"}},
		{"SUBACK", &frame.SubackPacket{SubNo: "s1", ChannelID: "c", ChannelType: 6, Action: frame.UnSubscribe, ReasonCode: frame.ReasonSuccess}},
		{"EVENT", &frame.EventPacket{Id: "e", Type: "t", Timestamp: 1, Data: []byte("{}")}},
	}
}

type c23Encoded struct {
	wire     [][]byte      // per menu frame
	expected []frame.Frame // per menu frame, normalised for the wire version
}

func c23EncodeMenu(menu []c23MenuFrame, vcase int) (*c23Encoded, error) {
	v := c23WireVersion(vcase)
	p := codec.New()
	e := &c23Encoded{}
	for _, m := range menu {
		b, err := p.EncodeFrame(m.f, v)
		if err != nil {
			return nil, fmt.Errorf("encode %s v%d: %v", m.name, v, err)
		}
		e.wire = append(e.wire, append([]byte(nil), b...))
		e.expected = append(e.expected, c23Expected(m.f, v))
	}
	return e, nil
}

func c23BuildStream(menu []c23MenuFrame, e *c23Encoded, seq []int) *c23Stream {
	s := &c23Stream{}
	for _, i := range seq {
		s.wire = append(s.wire, e.wire[i]...)
		s.bounds = append(s.bounds, len(s.wire))
		s.expected = append(s.expected, e.expected[i])
		s.names = append(s.names, menu[i].name)
	}
	return s
}

// ---- work units and statistics ----------------------------------------------------------

type c23Replay struct {
	Section string   `json:"section"`
	VCase   int      `json:"version_case"` // 0 = no negotiated version (latest), n = version n
	Shape   int      `json:"session_shape,omitempty"` // c23Shape* (0 = no encryption values)
	Seq     []int    `json:"menu_sequence,omitempty"`
	Names   []string `json:"frame_names,omitempty"`
	Cuts    []int    `json:"cuts,omitempty"`
	Input   string   `json:"input_hex,omitempty"`
	Chunks  []string `json:"chunks_hex,omitempty"`
}

type c23Stat struct {
	evals, nontrivial int64
	outcomes          map[string]int64
	buckets           [256][]uint64
	split             c23SplitStats
	sess              c23SessStats
}

func (s *c23Stat) add(h uint64) {
	s.nontrivial++
	s.buckets[h>>56] = append(s.buckets[h>>56], h)
}

func c23Mix(h, x uint64) uint64 {
	h = (h ^ x) * 0x9E3779B97F4A7C15
	return h ^ (h >> 29)
}

func c23HashBytes(h uint64, b []byte) uint64 {
	h = c23Mix(h, uint64(len(b))+0x1000)
	i := 0
	for ; i+8 <= len(b); i += 8 {
		w := uint64(b[i]) | uint64(b[i+1])<<8 | uint64(b[i+2])<<16 | uint64(b[i+3])<<24 | uint64(b[i+4])<<32 | uint64(b[i+5])<<40 | uint64(b[i+6])<<48 | uint64(b[i+7])<<56
		h = c23Mix(h, w)
	}
	var w uint64
	for k := 0; i < len(b); i, k = i+1, k+8 {
		w |= uint64(b[i]) << k
	}
	return c23Mix(h, w)
}

func c23Distinct(stats []*c23Stat) int64 {
	var total int64
	var wg sync.WaitGroup
	sem := make(chan struct{}, runtime.GOMAXPROCS(0))
	for b := 0; b < 256; b++ {
		wg.Add(1)
		sem <- struct{}{}
		go func(b int) {
			defer wg.Done()
			defer func() { <-sem }()
			n := 0
			for _, s := range stats {
				n += len(s.buckets[b])
			}
			all := make([]uint64, 0, n)
			for _, s := range stats {
				all = append(all, s.buckets[b]...)
				s.buckets[b] = nil
			}
			slices.Sort(all)
			var d int64
			for i := range all {
				if i == 0 || all[i] != all[i-1] {
					d++
				}
			}
			atomic.AddInt64(&total, d)
		}(b)
	}
	wg.Wait()
	return total
}

// c23Unit is one block of work; run executes it on the worker's feeder for its version case.
type c23Unit struct {
	sec   int
	vcase int
	size  int64
	run   func(w *c23Worker, st *c23Stat)
}

type c23Worker struct {
	r       *ev.R
	feeders [c23NVCases]*c23Feeder
	sfeeders [c23NVCases][c23NShapes]*c23Feeder
	stop    *int32
}

func (w *c23Worker) feeder(vcase int) *c23Feeder {
	if w.feeders[vcase] == nil {
		w.feeders[vcase] = c23NewFeeder(vcase)
	}
	return w.feeders[vcase]
}

func (w *c23Worker) report(sec string, v *c23Viol, rp c23Replay) {
	if !w.r.Violation(ev.Violation{Fingerprint: v.fp, Message: v.msg, System: sec, Replay: rp}) {
		atomic.StoreInt32(w.stop, 1)
	}
}

var c23Sections = []string{"splits", "bytes", "length-prefix", "mutations", "session-splits", "session-mutations"}

const (
	c23SecSessSplits    = 4
	c23SecSessMutations = 5
)

// ---- section builders -------------------------------------------------------------------

func c23Sequences(n, maxLen int) [][]int {
	var out [][]int
	var rec func(cur []int)
	rec = func(cur []int) {
		if len(cur) > 0 {
			out = append(out, append([]int(nil), cur...))
		}
		if len(cur) == maxLen {
			return
		}
		for i := 0; i < n; i++ {
			rec(append(cur, i))
		}
	}
	rec(nil)
	sort.SliceStable(out, func(i, j int) bool { return len(out[i]) < len(out[j]) })
	return out
}

func c23InsideFrame(s *c23Stream, cut int) bool {
	for _, b := range s.bounds {
		if cut == b {
			return false
		}
	}
	return true
}

// (a) every sequence of <= maxSeq menu frames, every 1-, 2- and 3-way chunking.
func c23SplitUnits(menu []c23MenuFrame, enc []*c23Encoded, maxSeq int) []c23Unit {
	var units []c23Unit
	seqs := c23Sequences(len(menu), maxSeq)
	for vcase := 0; vcase < c23NVCases; vcase++ {
		vcase := vcase
		for _, seq := range seqs {
			seq := seq
			L := 0
			for _, i := range seq {
				L += len(enc[vcase].wire[i])
			}
			n := int64(1) + int64(L-1) + int64(L-1)*int64(L-2)/2
			units = append(units, c23Unit{sec: 0, vcase: vcase, size: n, run: func(w *c23Worker, st *c23Stat) {
				fd := w.feeder(vcase)
				s := c23BuildStream(menu, enc[vcase], seq)
				h0 := c23HashBytes(c23Mix(0xA, uint64(vcase)), s.wire)
				varintCut := func(c int) bool { // cut between the two length bytes of a SEND128 frame
					start := 0
					for k, b := range s.bounds {
						if s.names[k] == "SEND128" && c == start+2 {
							return true
						}
						start = b
					}
					return false
				}
				var labels [4][2]string
				for nc := 1; nc <= 3; nc++ {
					labels[nc][0] = fmt.Sprintf("ok/%d-frames/%d-chunks/cuts-on-boundaries", len(seq), nc)
					labels[nc][1] = fmt.Sprintf("ok/%d-frames/%d-chunks/cut-inside-frame", len(seq), nc)
				}
				one := func(cuts []int) bool {
					st.evals++
					inside := false
					for _, c := range cuts {
						if c23InsideFrame(s, c) {
							inside = true
							st.split.insideCuts++
						}
						if varintCut(c) {
							st.split.varintCuts++
						}
					}
					if v := fd.split(s, cuts, &st.split); v != nil {
						st.outcomes["VIOLATION"]++
						w.report("splits", v, c23Replay{Section: "splits", VCase: vcase, Seq: seq, Names: s.names, Cuts: append([]int(nil), cuts...), Input: hex.EncodeToString(s.wire)})
						return atomic.LoadInt32(w.stop) == 0
					}
					if inside {
						h := h0
						for _, c := range cuts {
							h = c23Mix(h, uint64(c)+1)
						}
						st.add(c23Mix(h, uint64(len(cuts))))
						st.outcomes[labels[len(cuts)+1][1]]++
					} else {
						st.outcomes[labels[len(cuts)+1][0]]++
					}
					return true
				}
				if !one(nil) {
					return
				}
				cuts := make([]int, 0, 2)
				for c1 := 1; c1 < L; c1++ {
					if !one(append(cuts[:0], c1)) {
						return
					}
				}
				for c1 := 1; c1 < L; c1++ {
					for c2 := c1 + 1; c2 < L; c2++ {
						if !one(append(cuts[:0], c1, c2)) {
							return
						}
					}
				}
			}})
		}
	}
	return units
}

func c23Arb(w *c23Worker, st *c23Stat, sec string, vcase int, in []byte, nontrivial bool) bool {
	st.evals++
	out, v := w.feeder(vcase).arbitrary(in)
	if v != nil {
		st.outcomes["VIOLATION"]++
		v.msg += fmt.Sprintf(" | input(%d)=%s version-case=%d", len(in), c23Hex(in), vcase)
		w.report(sec, v, c23Replay{Section: sec, VCase: vcase, Input: hex.EncodeToString(in)})
		return atomic.LoadInt32(w.stop) == 0
	}
	st.outcomes[out]++
	if nontrivial {
		st.add(c23HashBytes(c23Mix(0xB, uint64(vcase)), in))
	}
	return true
}

// (b1) all byte strings of length <= full; plus (quick tier) the 3-byte strings whose first
// byte is type<<4 for every type nibble.
func c23ByteUnits(full int, extra3 bool) []c23Unit {
	var units []c23Unit
	for vcase := 0; vcase < c23NVCases; vcase++ {
		vcase := vcase
		// lengths 0..2 in one unit per first byte
		units = append(units, c23Unit{sec: 1, vcase: vcase, size: 1 + 256 + 65536, run: func(w *c23Worker, st *c23Stat) {
			if !c23Arb(w, st, "bytes", vcase, nil, false) {
				return
			}
			var b [2]byte
			for x := 0; x < 256; x++ {
				b[0] = byte(x)
				if !c23Arb(w, st, "bytes", vcase, b[:1], x>>4 != 0) {
					return
				}
				for y := 0; y < 256; y++ {
					b[1] = byte(y)
					if !c23Arb(w, st, "bytes", vcase, b[:2], x>>4 != 0) {
						return
					}
				}
			}
		}})
		for x := 0; x < 256; x++ {
			if full < 3 && !(extra3 && x&0xF == 0) {
				continue
			}
			x := x
			units = append(units, c23Unit{sec: 1, vcase: vcase, size: 65536, run: func(w *c23Worker, st *c23Stat) {
				b := [3]byte{byte(x)}
				for y := 0; y < 256; y++ {
					b[1] = byte(y)
					for z := 0; z < 256; z++ {
						b[2] = byte(z)
						if !c23Arb(w, st, "bytes", vcase, b[:], x>>4 != 0) {
							return
						}
					}
				}
			}})
		}
	}
	return units
}

// (b2) header byte x length-prefix strings over a boundary alphabet x body tails:
// truncated prefixes, non-minimal and 4-/5-byte prefixes, oversize lengths.
func c23PrefixUnits(maxPrefix int) []c23Unit {
	alphabet := []byte{0x00, 0x01, 0x40, 0x7F, 0x80, 0x81, 0xFF}
	tails := [][]byte{nil, {0x00}, make([]byte, 20), c23Pat(0xFF, 20), c23Pat(0x01, 130)}
	for i := range tails[3] {
		tails[3][i] = 0xFF
	}
	var units []c23Unit
	for vcase := 0; vcase < c23NVCases; vcase++ {
		for typ := 0; typ < 16; typ++ {
			vcase, typ := vcase, typ
			var n int64
			for l, p := 0, int64(1); l <= maxPrefix; l, p = l+1, p*int64(len(alphabet)) {
				n += p
			}
			units = append(units, c23Unit{sec: 2, vcase: vcase, size: n * 2 * int64(len(tails)), run: func(w *c23Worker, st *c23Stat) {
				buf := make([]byte, 0, 160)
				var rec func(prefix []byte) bool
				rec = func(prefix []byte) bool {
					for _, fl := range []byte{0x0, 0xF} {
						for _, tl := range tails {
							buf = append(append(append(buf[:0], byte(typ<<4)|fl), prefix...), tl...)
							if !c23Arb(w, st, "length-prefix", vcase, buf, typ != 0) {
								return false
							}
						}
					}
					if len(prefix) == maxPrefix {
						return true
					}
					for _, a := range alphabet {
						if !rec(append(prefix, a)) {
							return false
						}
					}
					return true
				}
				rec(make([]byte, 0, 8))
			}})
		}
	}
	return units
}

// c23QuickTruncPos: in the quick tier truncations are enumerated for substitutions in the
// fixed header and length prefix (positions 0..2) only.
const c23QuickTruncPos = 2

// (b3) every single-byte substitution of every menu frame's encoding (alone, and in the
// thorough tier also truncated at every later position and followed by a valid SEND frame).
func c23MutationUnits(menu []c23MenuFrame, enc []*c23Encoded, thorough bool) []c23Unit {
	var units []c23Unit
	for vcase := 0; vcase < c23NVCases; vcase++ {
		for mi := range menu {
			vcase, mi := vcase, mi
			base := enc[vcase].wire[mi]
			L := int64(len(base))
			n := L * 255
			if thorough {
				n = L*255 + 255*L*(L-1)/2 + L*255
			} else {
				for pos := int64(0); pos < L && pos <= c23QuickTruncPos; pos++ {
					n += 255 * (L - 1 - pos)
				}
			}
			units = append(units, c23Unit{sec: 3, vcase: vcase, size: n, run: func(w *c23Worker, st *c23Stat) {
				follow := enc[vcase].wire[4] // small SEND
				m := make([]byte, len(base), len(base)+len(follow))
				for pos := range base {
					copy(m, base)
					for x := 0; x < 256; x++ {
						if byte(x) == base[pos] {
							continue
						}
						m[pos] = byte(x)
						if !c23Arb(w, st, "mutations", vcase, m, true) {
							return
						}
						if thorough || pos <= c23QuickTruncPos {
							for k := pos + 1; k < len(m); k++ {
								if !c23Arb(w, st, "mutations", vcase, m[:k], true) {
									return
								}
							}
						}
						if thorough {
							if !c23Arb(w, st, "mutations", vcase, append(m, follow...), true) {
								return
							}
						}
					}
				}
			}})
		}
	}
	return units
}

func c23Hex(b []byte) string {
	if len(b) > 200 {
		return hex.EncodeToString(b[:200]) + fmt.Sprintf("...(+%d bytes)", len(b)-200)
	}
	return hex.EncodeToString(b)
}

func c23Permute(u []c23Unit, seed int64) {
	if seed == 0 {
		return
	}
	x := uint64(seed)*0x9E3779B97F4A7C15 + 1
	for i := len(u) - 1; i > 0; i-- {
		x ^= x << 13
		x ^= x >> 7
		x ^= x << 17
		j := int(x % uint64(i+1))
		u[i], u[j] = u[j], u[i]
	}
}

// ---- the test ---------------------------------------------------------------------------

func TestVerifC23(t *testing.T) {
	r := ev.Start(t, "C23")
	defer r.Finish()
	th := r.Thorough()

	menu := c23Menu()
	var enc []*c23Encoded
	for vcase := 0; vcase < c23NVCases; vcase++ {
		e, err := c23EncodeMenu(menu, vcase)
		if err != nil {
			r.HarnessError("%v", err)
			return
		}
		enc = append(enc, e)
	}
	if n := len(enc[0].wire[5]); n != 131 || enc[0].wire[5][1] != 0x80 || enc[0].wire[5][2] != 0x01 {
		r.HarnessError("SEND128 menu frame does not have a 2-byte length prefix of 128 (len %d, % x)", n, enc[0].wire[5][:3])
		return
	}

	items, nSettings, err := c23SessItems()
	if err != nil {
		r.HarnessError("session menu: %v", err)
		return
	}
	var senc []*c23SessEncoded
	for vcase := 0; vcase < c23NVCases; vcase++ {
		e, err := c23EncodeSessItems(items, vcase)
		if err != nil {
			r.HarnessError("%v", err)
			return
		}
		senc = append(senc, e)
	}

	if rf := r.Replay(); rf != nil {
		c23RunReplay(r, rf, menu, enc, items, senc)
		return
	}

	units := c23SplitUnits(menu, enc, ev.Pick(r, 2, 3))
	units = append(units, c23ByteUnits(ev.Pick(r, 2, 3), !th)...)
	units = append(units, c23PrefixUnits(ev.Pick(r, 4, 5))...)
	units = append(units, c23MutationUnits(menu, enc, th)...)
	// session shapes x Setting bits: quick = all 1- and 2-chunk splits for every version case and
	// all 3-chunk splits of the single-frame streams of the no-negotiated-version case;
	// thorough = all 3-chunk splits everywhere
	sessChunks := func(vcase, nframes int) int {
		if th || (vcase == 0 && nframes == 1) {
			return 3
		}
		return 2
	}
	units = append(units, c23SessSplitUnits(c23SecSessSplits, items, nSettings, senc, 2, sessChunks)...)
	units = append(units, c23SessMutationUnits(c23SecSessMutations, items, nSettings, senc, ev.Pick(r, []int{c23ShapeEncCrypto}, []int{c23ShapeEncCrypto, c23ShapeEncKeys}), th)...)
	// largest units first (better balance), then the seed permutes the order (order only)
	sort.SliceStable(units, func(i, j int) bool { return units[i].size > units[j].size })
	c23Permute(units, r.Seed())
	shard, nshards := r.Shard()
	expected := make([]int64, len(c23Sections))
	var mine []c23Unit
	for i, u := range units {
		if i%nshards == shard {
			mine = append(mine, u)
			expected[u.sec] += u.size
		}
	}

	workers := runtime.GOMAXPROCS(0)
	stats := make([][]*c23Stat, len(c23Sections))
	for si := range stats {
		stats[si] = make([]*c23Stat, workers)
		for w := range stats[si] {
			stats[si][w] = &c23Stat{outcomes: map[string]int64{}}
		}
	}
	secWall := make([]int64, len(c23Sections))
	var next int64
	var stop int32
	var wg sync.WaitGroup
	for wi := 0; wi < workers; wi++ {
		wg.Add(1)
		go func(wi int) {
			defer wg.Done()
			w := &c23Worker{r: r, stop: &stop}
			for atomic.LoadInt32(&stop) == 0 {
				k := atomic.AddInt64(&next, 1) - 1
				if k >= int64(len(mine)) {
					return
				}
				u := mine[k]
				t0 := time.Now()
				u.run(w, stats[u.sec][wi])
				atomic.AddInt64(&secWall[u.sec], int64(time.Since(t0)))
			}
		}(wi)
	}
	wg.Wait()

	notes := []string{
		"every sequence of <= N menu frames (13-frame menu: all 12 frame types + a SEND with a 2-byte length prefix), encoded per version case, fed in every 1-, 2- and 3-chunk split; non-trivial = at least one cut strictly inside a frame; distinct = distinct (version case, stream, cut set)",
		"every byte string of length <= N fed as one chunk (quick additionally: all 3-byte strings whose first byte is type<<4); non-trivial = type nibble != 0 (the decoder looks past the first byte); distinct = distinct (version case, input)",
		"header byte (16 type nibbles x flags {0,F}) x every length-prefix string over {00,01,40,7F,80,81,FF} up to the bound x 5 body tails (none, 1, 20 zero, 20 FF, 130 bytes)",
		"every single-byte substitution (255 values x every position) of every menu frame encoding, fed whole and (quick: for substitutions at positions 0..2 = header and length prefix; thorough: at every position) truncated at every later position; thorough: also followed by a valid SEND",
		"session shapes {no encryption, encrypted with cached crypto (what gateway auth sets), encrypted with keys only, key material present but encryption disabled} x every version case x " +
			"(a) one SEND per Setting value (all 32 combinations of receipt/signal/no-encrypt/topic/stream + each undefined bit alone; payload encrypted and MsgKey signed with the session keys unless no-encrypt) and " +
			"(b) every sequence of <= 2 frames of a 7-frame menu (no-encrypt SENDs, encrypted SENDs incl. an empty payload, PING, RECVACK), fed in every split into <= N chunks through the reused, overwritten read buffer; " +
			"decoded SEND frames are retained and compared at the end of the stream; a decrypting session must yield the plain payload; every case is non-trivial; distinct = distinct (version case, shape, stream, cut set)",
		"every single-byte substitution of every SEND of the session menu decoded on the decrypting session shapes (quick: cached crypto; thorough: both, plus every truncation): the MsgKey validation / base64 / AES-CBC / padding path sees arbitrary bytes",
	}
	var split c23SplitStats
	totals := make([]map[string]int64, len(c23Sections))
	for si, name := range c23Sections {
		var evals int64
		outs := map[string]int64{}
		for _, s := range stats[si] {
			evals += s.evals
			for k, n := range s.outcomes {
				outs[k] += n
			}
			split.waits += s.split.waits
			split.insideCuts += s.split.insideCuts
			split.varintCuts += s.split.varintCuts
		}
		totals[si] = outs
		distinct := c23Distinct(stats[si])
		complete := evals == expected[si] && atomic.LoadInt32(&stop) == 0
		bounds := map[string]any{"version_cases": "no negotiated version (-> latest), 1.." + fmt.Sprint(frame.LatestVersion), "outcomes": outs}
		switch si {
		case 0:
			bounds["max_frames_per_stream"] = ev.Pick(r, 2, 3)
			bounds["menu"] = len(menu)
			bounds["max_chunks"] = 3
		case 1:
			bounds["max_length_full"] = ev.Pick(r, 2, 3)
			bounds["extra_3_byte_first_bytes"] = ev.Pick(r, "type<<4 for all 16 type nibbles", "none needed (full)")
		case 2:
			bounds["max_prefix_bytes"] = ev.Pick(r, 4, 5)
		case c23SecSessSplits:
			bounds["session_shapes"] = c23ShapeNames[:]
			bounds["setting_values"] = nSettings
			bounds["sequence_menu"] = len(items) - nSettings
			bounds["max_frames_per_stream"] = 2
			bounds["max_chunks"] = ev.Pick(r, "3 for single-frame streams of the no-negotiated-version case, else 2", "3")
		case c23SecSessMutations:
			bounds["session_shapes"] = ev.Pick(r, c23ShapeNames[c23ShapeEncCrypto:c23ShapeEncCrypto+1], c23ShapeNames[c23ShapeEncCrypto:c23ShapeEncKeys+1])
			bounds["truncations"] = th
		}
		r.Section(ev.Section{Name: name, Kind: "enum", Evaluations: evals, Distinct: distinct, Exhaustive: complete, Outcomes: int64(len(outs)),
			Bounds: bounds, Note: notes[si], WallS: float64(secWall[si]) / 1e9 / float64(workers)})
		r.Guard("complete/"+name, evals == expected[si], "evaluated %d of %d cases", evals, expected[si])
	}
	r.Count("splits/decode_calls_that_waited", split.waits)
	r.Count("splits/cuts_inside_a_frame", split.insideCuts)
	r.Count("splits/cuts_inside_2_byte_length_prefix", split.varintCuts)
	r.Guard("splits-hit-incomplete-frames", split.waits > 0 && split.insideCuts > 0 && split.varintCuts > 0,
		"waits=%d cuts-inside-frame=%d cuts-inside-length-prefix=%d", split.waits, split.insideCuts, split.varintCuts)
	var sess c23SessStats
	var retained int64
	for si := range c23Sections {
		for _, s := range stats[si] {
			sess.noEncryptOnDecrypting += s.sess.noEncryptOnDecrypting
			sess.decrypted += s.sess.decrypted
			sess.passedThrough += s.sess.passedThrough
			retained += s.split.retainedSends
		}
	}
	r.Count("retained_send_frames_compared_after_buffer_reuse", retained)
	r.Count("session-splits/no-encrypt_sends_on_decrypting_sessions", sess.noEncryptOnDecrypting)
	r.Count("session-splits/decrypted_sends", sess.decrypted)
	r.Count("session-splits/sends_passed_through", sess.passedThrough)
	r.Guard("session-branches-all-seen", sess.noEncryptOnDecrypting > 0 && sess.decrypted > 0 && sess.passedThrough > 0 && retained >= sess.noEncryptOnDecrypting+sess.decrypted+sess.passedThrough,
		"no-encrypt-on-decrypting=%d decrypted=%d passed-through=%d retained-and-compared=%d", sess.noEncryptOnDecrypting, sess.decrypted, sess.passedThrough, retained)
	for _, si := range []int{1, 2, 3, c23SecSessMutations} {
		o := totals[si]
		var fr, er, wa int64
		for k, n := range o {
			switch {
			case strings.HasPrefix(k, "frames"):
				fr += n
			case k == "error":
				er += n
			case k == "wait":
				wa += n
			}
		}
		r.Guard("trichotomy-all-seen/"+c23Sections[si], fr > 0 && er > 0 && wa > 0, "frames=%d error=%d wait=%d", fr, er, wa)
	}
	// samples: one of each kind, written out
	s := c23BuildStream(menu, enc[3], []int{5, 0})
	r.Sample(map[string]any{"section": "splits", "version_case": 3, "frames": s.names, "stream_hex": c23Hex(s.wire), "cuts": []int{2, 131}, "meaning": "chunk 1 ends inside the 2-byte length prefix of SEND128, chunk 2 ends before its last byte"})
	r.Sample(map[string]any{"section": "bytes", "version_case": 0, "input_hex": "3f8001"})
	r.Sample(map[string]any{"section": "length-prefix", "version_case": 5, "input_hex": "30ffffff7f00"})
	r.Sample(map[string]any{"section": "mutations", "version_case": 6, "frame": "CONNECT", "original_hex": c23Hex(enc[6].wire[2]), "mutation": "byte 5 (DeviceID length low byte) := 0xff"})
	r.Assume("'waits for more data' includes the decoder's answer for the reserved frame type 0 (DecodeFrame returns nil,0,nil); the property allows {frames, wait, error}")
	r.Sample(map[string]any{"section": "session-splits", "version_case": 0, "session": c23ShapeNames[c23ShapeEncCrypto], "frames": []string{"SEND-noencrypt", "SEND-encrypted"},
		"stream_hex": c23Hex(c23BuildSessStream(items, senc[0], c23ShapeEncCrypto, []int{nSettings, nSettings + 1}).wire), "cuts": []int{5},
		"meaning": "an encrypted session receives a no-encrypt SEND followed by an encrypted SEND; both decoded payloads are compared after the read buffer was overwritten"})
	r.Assume("sections splits/bytes/length-prefix/mutations use sessions without encryption values; sections session-splits/session-mutations enumerate the session shapes with fixed AES key/IV (the strength and tamper evidence of the encryption is C25's subject; here only: decoding yields the original frames / never panics)")
	r.Assume("retained-frame comparison after buffer reuse is demanded for SEND frames only: they are dispatched asynchronously and Adapter.OwnsDecodedFrames promises they own their bytes; other frame types are dispatched synchronously before the buffer is reused and may alias it")
	r.Assume("reads past the input are detected by Go bounds checks: every Decode input is an exact-size copy (cap == len), so any index or re-slice past the input panics and is reported as decoder-panic")
	r.Assume("frame equality as in C22 (fields the version does not carry are expected at their zero value); non-SEND frames are compared when Decode returns (synchronous dispatch), SEND frames additionally after the input buffer was overwritten (async dispatch, Adapter.OwnsDecodedFrames)")
}

func c23RunReplay(r *ev.R, rf *ev.ReplayFile, menu []c23MenuFrame, enc []*c23Encoded, items []c23SessItem, senc []*c23SessEncoded) {
	var pl c23Replay
	if err := json.Unmarshal(rf.Replay, &pl); err != nil || pl.VCase < 0 || pl.VCase >= c23NVCases {
		r.HarnessError("replay: bad payload: %v", err)
		return
	}
	if pl.Shape < 0 || pl.Shape >= c23NShapes {
		r.HarnessError("replay: bad session shape %d", pl.Shape)
		return
	}
	fd := c23NewSessFeeder(pl.VCase, pl.Shape)
	var v *c23Viol
	if pl.Section == "session-splits" {
		for _, i := range pl.Seq {
			if i < 0 || i >= len(items) {
				r.HarnessError("replay: bad session item index %d", i)
				return
			}
		}
		s := c23BuildSessStream(items, senc[pl.VCase], pl.Shape, pl.Seq)
		fmt.Printf("replay session-splits: version-case %d session %q frames %v stream(%d)=%s cuts=%v\n", pl.VCase, c23ShapeNames[pl.Shape], s.names, len(s.wire), c23Hex(s.wire), pl.Cuts)
		// In the full run one Adapter serves the sessions of every shape (as one listener does).
		// The replay therefore tries the recorded case on a fresh shared Adapter (a) alone and
		// (b) after one stream was decoded on a session of each shape (first = that shape).
		for first := -1; first < c23NShapes && v == nil; first++ {
			c23SharedAdapter = adapterpkg.New()
			if first >= 0 {
				warm := c23BuildSessStream(items, senc[pl.VCase], first, []int{len(items) - 6, len(items) - 7})
				wv := c23NewSessFeeder(pl.VCase, first).split(warm, nil, &c23SplitStats{})
				fmt.Printf(" adapter first used by a session of shape %q (violation there: %v)\n", c23ShapeNames[first], wv != nil)
			}
			v = c23NewSessFeeder(pl.VCase, pl.Shape).split(s, pl.Cuts, &c23SplitStats{})
		}
	} else if pl.Section == "splits" {
		for _, i := range pl.Seq {
			if i < 0 || i >= len(menu) {
				r.HarnessError("replay: bad menu index %d", i)
				return
			}
		}
		s := c23BuildStream(menu, enc[pl.VCase], pl.Seq)
		fmt.Printf("replay splits: version-case %d frames %v stream(%d)=%s cuts=%v\n", pl.VCase, s.names, len(s.wire), c23Hex(s.wire), pl.Cuts)
		v = fd.split(s, pl.Cuts, &c23SplitStats{})
	} else {
		in, err := hex.DecodeString(pl.Input)
		if err != nil {
			r.HarnessError("replay: bad input hex: %v", err)
			return
		}
		var out string
		out, v = fd.arbitrary(in)
		fmt.Printf("replay %s: version-case %d input(%d)=%s -> %s\n", pl.Section, pl.VCase, len(in), c23Hex(in), out)
	}
	if v != nil {
		fmt.Printf(" VIOLATES: [%s] %s\n", v.fp, v.msg)
		r.MarkReplayReproduced()
		r.Violation(ev.Violation{Fingerprint: v.fp, Message: v.msg, System: pl.Section, Replay: pl})
	} else {
		fmt.Printf(" holds\n")
	}
	r.Section(ev.Section{Name: pl.Section, Kind: "enum", Evaluations: 1, Note: "replay"})
}
