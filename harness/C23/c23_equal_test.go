package wkproto_test

// C23 frame comparer: the same field-wise equality as the C22 harness (fields a version does
// not carry are expected at their zero value; only the header flags the type carries count).

import (
	"bytes"
	"fmt"

	"github.com/WuKongIM/WuKongIM/pkg/protocol/frame"
)

// c23StreamCarried mirrors the version gate documented in send.go / recv.go:
// stream fields exist only for 2 <= version < 5 and only when the Stream setting bit is set.
func c23StreamCarried(s frame.Setting, v uint8) bool {
	return v >= 2 && v < 5 && s.IsSet(frame.SettingStream)
}

// c23Expected returns a copy of f in which every field that version v does not carry on
// the wire is reset to its zero value (what a fresh decoder struct holds), and the
// header flags are reduced to those the frame type's fixed header carries.
func c23Expected(f frame.Frame, v uint8) frame.Frame {
	keepFlags := func(fr frame.Framer) frame.Framer {
		return frame.Framer{NoPersist: fr.NoPersist, RedDot: fr.RedDot, SyncOnce: fr.SyncOnce, DUP: fr.DUP}
	}
	switch p := f.(type) {
	case *frame.PingPacket:
		return &frame.PingPacket{} // PING/PONG are encoded as type<<4: no flag is carried
	case *frame.PongPacket:
		return &frame.PongPacket{}
	case *frame.ConnectPacket:
		c := *p
		c.Framer = keepFlags(p.Framer)
		return &c
	case *frame.ConnackPacket:
		c := *p
		// CONNACK's flag nibble carries HasServerVersion only (ToFixHeaderUint8)
		c.Framer = frame.Framer{HasServerVersion: p.HasServerVersion}
		if !p.HasServerVersion {
			c.ServerVersion = 0
		}
		if v < 4 {
			c.NodeId = 0
		}
		return &c
	case *frame.SendPacket:
		c := *p
		c.Framer = keepFlags(p.Framer)
		if !c23StreamCarried(p.Setting, v) {
			c.StreamNo = ""
		}
		if v < 3 {
			c.Expire = 0
		}
		if !p.Setting.IsSet(frame.SettingTopic) {
			c.Topic = ""
		}
		return &c
	case *frame.SendackPacket:
		c := *p
		c.Framer = keepFlags(p.Framer)
		return &c
	case *frame.RecvPacket:
		c := *p
		c.Framer = keepFlags(p.Framer)
		if !c23StreamCarried(p.Setting, v) {
			c.StreamNo, c.StreamId, c.StreamFlag = "", 0, 0
		}
		if v < 3 {
			c.Expire = 0
		}
		if !p.Setting.IsSet(frame.SettingTopic) {
			c.Topic = ""
		}
		c.ClientSeq = 0 // documented as "not part of the encoding"
		return &c
	case *frame.RecvackPacket:
		c := *p
		c.Framer = keepFlags(p.Framer)
		return &c
	case *frame.DisconnectPacket:
		c := *p
		c.Framer = keepFlags(p.Framer)
		return &c
	case *frame.SubPacket:
		c := *p
		c.Framer = keepFlags(p.Framer)
		return &c
	case *frame.SubackPacket:
		c := *p
		c.Framer = keepFlags(p.Framer)
		return &c
	case *frame.EventPacket:
		c := *p
		c.Framer = keepFlags(p.Framer)
		return &c
	}
	return nil
}

// c23Diff compares the decoded frame with the expected (normalised) frame and returns the
// name of the first differing field ("" when equal).
func c23Diff(want, got frame.Frame) (string, string) {
	if got == nil {
		return "frame", "decoded frame is nil"
	}
	if want.GetFrameType() != got.GetFrameType() {
		return "FrameType", fmt.Sprintf("want %s got %s", want.GetFrameType(), got.GetFrameType())
	}
	d := &c23Differ{}
	flags := func(w, g frame.Framer) {
		c23Eq(d, "DUP", w.DUP, g.DUP)
		c23Eq(d, "SyncOnce", w.SyncOnce, g.SyncOnce)
		c23Eq(d, "RedDot", w.RedDot, g.RedDot)
		c23Eq(d, "NoPersist", w.NoPersist, g.NoPersist)
	}
	switch w := want.(type) {
	case *frame.PingPacket:
		if _, ok := got.(*frame.PingPacket); !ok {
			return "GoType", fmt.Sprintf("got %T", got)
		}
	case *frame.PongPacket:
		if _, ok := got.(*frame.PongPacket); !ok {
			return "GoType", fmt.Sprintf("got %T", got)
		}
	case *frame.ConnectPacket:
		g, ok := got.(*frame.ConnectPacket)
		if !ok {
			return "GoType", fmt.Sprintf("got %T", got)
		}
		flags(w.Framer, g.Framer)
		c23Eq(d, "Version", w.Version, g.Version)
		c23Eq(d, "DeviceFlag", w.DeviceFlag, g.DeviceFlag)
		c23Eq(d, "DeviceID", w.DeviceID, g.DeviceID)
		c23Eq(d, "UID", w.UID, g.UID)
		c23Eq(d, "Token", w.Token, g.Token)
		c23Eq(d, "ClientTimestamp", w.ClientTimestamp, g.ClientTimestamp)
		c23Eq(d, "ClientKey", w.ClientKey, g.ClientKey)
	case *frame.ConnackPacket:
		g, ok := got.(*frame.ConnackPacket)
		if !ok {
			return "GoType", fmt.Sprintf("got %T", got)
		}
		c23Eq(d, "HasServerVersion", w.HasServerVersion, g.HasServerVersion)
		c23Eq(d, "ServerVersion", w.ServerVersion, g.ServerVersion)
		c23Eq(d, "TimeDiff", w.TimeDiff, g.TimeDiff)
		c23Eq(d, "ReasonCode", w.ReasonCode, g.ReasonCode)
		c23Eq(d, "ServerKey", w.ServerKey, g.ServerKey)
		c23Eq(d, "Salt", w.Salt, g.Salt)
		c23Eq(d, "NodeId", w.NodeId, g.NodeId)
	case *frame.SendPacket:
		g, ok := got.(*frame.SendPacket)
		if !ok {
			return "GoType", fmt.Sprintf("got %T", got)
		}
		flags(w.Framer, g.Framer)
		c23Eq(d, "Setting", w.Setting, g.Setting)
		c23Eq(d, "MsgKey", w.MsgKey, g.MsgKey)
		c23Eq(d, "Expire", w.Expire, g.Expire)
		c23Eq(d, "ClientSeq", w.ClientSeq, g.ClientSeq)
		c23Eq(d, "ClientMsgNo", w.ClientMsgNo, g.ClientMsgNo)
		c23Eq(d, "StreamNo", w.StreamNo, g.StreamNo)
		c23Eq(d, "ChannelID", w.ChannelID, g.ChannelID)
		c23Eq(d, "ChannelType", w.ChannelType, g.ChannelType)
		c23Eq(d, "Topic", w.Topic, g.Topic)
		d.bytes("Payload", w.Payload, g.Payload)
	case *frame.SendackPacket:
		g, ok := got.(*frame.SendackPacket)
		if !ok {
			return "GoType", fmt.Sprintf("got %T", got)
		}
		flags(w.Framer, g.Framer)
		c23Eq(d, "MessageID", w.MessageID, g.MessageID)
		c23Eq(d, "MessageSeq", w.MessageSeq, g.MessageSeq)
		c23Eq(d, "ClientSeq", w.ClientSeq, g.ClientSeq)
		c23Eq(d, "ClientMsgNo", w.ClientMsgNo, g.ClientMsgNo)
		c23Eq(d, "ReasonCode", w.ReasonCode, g.ReasonCode)
	case *frame.RecvPacket:
		g, ok := got.(*frame.RecvPacket)
		if !ok {
			return "GoType", fmt.Sprintf("got %T", got)
		}
		flags(w.Framer, g.Framer)
		c23Eq(d, "Setting", w.Setting, g.Setting)
		c23Eq(d, "MsgKey", w.MsgKey, g.MsgKey)
		c23Eq(d, "Expire", w.Expire, g.Expire)
		c23Eq(d, "MessageID", w.MessageID, g.MessageID)
		c23Eq(d, "MessageSeq", w.MessageSeq, g.MessageSeq)
		c23Eq(d, "ClientMsgNo", w.ClientMsgNo, g.ClientMsgNo)
		c23Eq(d, "StreamNo", w.StreamNo, g.StreamNo)
		c23Eq(d, "StreamId", w.StreamId, g.StreamId)
		c23Eq(d, "StreamFlag", w.StreamFlag, g.StreamFlag)
		c23Eq(d, "Timestamp", w.Timestamp, g.Timestamp)
		c23Eq(d, "ChannelID", w.ChannelID, g.ChannelID)
		c23Eq(d, "ChannelType", w.ChannelType, g.ChannelType)
		c23Eq(d, "Topic", w.Topic, g.Topic)
		c23Eq(d, "FromUID", w.FromUID, g.FromUID)
		d.bytes("Payload", w.Payload, g.Payload)
		c23Eq(d, "ClientSeq", w.ClientSeq, g.ClientSeq)
	case *frame.RecvackPacket:
		g, ok := got.(*frame.RecvackPacket)
		if !ok {
			return "GoType", fmt.Sprintf("got %T", got)
		}
		flags(w.Framer, g.Framer)
		c23Eq(d, "MessageID", w.MessageID, g.MessageID)
		c23Eq(d, "MessageSeq", w.MessageSeq, g.MessageSeq)
	case *frame.DisconnectPacket:
		g, ok := got.(*frame.DisconnectPacket)
		if !ok {
			return "GoType", fmt.Sprintf("got %T", got)
		}
		flags(w.Framer, g.Framer)
		c23Eq(d, "ReasonCode", w.ReasonCode, g.ReasonCode)
		c23Eq(d, "Reason", w.Reason, g.Reason)
	case *frame.SubPacket:
		g, ok := got.(*frame.SubPacket)
		if !ok {
			return "GoType", fmt.Sprintf("got %T", got)
		}
		flags(w.Framer, g.Framer)
		c23Eq(d, "Setting", w.Setting, g.Setting)
		c23Eq(d, "SubNo", w.SubNo, g.SubNo)
		c23Eq(d, "ChannelID", w.ChannelID, g.ChannelID)
		c23Eq(d, "ChannelType", w.ChannelType, g.ChannelType)
		c23Eq(d, "Action", w.Action, g.Action)
		c23Eq(d, "Param", w.Param, g.Param)
	case *frame.SubackPacket:
		g, ok := got.(*frame.SubackPacket)
		if !ok {
			return "GoType", fmt.Sprintf("got %T", got)
		}
		flags(w.Framer, g.Framer)
		c23Eq(d, "SubNo", w.SubNo, g.SubNo)
		c23Eq(d, "ChannelID", w.ChannelID, g.ChannelID)
		c23Eq(d, "ChannelType", w.ChannelType, g.ChannelType)
		c23Eq(d, "Action", w.Action, g.Action)
		c23Eq(d, "ReasonCode", w.ReasonCode, g.ReasonCode)
	case *frame.EventPacket:
		g, ok := got.(*frame.EventPacket)
		if !ok {
			return "GoType", fmt.Sprintf("got %T", got)
		}
		flags(w.Framer, g.Framer)
		c23Eq(d, "Id", w.Id, g.Id)
		c23Eq(d, "Type", w.Type, g.Type)
		c23Eq(d, "Timestamp", w.Timestamp, g.Timestamp)
		d.bytes("Data", w.Data, g.Data)
	default:
		return "GoType", fmt.Sprintf("unexpected original %T", want)
	}
	return d.field, d.detail
}

type c23Differ struct {
	field, detail string
}

func c23Eq[T comparable](d *c23Differ, name string, w, g T) {
	if d.field != "" || w == g {
		return
	}
	d.field = name
	ws, gs := fmt.Sprintf("%v", w), fmt.Sprintf("%v", g)
	if len(ws) > 48 {
		ws = fmt.Sprintf("%q.. (len %d)", ws[:24], len(ws))
	}
	if len(gs) > 48 {
		gs = fmt.Sprintf("%q.. (len %d)", gs[:24], len(gs))
	}
	d.detail = fmt.Sprintf("want %s got %s", ws, gs)
}

func (d *c23Differ) bytes(name string, w, g []byte) {
	if d.field != "" || bytes.Equal(w, g) { // nil and empty are the same payload
		return
	}
	d.field = name
	d.detail = fmt.Sprintf("want len %d got len %d", len(w), len(g))
	if len(w) == len(g) {
		for i := range w {
			if w[i] != g[i] {
				d.detail += fmt.Sprintf(", first difference at byte %d: want %#02x got %#02x", i, w[i], g[i])
				break
			}
		}
	}
}
