package wkproto_test

// C23 session shapes: Adapter.Decode branches on the SESSION (negotiated version, and whether
// payload encryption was negotiated) and on the SEND frame's Setting bits (NoEncrypt: the
// frame is not decrypted even on an encrypted session). The splits / bytes sections use
// sessions without encryption; the sections built here repeat the stream enumeration over
// every session shape x every Setting bit combination, with the same feeder: every Decode
// input is the transport's reused read buffer (overwritten with 0xEE as soon as Decode
// returned), decoded SEND frames are RETAINED (async dispatch, Adapter.OwnsDecodedFrames) and
// compared with the frames originally encoded only at the END of the stream.
//
// Client side of an encrypted session (what pkg/client does): payload := base64(AES-CBC(plain)),
// MsgKey := md5(base64(AES-CBC(clientSeq clientMsgNo channelID channelType payload))), unless the
// frame carries SettingNoEncrypt (payload sent as is). A decrypting session must yield the
// frame with the PLAIN payload; every other session yields the payload as sent.

import (
	"encoding/hex"
	"fmt"
	"sync/atomic"

	adapterpkg "github.com/WuKongIM/WuKongIM/pkg/gateway/protocol/wkproto"
	"github.com/WuKongIM/WuKongIM/pkg/gateway/session"
	gatewaytypes "github.com/WuKongIM/WuKongIM/pkg/gateway/types"
	"github.com/WuKongIM/WuKongIM/pkg/gateway/wkprotoenc"
	codec "github.com/WuKongIM/WuKongIM/pkg/protocol/codec"
	"github.com/WuKongIM/WuKongIM/pkg/protocol/frame"
)

const (
	c23ShapePlain        = iota // no encryption values (the shape of the other sections)
	c23ShapeEncCrypto           // what gateway auth sets: enabled + AES key + IV + cached SessionCrypto
	c23ShapeEncKeys             // enabled + AES key + IV, no cached crypto (fallback path of the adapter)
	c23ShapeKeysDisabled        // key material present, gateway.encryption_enabled = false
	c23NShapes
)

var c23ShapeNames = [c23NShapes]string{"plain", "encrypted(cached crypto)", "encrypted(keys only)", "keys present, encryption disabled"}

func c23Decrypts(shape int) bool { return shape == c23ShapeEncCrypto || shape == c23ShapeEncKeys }

func c23Keys() wkprotoenc.SessionKeys {
	return wkprotoenc.SessionKeys{AESKey: []byte("0123456789abcdef"), AESIV: []byte("fedcba9876543210")}
}

func c23SessSession(vcase, shape int) (session.Session, error) {
	s := c23Session(vcase)
	if shape == c23ShapePlain {
		return s, nil
	}
	k := c23Keys()
	s.SetValue(gatewaytypes.SessionValueEncryptionEnabled, shape != c23ShapeKeysDisabled)
	s.SetValue(gatewaytypes.SessionValueAESKey, k.AESKey)
	s.SetValue(gatewaytypes.SessionValueAESIV, k.AESIV)
	if shape != c23ShapeEncKeys {
		sc, err := wkprotoenc.NewSessionCrypto(k)
		if err != nil {
			return nil, err
		}
		s.SetValue(gatewaytypes.SessionValueCrypto, sc)
	}
	return s, nil
}

// c23SharedAdapter: the gateway has ONE adapter per listener, shared by all its sessions and
// called concurrently from the transport's event loops. The session sections do the same: all
// workers, version cases and session shapes decode through this one Adapter, so anything an
// adapter remembered from one session would show on the sessions of another shape.
var c23SharedAdapter = adapterpkg.New()

func c23NewSessFeeder(vcase, shape int) *c23Feeder {
	s, err := c23SessSession(vcase, shape)
	if err != nil {
		panic(err)
	}
	return &c23Feeder{ad: c23SharedAdapter, sess: s, slab: make([]byte, 1<<16)}
}

func (w *c23Worker) sessFeeder(vcase, shape int) *c23Feeder {
	if w.sfeeders[vcase][shape] == nil {
		w.sfeeders[vcase][shape] = c23NewSessFeeder(vcase, shape)
	}
	return w.sfeeders[vcase][shape]
}

// c23SessItem is one frame of the session menu: what the client puts on the wire and what a
// decrypting session must yield for it.
type c23SessItem struct {
	name      string
	wire      frame.Frame
	plain     frame.Frame
	send      bool
	encrypted bool // payload and MsgKey were produced with the session keys
}

// c23SettingValues: every combination of the five defined Setting bits (receipt, signal,
// no-encrypt, topic, stream) and each undefined bit alone.
func c23SettingValues() []frame.Setting {
	var out []frame.Setting
	bits := []frame.Setting{frame.SettingReceiptEnabled, frame.SettingSignal, frame.SettingNoEncrypt, frame.SettingTopic, frame.SettingStream}
	for m := 0; m < 1<<len(bits); m++ {
		var s frame.Setting
		for i, b := range bits {
			if m&(1<<i) != 0 {
				s |= b
			}
		}
		out = append(out, s)
	}
	return append(out, 1<<0, 1<<2, 1<<6)
}

func c23SessSend(name string, setting frame.Setting, fl frame.Framer, seq uint64, payload []byte) (c23SessItem, error) {
	p := &frame.SendPacket{Framer: fl, Setting: setting, Expire: 9, ClientSeq: seq, ClientMsgNo: "m" + fmt.Sprint(seq), ChannelID: "u2", ChannelType: 1,
		Payload: append([]byte(nil), payload...)}
	if setting.IsSet(frame.SettingTopic) {
		p.Topic = "tp"
	}
	if setting.IsSet(frame.SettingStream) {
		p.StreamNo = "st"
	}
	plain := *p
	it := c23SessItem{name: name, wire: p, plain: &plain, send: true}
	if !setting.IsSet(frame.SettingNoEncrypt) {
		enc, err := wkprotoenc.EncryptPayload(payload, c23Keys())
		if err != nil {
			return it, err
		}
		p.Payload = enc
		if p.MsgKey, err = wkprotoenc.SendMsgKey(p, c23Keys()); err != nil {
			return it, err
		}
		plain.MsgKey = p.MsgKey
		it.encrypted = true
	}
	return it, nil
}

// c23SessItems: items [0, nSettings) = one small SEND per Setting value (settings sweep);
// the rest = the sequence menu (SENDs of both kinds with different payloads and flags, an
// encrypted SEND with an empty payload, and two non-SEND frames to interleave).
func c23SessItems() (items []c23SessItem, nSettings int, err error) {
	add := func(it c23SessItem, e error) {
		if e != nil && err == nil {
			err = e
		}
		items = append(items, it)
	}
	for _, s := range c23SettingValues() {
		add(c23SessSend(fmt.Sprintf("SEND[setting=%#02x]", uint8(s)), s, frame.Framer{}, 1, []byte("hi!")))
	}
	nSettings = len(items)
	add(c23SessSend("SEND-noencrypt", frame.SettingNoEncrypt, frame.Framer{NoPersist: true, SyncOnce: true}, 2, []byte("plain-2")))
	add(c23SessSend("SEND-encrypted", 0, frame.Framer{RedDot: true}, 3, []byte("secret-3")))
	add(c23SessSend("SEND-noencrypt+topic+receipt", frame.SettingNoEncrypt|frame.SettingTopic|frame.SettingReceiptEnabled, frame.Framer{DUP: true}, 4, c23Pat('Q', 20)))
	add(c23SessSend("SEND-encrypted+topic+stream", frame.SettingTopic|frame.SettingStream, frame.Framer{}, 5, c23Pat('R', 17)))
	add(c23SessSend("SEND-encrypted-empty", 0, frame.Framer{}, 6, nil))
	items = append(items, c23SessItem{name: "PING", wire: &frame.PingPacket{}, plain: &frame.PingPacket{}})
	ack := &frame.RecvackPacket{MessageID: 5, MessageSeq: 6}
	items = append(items, c23SessItem{name: "RECVACK", wire: ack, plain: ack})
	return
}

// c23SessEncoded: per version case the wire bytes of every item and the expected decoded
// frame for decrypting / non-decrypting sessions.
type c23SessEncoded struct {
	wire     [][]byte
	expected [2][]frame.Frame // [0] payload as sent, [1] decrypted
}

func c23EncodeSessItems(items []c23SessItem, vcase int) (*c23SessEncoded, error) {
	v := c23WireVersion(vcase)
	p := codec.New()
	e := &c23SessEncoded{}
	for _, it := range items {
		b, err := p.EncodeFrame(it.wire, v)
		if err != nil {
			return nil, fmt.Errorf("encode %s v%d: %v", it.name, v, err)
		}
		e.wire = append(e.wire, append([]byte(nil), b...))
		e.expected[0] = append(e.expected[0], c23Expected(it.wire, v))
		e.expected[1] = append(e.expected[1], c23Expected(it.plain, v))
	}
	return e, nil
}

func c23BuildSessStream(items []c23SessItem, e *c23SessEncoded, shape int, seq []int) *c23Stream {
	s := &c23Stream{}
	k := 0
	if c23Decrypts(shape) {
		k = 1
	}
	for _, i := range seq {
		s.wire = append(s.wire, e.wire[i]...)
		s.bounds = append(s.bounds, len(s.wire))
		s.expected = append(s.expected, e.expected[k][i])
		s.names = append(s.names, items[i].name)
	}
	return s
}

type c23SessStats struct {
	noEncryptOnDecrypting, decrypted, passedThrough int64 // SEND frames by branch (per evaluation)
}

func c23ChunkCount(L, maxChunks int) int64 {
	n := int64(1)
	if maxChunks >= 2 {
		n += int64(L - 1)
	}
	if maxChunks >= 3 {
		n += int64(L-1) * int64(L-2) / 2
	}
	return n
}

// c23SessSplitUnits: (1) the settings sweep - every single-SEND stream over the Setting
// values; (2) every sequence of <= maxSeq frames of the sequence menu; each for every
// version case x session shape, fed in every split into <= chunks(vcase, frames) chunks.
func c23SessSplitUnits(sec int, items []c23SessItem, nSettings int, enc []*c23SessEncoded, maxSeq int, chunks func(vcase, nframes int) int) []c23Unit {
	var seqs [][]int
	for i := 0; i < nSettings; i++ {
		seqs = append(seqs, []int{i})
	}
	for _, q := range c23Sequences(len(items)-nSettings, maxSeq) {
		s := make([]int, len(q))
		for k, i := range q {
			s[k] = nSettings + i
		}
		seqs = append(seqs, s)
	}
	var units []c23Unit
	for vcase := 0; vcase < c23NVCases; vcase++ {
		for shape := 0; shape < c23NShapes; shape++ {
			for _, seq := range seqs {
				vcase, shape, seq := vcase, shape, seq
				L := 0
				for _, i := range seq {
					L += len(enc[vcase].wire[i])
				}
				maxChunks := chunks(vcase, len(seq))
				units = append(units, c23Unit{sec: sec, vcase: vcase, size: c23ChunkCount(L, maxChunks), run: func(w *c23Worker, st *c23Stat) {
					fd := w.sessFeeder(vcase, shape)
					s := c23BuildSessStream(items, enc[vcase], shape, seq)
					h0 := c23HashBytes(c23Mix(c23Mix(0xC, uint64(vcase)), uint64(shape)), s.wire)
					var nNoEnc, nDec, nPass int64
					for _, i := range seq {
						switch it := items[i]; {
						case !it.send:
						case c23Decrypts(shape) && !it.encrypted:
							nNoEnc++
						case c23Decrypts(shape):
							nDec++
						default:
							nPass++
						}
					}
					label := func(nc int, inside bool) string {
						return fmt.Sprintf("ok/%s/%d-frames/%d-chunks/inside=%v", c23ShapeNames[shape], len(seq), nc, inside)
					}
					one := func(cuts []int) bool {
						st.evals++
						st.sess.noEncryptOnDecrypting += nNoEnc
						st.sess.decrypted += nDec
						st.sess.passedThrough += nPass
						inside := false
						for _, c := range cuts {
							if c23InsideFrame(s, c) {
								inside = true
								st.split.insideCuts++
							}
						}
						if v := fd.split(s, cuts, &st.split); v != nil {
							st.outcomes["VIOLATION"]++
							v.msg += " | session: " + c23ShapeNames[shape]
							w.report(c23Sections[sec], v, c23Replay{Section: c23Sections[sec], VCase: vcase, Shape: shape, Seq: seq, Names: s.names, Cuts: append([]int(nil), cuts...), Input: hex.EncodeToString(s.wire)})
							return atomic.LoadInt32(w.stop) == 0
						}
						// every case of this section is non-trivial: a SEND / session-branch combination
						h := h0
						for _, c := range cuts {
							h = c23Mix(h, uint64(c)+1)
						}
						st.add(c23Mix(h, uint64(len(cuts))))
						st.outcomes[label(len(cuts)+1, inside)]++
						return true
					}
					if !one(nil) {
						return
					}
					cuts := make([]int, 0, 2)
					if maxChunks >= 2 {
						for c1 := 1; c1 < L; c1++ {
							if !one(append(cuts[:0], c1)) {
								return
							}
						}
					}
					if maxChunks >= 3 {
						for c1 := 1; c1 < L; c1++ {
							for c2 := c1 + 1; c2 < L; c2++ {
								if !one(append(cuts[:0], c1, c2)) {
									return
								}
							}
						}
					}
				}})
			}
		}
	}
	return units
}

// c23SessMutationUnits: every single-byte substitution of every SEND of the sequence menu,
// decoded on the decrypting session shapes (the decryption / MsgKey validation path sees
// arbitrary bytes); thorough: also truncated at every later position.
func c23SessMutationUnits(sec int, items []c23SessItem, nSettings int, enc []*c23SessEncoded, shapes []int, trunc bool) []c23Unit {
	var units []c23Unit
	for vcase := 0; vcase < c23NVCases; vcase++ {
		for _, shape := range shapes {
			for i := nSettings; i < len(items); i++ {
				if !items[i].send {
					continue
				}
				vcase, shape := vcase, shape
				base := enc[vcase].wire[i]
				L := int64(len(base))
				n := L * 255
				if trunc {
					n += 255 * L * (L - 1) / 2
				}
				units = append(units, c23Unit{sec: sec, vcase: vcase, size: n, run: func(w *c23Worker, st *c23Stat) {
					fd := w.sessFeeder(vcase, shape)
					m := make([]byte, len(base))
					for pos := range base {
						copy(m, base)
						for x := 0; x < 256; x++ {
							if byte(x) == base[pos] {
								continue
							}
							m[pos] = byte(x)
							if !c23ArbOn(w, st, c23Sections[sec], fd, vcase, shape, m) {
								return
							}
							if trunc {
								for k := pos + 1; k < len(m); k++ {
									if !c23ArbOn(w, st, c23Sections[sec], fd, vcase, shape, m[:k]) {
										return
									}
								}
							}
						}
					}
				}})
			}
		}
	}
	return units
}

func c23ArbOn(w *c23Worker, st *c23Stat, sec string, fd *c23Feeder, vcase, shape int, in []byte) bool {
	st.evals++
	out, v := fd.arbitrary(in)
	if v != nil {
		st.outcomes["VIOLATION"]++
		v.msg += fmt.Sprintf(" | input(%d)=%s version-case=%d session: %s", len(in), c23Hex(in), vcase, c23ShapeNames[shape])
		w.report(sec, v, c23Replay{Section: sec, VCase: vcase, Shape: shape, Input: hex.EncodeToString(in)})
		return atomic.LoadInt32(w.stop) == 0
	}
	st.outcomes[out]++
	st.add(c23HashBytes(c23Mix(c23Mix(0xD, uint64(vcase)), uint64(shape)), in))
	return true
}
