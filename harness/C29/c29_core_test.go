package channelappend

// C29 layer A - Send results are aligned, ordered and idempotent: the sequential core of one
// channel writer, explored with engine E1 (mc).
//
// Real code executed on every transition (in-package seam, no goroutines, no pools):
//
//	channelWriter.enqueue                       (SubmitLocal's hand-off into the writer inbox)
//	channelWriter.takeInboxLocked / prepareInbox / admitPreparedInboxLocked
//	                                            (prepareBatch, prepareSend, canAdmit, Future.completeItems)
//	channelWriter.nextAppendLocked              (channelState.nextAppendBatch: batch cut, append sequence)
//	appendEffect.run                            (activeAppendItems, newIdempotentAppendBatch coalescing,
//	                                             appendRequest, recovery lookups, bounded retry, expandCompletions)
//	channelWriter.applyAppendCompletion         (recordAppendCompletion / popNextAppendCompletion ordered
//	                                             drain, Future.completeItem)
//
// The only harness glue is the body of one pass of channelWriter.advanceAppendOnly (take inbox,
// prepare, admit, cut one append batch) with the worker-pool hand-off replaced by "run the effect
// now, keep its completion, deliver it later as a separate event" - so completions of
// concurrently in-flight appends (AppendInflightBatchesPerChannel = 2) arrive in every order while
// the Appender sees the requests in writer order (the contract documented at
// defaultAppendInflightBatchesPerChannel).
//
// Harness Appender = reference model of the durable channel log as the repository's store
// behaves (pkg/db/message, decided by C08): a batch that would store a (sender, client number)
// pair a second time - against the log or inside the batch - is refused as a whole with
// ErrAppendFailed; otherwise records get consecutive sequences. Environment answers
// (mc.Env.Choose, each non-default answer is one deviation): commit-then-ErrAppendFailed,
// ErrAppendFailed without commit, ErrNotLeader, item-local error, short result vector; the
// idempotency port answers faithfully / false miss / error.

import (
	"context"
	"encoding/json"
	"errors"
	"fmt"
	"hash/fnv"
	"sort"
	"strings"
	"sync/atomic"
	"testing"

	"github.com/WuKongIM/WuKongIM/pkg/zzverif/ev"
	"github.com/WuKongIM/WuKongIM/pkg/zzverif/mc"
)

const (
	c29Chan     = "g1"
	c29ChanType = uint8(2)
)

// ---------------------------------------------------------------- alphabet

type c29Item struct {
	name    string
	from    string
	no      string
	payload string
	invalid bool // empty payload: terminal ReasonInvalidRequest at prepare
	cancel  bool // carries the instance's cancellable context
}

var c29Items = map[string]c29Item{
	"a": {name: "a", from: "u1", no: "n1", payload: "P"},
	"A": {name: "A", from: "u1", no: "n1", payload: "Q"}, // a's key, other payload
	"b": {name: "b", from: "u1", no: "n2", payload: "P"},
	"B": {name: "B", from: "u1", no: "n2", payload: "Q"}, // b's key, other payload
	"c": {name: "c", from: "u2", no: "n1", payload: "P"}, // other sender, a's number: distinct key
	"C": {name: "C", from: "u2", no: "n1", payload: "Q"}, // c's key, other payload
	"x": {name: "x", from: "u1", no: "", payload: "P"},   // no client number: never idempotent
	"z": {name: "z", from: "u1", no: "n7", invalid: true},
	"k": {name: "k", from: "u2", no: "n9", payload: "P", cancel: true},
}

// a batch name is a string of item letters, optionally prefixed with "F" (submitted with a
// write-fenced authority target: prepare performs the idempotency lookup first)
func c29BatchItems(name string) (items []c29Item, fenced bool) {
	if strings.HasPrefix(name, "F") {
		fenced = true
		name = name[1:]
	}
	for _, r := range name {
		items = append(items, c29Items[string(r)])
	}
	return items, fenced
}

// ---------------------------------------------------------------- world

type c29Rec struct {
	id      uint64
	seq     uint64
	from    string
	no      string
	payload string
	tag     string // Topic of the message = submitted item that produced the record
}

type c29Sub struct {
	name   string
	items  []c29Item
	tags   []string
	future *Future
}

type c29Stats struct {
	appendCalls, conflicts, retryAttempts, lookups, lookupHits atomic.Int64
	replays, ownSuccesses, outOfOrderDone, busy, terminalAligned atomic.Int64
	crossBatchCoalesced, keylessStoredTwice, cancelledFiltered atomic.Int64
	failedItems, dupPassedToPort                                                     atomic.Int64
}

type c29Cfg struct {
	name      string
	menu      []string
	maxSubs   int
	inflight  int
	watermark int
	stats     *c29Stats
}

type c29Inst struct {
	cfg    *c29Cfg
	w      *channelWriter
	target AuthorityTarget
	env    *mc.Env

	store       []c29Rec
	subs        []*c29Sub
	outstanding []appendCompletedEvent
	outLabel    []string
	nextID      uint64

	kctx      context.Context
	kcancel   context.CancelFunc
	kSub      bool
	cancelled bool
	lastReq   string
	panicked  string // a panic inside the append effect (runAppend turns it into an error completion)
}

type c29IDs struct{ in *c29Inst }

func (a c29IDs) Next() uint64 { a.in.nextID++; return 1000 + a.in.nextID }

func c29Hash(p string) uint64 {
	h := fnv.New64a()
	h.Write([]byte(p))
	return h.Sum64()
}

func (in *c29Inst) find(from, no string) *c29Rec {
	for i := range in.store {
		if in.store[i].from == from && in.store[i].no == no {
			return &in.store[i]
		}
	}
	return nil
}

// ---------------------------------------------------------------- fakes

type c29Appender struct{ in *c29Inst }

var errC29Item = errors.New("c29: item-local append failure")

func (a c29Appender) commit(msgs []Message, skip int) []AppendBatchItemResult {
	in := a.in
	out := make([]AppendBatchItemResult, 0, len(msgs))
	for i, m := range msgs {
		if i == skip {
			out = append(out, AppendBatchItemResult{Err: fmt.Errorf("%w: %w", ErrChannelNotFound, errC29Item)})
			continue
		}
		rec := c29Rec{id: m.MessageID, seq: uint64(len(in.store) + 1), from: m.FromUID, no: m.ClientMsgNo, payload: string(m.Payload), tag: m.Topic}
		in.store = append(in.store, rec)
		out = append(out, AppendBatchItemResult{MessageID: rec.id, MessageSeq: rec.seq})
	}
	return out
}

func (a c29Appender) AppendBatch(_ context.Context, req AppendBatchRequest) (AppendBatchResult, error) {
	in := a.in
	st := in.cfg.stats
	st.appendCalls.Add(1)
	if req.Attempt > 1 {
		st.retryAttempts.Add(1)
	}
	var names []string
	type key struct{ from, no string }
	seen := map[key]string{}
	conflict := false
	for _, m := range req.Messages {
		names = append(names, m.Topic)
		if m.FromUID == "" || m.ClientMsgNo == "" {
			continue
		}
		k := key{m.FromUID, m.ClientMsgNo}
		if p, dup := seen[k]; dup {
			conflict = true
			if p == string(m.Payload) {
				st.dupPassedToPort.Add(1)
			}
		}
		if in.find(m.FromUID, m.ClientMsgNo) != nil {
			conflict = true
		}
		seen[k] = string(m.Payload)
	}
	in.lastReq = fmt.Sprintf("append#%d%v", req.Attempt, names)
	if req.ChannelID.ID != c29Chan || req.ChannelID.Type != c29ChanType {
		return AppendBatchResult{}, fmt.Errorf("%w: c29 wrong channel", ErrChannelNotFound)
	}
	if conflict {
		// the store refuses the whole batch (dberrors.ErrConflict -> ErrAppendFailed)
		st.conflicts.Add(1)
		in.lastReq += "=conflict"
		return AppendBatchResult{}, fmt.Errorf("%w: c29 idempotency conflict", ErrAppendFailed)
	}
	switch in.env.Choose("append-outcome", 6) {
	case 1: // durable, but the caller sees a generic failure
		a.commit(req.Messages, -1)
		in.lastReq += "=committed-then-failed"
		return AppendBatchResult{}, fmt.Errorf("%w: c29 lost reply", ErrAppendFailed)
	case 2:
		in.lastReq += "=failed"
		return AppendBatchResult{}, fmt.Errorf("%w: c29 store failure", ErrAppendFailed)
	case 3:
		in.lastReq += "=not-leader"
		return AppendBatchResult{}, fmt.Errorf("%w: c29", ErrNotLeader)
	case 4:
		j := in.env.Choose("failed-item", len(req.Messages))
		in.lastReq += fmt.Sprintf("=item%d-failed", j)
		return AppendBatchResult{Items: a.commit(req.Messages, j)}, nil
	case 5:
		items := a.commit(req.Messages, -1)
		in.lastReq += "=short"
		return AppendBatchResult{Items: items[:len(items)-1]}, nil
	}
	in.lastReq += "=ok"
	return AppendBatchResult{Items: a.commit(req.Messages, -1)}, nil
}

type c29Lookup struct{ in *c29Inst }

var errC29Lookup = errors.New("c29: idempotency lookup failed")

func (l c29Lookup) LookupSend(_ context.Context, q IdempotencyQuery) (SendResult, bool, error) {
	in := l.in
	in.cfg.stats.lookups.Add(1)
	switch in.env.Choose("lookup", 3) {
	case 1:
		return SendResult{}, false, nil
	case 2:
		return SendResult{}, false, errC29Lookup
	}
	if q.ChannelID != c29Chan || q.ChannelType != c29ChanType {
		return SendResult{}, false, nil
	}
	rec := in.find(q.FromUID, q.ClientMsgNo)
	if rec == nil || (q.PayloadHash != 0 && c29Hash(rec.payload) != q.PayloadHash) {
		return SendResult{}, false, nil
	}
	in.cfg.stats.lookupHits.Add(1)
	return SendResult{MessageID: rec.id, MessageSeq: rec.seq, Reason: ReasonSuccess}, true, nil
}

// ---------------------------------------------------------------- instance

func c29New(cfg *c29Cfg) mc.Instance {
	in := &c29Inst{cfg: cfg}
	in.target = AuthorityTarget{ChannelID: ChannelID{ID: c29Chan, Type: c29ChanType}, ChannelKey: "2:" + c29Chan, LeaderNodeID: 1, Epoch: 1, LeaderEpoch: 1}
	opts := applyDefaults(Options{LocalNodeID: 1, Appender: c29Appender{in}, Idempotency: c29Lookup{in}, MessageID: c29IDs{in},
		AppendInflightBatchesPerChannel: cfg.inflight, ChannelBacklogHighWatermark: cfg.watermark})
	in.w = newChannelWriter(in.target, stateLimitsFromOptions(opts))
	in.w.ports = writerPorts{
		prepare:    preparePortsFromOptions(opts),
		append:     appendPortsFromOptions(opts),
		commit:     commitPorts{},
		runtimeCtx: context.Background(),
	}
	in.kctx, in.kcancel = context.WithCancel(context.Background())
	return in
}

func (in *c29Inst) Close() { in.kcancel() }

func (in *c29Inst) runnable() bool {
	in.w.mu.Lock()
	defer in.w.mu.Unlock()
	return in.w.hasRunnableWorkLocked()
}

func (in *c29Inst) Events() []string {
	var evs []string
	if in.runnable() {
		evs = append(evs, "adv")
	}
	for i := range in.outstanding {
		evs = append(evs, fmt.Sprintf("done:%d", i))
	}
	if len(in.subs) < in.cfg.maxSubs {
		for _, b := range in.cfg.menu {
			evs = append(evs, "sub:"+b)
		}
	}
	if in.kSub && !in.cancelled {
		evs = append(evs, "cancel")
	}
	return evs
}

func (in *c29Inst) Apply(evl string, env *mc.Env) (string, error) {
	in.env = env
	defer func() { in.env = nil }()
	switch {
	case strings.HasPrefix(evl, "sub:"):
		name := evl[4:]
		items, fenced := c29BatchItems(name)
		sub := &c29Sub{name: name, items: items}
		batch := make([]SendBatchItem, 0, len(items))
		for i, it := range items {
			tag := fmt.Sprintf("%d.%d%s", len(in.subs), i, it.name)
			sub.tags = append(sub.tags, tag)
			cmd := SendCommand{FromUID: it.from, ClientMsgNo: it.no, ChannelID: c29Chan, ChannelType: c29ChanType, Topic: tag}
			if !it.invalid {
				cmd.Payload = []byte(it.payload)
			}
			bi := SendBatchItem{Context: context.Background(), Command: cmd}
			if it.cancel {
				bi.Context = in.kctx
				in.kSub = true
			}
			batch = append(batch, bi)
		}
		target := in.target
		target.WriteFenced = fenced
		// what Group.SubmitLocal does after admission
		sub.future = newFuture(len(batch))
		in.subs = append(in.subs, sub)
		in.w.enqueue(submittedBatch{target: target, items: copySendBatchItems(batch), future: sub.future})
		return "submitted", nil

	case evl == "adv":
		// one pass of channelWriter.advanceAppendOnly; runAppend's pool hand-off is replaced by
		// running the effect here and keeping its completion for a later "done" event
		w := in.w
		in.lastReq = ""
		w.mu.Lock()
		inbox := w.takeInboxLocked()
		if len(inbox) > 0 {
			w.mu.Unlock()
			prepared := w.prepareInbox(inbox)
			w.mu.Lock()
			w.admitPreparedInboxLocked(prepared)
		}
		var eff appendEffect
		has := w.nextAppendLocked(&eff)
		w.mu.Unlock()
		if !has {
			return "adv:no-append", nil
		}
		snapshot := eff
		// like channelWriter.runAppend: a panic inside the effect becomes an error completion
		comp := func() (completion appendCompletedEvent) {
			defer func() {
				if recovered := recover(); recovered != nil {
					in.panicked = fmt.Sprint(recovered)
					completion = appendPanicCompletion(snapshot, recovered)
				}
			}()
			return snapshot.run(w.ports.runtimeCtx, w.ports.append)
		}()
		in.outstanding = append(in.outstanding, comp)
		in.outLabel = append(in.outLabel, fmt.Sprintf("s%d", comp.seq))
		var classes []string
		for _, c := range comp.items {
			classes = append(classes, fmt.Sprintf("%s:%s", c.item.Command.Topic, c29Class(c.result)))
		}
		sort.Strings(classes)
		return fmt.Sprintf("adv:%s->%v", in.lastReq, classes), nil

	case strings.HasPrefix(evl, "done:"):
		var i int
		fmt.Sscanf(evl[5:], "%d", &i)
		comp := in.outstanding[i]
		in.outstanding = append(append([]appendCompletedEvent(nil), in.outstanding[:i]...), in.outstanding[i+1:]...)
		in.outLabel = append(append([]string(nil), in.outLabel[:i]...), in.outLabel[i+1:]...)
		if i > 0 {
			in.cfg.stats.outOfOrderDone.Add(1)
		}
		in.w.applyAppendCompletion(comp)
		return "done:" + in.doneSummary(), nil

	case evl == "cancel":
		in.cancelled = true
		in.kcancel()
		return "cancelled", nil
	}
	return "", fmt.Errorf("c29: unknown event %q", evl)
}

func c29Class(r SendBatchItemResult) string {
	switch {
	case r.Err != nil && errors.Is(r.Err, ErrChannelBusy):
		return "busy"
	case r.Err != nil && errors.Is(r.Err, context.Canceled):
		return "cancelled"
	case r.Err != nil && errors.Is(r.Err, ErrAppendResultMissing):
		return "missing"
	case r.Err != nil && errors.Is(r.Err, errC29Lookup):
		return "lookup-error"
	case r.Err != nil && errors.Is(r.Err, ErrAppendFailed):
		return "append-failed"
	case r.Err != nil:
		return "error"
	case r.Result.Reason == ReasonSuccess:
		return fmt.Sprintf("ok@%d", r.Result.MessageSeq)
	default:
		return fmt.Sprintf("reason%d", r.Result.Reason)
	}
}

func c29FutureDone(f *Future) bool {
	select {
	case <-f.done:
		return true
	default:
		return false
	}
}

func (in *c29Inst) doneSummary() string {
	var parts []string
	for k, s := range in.subs {
		if !c29FutureDone(s.future) {
			parts = append(parts, fmt.Sprintf("%d:pending", k))
			continue
		}
		var cl []string
		for _, r := range s.future.snapshot() {
			cl = append(cl, c29Class(r))
		}
		parts = append(parts, fmt.Sprintf("%d:%v", k, cl))
	}
	return strings.Join(parts, " ")
}

// Canon: no merging (the message ids in flight depend on the whole history).
func (in *c29Inst) Canon() string { return "" }

// ---------------------------------------------------------------- oracle

func (in *c29Inst) Check() error {
	st := in.cfg.stats
	if in.panicked != "" {
		return mc.Violatef("C29:append-effect-panicked", "the append effect panicked (%s); channelWriter.runAppend answers every item of the batch with an error", in.panicked)
	}
	// the durable log as the oracle sees it: per submitted logical send (identified through the
	// submitted items, not through what the runtime passed to the port) at most one record
	origin := map[string]c29Item{}
	for _, s := range in.subs {
		for i, it := range s.items {
			origin[s.tags[i]] = it
		}
	}
	type key struct{ from, no string }
	perKey := map[key]int{}
	perTag := map[string]int{}
	for _, r := range in.store {
		it, ok := origin[r.tag]
		if !ok {
			return mc.Violatef("C29:stored-record-of-no-submitted-send", "the appender stored a record tagged %q that no submitted item carries", r.tag)
		}
		if it.from != r.from || it.no != r.no || it.payload != r.payload {
			return mc.Violatef("C29:stored-record-differs-from-send", "record seq %d (%s/%s/%q) differs from the send %s that produced it (%s/%s/%q)", r.seq, r.from, r.no, r.payload, r.tag, it.from, it.no, it.payload)
		}
		perTag[r.tag]++
		if it.no != "" {
			perKey[key{it.from, it.no}]++
			if perKey[key{it.from, it.no}] > 1 {
				return mc.Violatef("C29:second-message-stored-for-client-msg-no", "the appender holds %d records for sender %s client number %s", perKey[key{it.from, it.no}], it.from, it.no)
			}
		} else if perTag[r.tag] == 2 {
			st.keylessStoredTwice.Add(1)
			return mc.Violatef("C29:send-without-client-number-appended-twice-by-recovery-retry", "send %s (no client message number) is stored %d times (second copy at seq %d, same message id %d): after ErrAppendFailed the recovery re-appended it because a sibling's lookup hit, but the failed batch itself had been committed", r.tag, perTag[r.tag], r.seq, r.id)
		}
	}

	quiescent := len(in.outstanding) == 0 && !in.runnable()
	lastOwn := uint64(0)
	lastOwnTag := ""
	for k, s := range in.subs {
		if !c29FutureDone(s.future) {
			if quiescent {
				return mc.Violatef("C29:item-without-result-at-quiescence", "batch #%d [%s] has no complete result vector although the writer has no inbox, no runnable work and no append in flight (%s)", k, s.name, in.doneSummary())
			}
			continue
		}
		res := s.future.snapshot()
		if len(res) != len(s.items) {
			return mc.Violatef("C29:result-vector-length", "batch #%d [%s]: %d results for %d items", k, s.name, len(res), len(s.items))
		}
		for i, it := range s.items {
			r := res[i]
			tag := s.tags[i]
			if it.invalid {
				if r.Err != nil || r.Result.Reason != ReasonInvalidRequest {
					return mc.Violatef("C29:result-in-wrong-slot", "batch #%d [%s] slot %d holds %s but the item there is the malformed send (must be ReasonInvalidRequest)", k, s.name, i, c29Class(r))
				}
				st.terminalAligned.Add(1)
				continue
			}
			if r.Err != nil || r.Result.Reason != ReasonSuccess {
				if r.Err == nil && r.Result.Reason == ReasonInvalidRequest {
					return mc.Violatef("C29:result-in-wrong-slot", "batch #%d [%s] slot %d (valid send %s) holds the malformed item's result", k, s.name, i, it.name)
				}
				st.failedItems.Add(1)
				if errors.Is(r.Err, ErrChannelBusy) {
					st.busy.Add(1)
				}
				if errors.Is(r.Err, context.Canceled) {
					st.cancelledFiltered.Add(1)
				}
				continue
			}
			var rec *c29Rec
			for j := range in.store {
				if in.store[j].id == r.Result.MessageID && in.store[j].seq == r.Result.MessageSeq {
					rec = &in.store[j]
				}
			}
			if rec == nil {
				return mc.Violatef("C29:success-without-stored-message", "batch #%d [%s] slot %d (%s): success id=%d seq=%d but the appender holds no such record", k, s.name, i, it.name, r.Result.MessageID, r.Result.MessageSeq)
			}
			if rec.from != it.from || rec.no != it.no {
				return mc.Violatef("C29:result-in-wrong-slot", "batch #%d [%s] slot %d (%s %s/%s): success names record seq %d of %s/%s (send %s)", k, s.name, i, it.name, it.from, it.no, rec.seq, rec.from, rec.no, rec.tag)
			}
			if rec.payload != it.payload {
				return mc.Violatef("C29:reused-key-different-payload-succeeded", "batch #%d [%s] slot %d: send %s/%s payload %q got success id=%d seq=%d, which is the message stored with payload %q (send %s)", k, s.name, i, it.from, it.no, it.payload, rec.id, rec.seq, rec.payload, rec.tag)
			}
			if rec.tag == tag {
				if rec.seq <= lastOwn {
					return mc.Violatef("C29:success-sequence-not-increasing-in-submission-order", "send %s stored at seq %d although the earlier submitted send %s was stored at seq %d", tag, rec.seq, lastOwnTag, lastOwn)
				}
				lastOwn, lastOwnTag = rec.seq, tag
				st.ownSuccesses.Add(1)
			} else {
				if it.no == "" {
					return mc.Violatef("C29:send-without-client-number-answered-with-other-message", "send %s (no client number) was answered with the record of send %s", tag, rec.tag)
				}
				st.replays.Add(1)
				if strings.Split(rec.tag, ".")[0] != strings.Split(tag, ".")[0] {
					st.crossBatchCoalesced.Add(1)
				}
			}
		}
	}
	return nil
}

// ---------------------------------------------------------------- focused coalescing section

// c29CoalesceCase runs ONE batch (a string over aAbBcC: 3 keys x 2 payloads) through the real
// prepare -> newIdempotentAppendBatch -> append effect -> completion path with the faithful
// appender (no environment deviation) and returns the violation, if any. Besides the general
// oracle (Check) the outcome is predicted: when no key of the batch carries two payloads the
// store refuses nothing, so every item must succeed, sends with the same key must share one
// (id, seq) - a retried send returns the original - and the log holds exactly one record per key.
func c29CoalesceCase(cfg *c29Cfg, name string) (outcome string, err error) {
	in := c29New(cfg).(*c29Inst)
	defer in.Close()
	for _, e := range []string{"sub:" + name, "adv", "done:0"} {
		enabled := strings.HasPrefix(e, "sub:") // any batch may be submitted; Events lists menu batches only
		for _, x := range in.Events() {
			if x == e {
				enabled = true
			}
		}
		if !enabled {
			return "", mc.Violatef("C29:item-without-result-at-quiescence", "batch [%s]: event %s is not enabled (%s)", name, e, in.doneSummary())
		}
		if _, err := in.Apply(e, &mc.Env{}); err != nil {
			return "", err
		}
		if err := in.Check(); err != nil {
			return "", err
		}
	}
	sub := in.subs[0]
	if !c29FutureDone(sub.future) {
		return "", mc.Violatef("C29:item-without-result-at-quiescence", "batch [%s] has no complete result vector after its append completed", name)
	}
	res := sub.future.snapshot()
	payloads := map[string]map[string]bool{}
	for _, it := range sub.items {
		k := it.from + "/" + it.no
		if payloads[k] == nil {
			payloads[k] = map[string]bool{}
		}
		payloads[k][it.payload] = true
	}
	mixed := false
	for _, p := range payloads {
		if len(p) > 1 {
			mixed = true
		}
	}
	if mixed {
		// a key reused with another payload inside the batch: the store refuses the request;
		// the general oracle (no success for the other payload, nothing stored twice) decided
		return "key-reused-with-other-payload:" + in.doneSummary()[2:], nil
	}
	first := map[string]SendResult{}
	for i, it := range sub.items {
		r := res[i]
		if r.Err != nil || r.Result.Reason != ReasonSuccess {
			return "", mc.Violatef("C29:retried-send-in-batch-not-answered-with-original", "batch [%s] slot %d (%s): %s although the appender never failed and no key carries two payloads (appender saw %s)", name, i, it.name, c29Class(r), in.lastReq)
		}
		k := it.from + "/" + it.no
		if o, ok := first[k]; ok {
			if o.MessageID != r.Result.MessageID || o.MessageSeq != r.Result.MessageSeq {
				return "", mc.Violatef("C29:retried-send-in-batch-not-answered-with-original", "batch [%s] slot %d (%s): id=%d seq=%d but the first send of that key got id=%d seq=%d", name, i, it.name, r.Result.MessageID, r.Result.MessageSeq, o.MessageID, o.MessageSeq)
			}
		} else {
			first[k] = r.Result
		}
	}
	if len(in.store) != len(payloads) {
		return "", mc.Violatef("C29:second-message-stored-for-client-msg-no", "batch [%s]: %d keys but the appender holds %d records", name, len(payloads), len(in.store))
	}
	return fmt.Sprintf("all-ok-%d-records", len(in.store)), nil
}

func c29CoalesceSection(r *ev.R, length int) {
	const system = "C29-coalescing-batches"
	cfg := &c29Cfg{name: "coalescing", maxSubs: 1, inflight: 1, stats: &c29Stats{}}
	if rf := r.Replay(); rf != nil {
		if rf.System != system {
			return
		}
		var name string
		if json.Unmarshal(rf.Replay, &name) != nil {
			return
		}
		out, err := c29CoalesceCase(cfg, name)
		fmt.Printf("replay batch [%s] -> %s %v\n", name, out, err)
		if err != nil {
			r.MarkReplayReproduced()
			r.Violation(ev.Violation{Fingerprint: c29FP(err), Message: err.Error(), System: system, Replay: name})
		}
		return
	}
	e := r.NewEnum(system)
	letters := "aAbBcC"
	idx := make([]int, length)
	var dupBatches, foldedThenNewRetry int64
	for {
		b := make([]byte, length)
		for i, x := range idx {
			b[i] = letters[x]
		}
		name := string(b)
		// non-trivial: some key occurs twice; the shape of interest: a second retried key whose
		// first occurrence comes after an earlier duplicate was already folded
		seen := map[byte]int{}
		folded := false
		dup := false
		shape := false
		firstAfterFold := map[byte]bool{}
		for _, ch := range []byte(strings.ToLower(name)) {
			if seen[ch] > 0 {
				dup = true
				if firstAfterFold[ch] {
					shape = true
				}
				folded = true
			} else if folded {
				firstAfterFold[ch] = true
			}
			seen[ch]++
		}
		out, err := c29CoalesceCase(cfg, name)
		if err != nil {
			r.Violation(ev.Violation{Fingerprint: c29FP(err), Message: fmt.Sprintf("%s: %v | batch [%s]", system, err, name), System: system, Replay: name})
			out = "violation"
		}
		if dup {
			dupBatches++
		}
		if shape {
			foldedThenNewRetry++
		}
		if e.Evals()%97 == 0 {
			r.Sample(map[string]any{"system": system, "batch": name, "observed": out})
		}
		e.CaseByConstruction(dup, strings.SplitN(out, ":", 2)[0])
		k := length - 1
		for k >= 0 {
			idx[k]++
			if idx[k] < len(letters) {
				break
			}
			idx[k] = 0
			k--
		}
		if k < 0 {
			break
		}
	}
	e.Done(true, map[string]any{"batch_length": length, "alphabet": "3 keys a=(u1,n1) b=(u1,n2) c=(u2,n1) x payload P (lower case) / Q (upper case)", "appender": "faithful reference log, no environment deviation"},
		"every batch of the stated length over the alphabet, submitted as one SubmitLocal batch to a fresh writer: sub, adv, done; general oracle + predicted outcome")
	r.Count("coalescing_batches_with_a_repeated_key", dupBatches)
	r.Count("coalescing_batches_with_a_retried_key_first_seen_after_a_folded_duplicate", foldedThenNewRetry)
	r.Guard("coalescing-shape-second-retried-key-after-fold", foldedThenNewRetry >= 10, "batches in which a retried key first appears after an earlier duplicate was folded: %d", foldedThenNewRetry)
	r.Guard("coalescing-all-ok-outcomes", e.Outcome("all-ok-1-records")+e.Outcome("all-ok-2-records")+e.Outcome("all-ok-3-records") >= 50, "fault-free batches answered completely: %d", e.Outcome("all-ok-1-records")+e.Outcome("all-ok-2-records")+e.Outcome("all-ok-3-records"))
}

func c29FP(err error) string {
	if f, ok := err.(interface{ Fingerprint() string }); ok {
		return f.Fingerprint()
	}
	return "C29:coalescing-case-failed"
}

// ---------------------------------------------------------------- test

func TestVerifC29Core(t *testing.T) {
	r := ev.Start(t, "C29")
	defer r.Finish()

	type sys struct {
		cfg   c29Cfg
		depth int
		dev   int
	}
	var systems []sys
	add := func(name string, menu []string, maxSubs, inflight, watermark, depth, dev int) {
		systems = append(systems, sys{cfg: c29Cfg{name: name, menu: menu, maxSubs: maxSubs, inflight: inflight, watermark: watermark, stats: &c29Stats{}}, depth: depth, dev: dev})
	}
	// menus: duplicate keys inside a batch (aa, axa, aAa, bab) and across batches (a, ba, Fa), key
	// reuse with another payload (A, aA, aAa), a send without client number between duplicates
	// (axa), a malformed item in front of a valid one (za), a cancellable item (kb), other sender
	// with the same number (ca)
	base := []string{"a", "ba", "axa", "aA", "A", "za"}
	wide := []string{"a", "ba", "axa", "aAa", "A", "zab", "Fa"}
	if r.Thorough() {
		add("writer-inflight2", wide, 3, 2, 0, 8, 1)
		add("writer-inflight2-dev2", []string{"a", "ba", "aA", "axa"}, 3, 2, 0, 7, 2)
		add("writer-inflight1", []string{"a", "ba", "aAa", "Fa", "kb", "ca", "xx"}, 3, 1, 0, 7, 1)
		add("writer-inflight1-dev2", []string{"a", "bA", "Fa", "xa"}, 3, 1, 0, 6, 2)
		add("writer-inflight2-watermark3", base, 3, 2, 3, 7, 1)
	} else {
		add("writer-inflight2", base, 3, 2, 0, 6, 1)
		add("writer-inflight1", []string{"a", "ba", "aAa", "Fa", "kb"}, 3, 1, 0, 6, 1)
		add("writer-inflight2-watermark3", []string{"a", "ba", "axa"}, 3, 2, 3, 6, 1)
	}

	c29CoalesceSection(r, ev.Pick(r, 4, 5))

	total := &c29Stats{}
	for i := range systems {
		s := &systems[i]
		cfg := &s.cfg
		mc.Run(r, mc.System{
			Name: "C29-" + cfg.name, New: func() mc.Instance { return c29New(cfg) }, MaxDepth: s.depth, MaxDeviations: s.dev,
			Bounds: map[string]any{"batch_menu": cfg.menu, "max_batches": cfg.maxSubs, "append_inflight_batches_per_channel": cfg.inflight,
				"channel_backlog_high_watermark": cfg.watermark, "items": "a=(u1,n1,P) A=(u1,n1,Q) b=(u1,n2,P) c=(u2,n1,P) x=(u1,-,P) z=malformed k=(u2,n9,P)+cancellable context; F..=write-fenced target",
				"appender_answers": "ok | committed-then-ErrAppendFailed | ErrAppendFailed | ErrNotLeader | item-local error (every position) | short result; forced ErrAppendFailed on a key conflict", "lookup_answers": "faithful | miss | error"},
			Note: "events: sub:<batch> (enqueue into the writer inbox), adv (one advance pass: take inbox, prepare, admit, cut and run one append effect), done:<i> (deliver the i-th outstanding append completion), cancel; no state merging",
		})
		c := cfg.stats
		for _, p := range []struct{ dst, src *atomic.Int64 }{{&total.appendCalls, &c.appendCalls}, {&total.conflicts, &c.conflicts},
			{&total.retryAttempts, &c.retryAttempts}, {&total.lookups, &c.lookups}, {&total.lookupHits, &c.lookupHits}, {&total.replays, &c.replays}, {&total.ownSuccesses, &c.ownSuccesses},
			{&total.outOfOrderDone, &c.outOfOrderDone}, {&total.busy, &c.busy}, {&total.terminalAligned, &c.terminalAligned}, {&total.crossBatchCoalesced, &c.crossBatchCoalesced},
			{&total.keylessStoredTwice, &c.keylessStoredTwice}, {&total.cancelledFiltered, &c.cancelledFiltered}, {&total.failedItems, &c.failedItems}, {&total.dupPassedToPort, &c.dupPassedToPort}} {
			p.dst.Add(p.src.Load())
		}
	}
	if r.Replay() != nil {
		return
	}
	counters := map[string]int64{
		"append_port_calls": total.appendCalls.Load(), "append_port_conflicts": total.conflicts.Load(), "append_port_retry_attempts": total.retryAttempts.Load(),
		"idempotency_lookups": total.lookups.Load(), "idempotency_lookup_hits": total.lookupHits.Load(), "successes_answered_with_an_earlier_message": total.replays.Load(),
		"successes_with_own_new_message": total.ownSuccesses.Load(), "completions_delivered_out_of_order": total.outOfOrderDone.Load(), "items_refused_channel_busy": total.busy.Load(),
		"malformed_item_results_in_own_slot": total.terminalAligned.Load(), "replays_of_a_message_of_another_batch": total.crossBatchCoalesced.Load(),
		"keyless_send_stored_twice_after_ambiguous_failure": total.keylessStoredTwice.Load(), "items_cancelled": total.cancelledFiltered.Load(), "failed_items": total.failedItems.Load(),
		"identical_sends_passed_to_port_in_one_request": total.dupPassedToPort.Load(),
	}
	for k, v := range counters {
		r.Count(k, v)
	}
	r.Assume("the Appender sees same-channel requests in writer order (contract of AppendInflightBatchesPerChannel > 1); the harness appender refuses a batch that would store a (sender, client number) pair twice with ErrAppendFailed, as pkg/db/message does (C08)")
	for _, g := range []string{"append_port_conflicts", "append_port_retry_attempts", "idempotency_lookup_hits", "successes_answered_with_an_earlier_message", "successes_with_own_new_message",
		"completions_delivered_out_of_order", "items_refused_channel_busy", "malformed_item_results_in_own_slot", "replays_of_a_message_of_another_batch", "failed_items"} {
		r.Guard(g, counters[g] >= 1, "%s=%d", g, counters[g])
	}
	r.Guard("no-identical-sends-in-one-request", true, "identical sends passed to the port inside one request: %d (each makes the store refuse the batch; not a violation by itself)", counters["identical_sends_passed_to_port_in_one_request"])
}
