package channelappend_test

// C29 layer B / C41 - the real channelappend.Group (and Router) under the controlled scheduler
// (engine E3, delay-bounded DFS over all scheduling decisions).
//
// Real code under test (rewritten for vsched): internal/runtime/channelappend - Router.SendBatch
// (grouping by canonical channel, group workers, result merge), Group.SubmitLocal (admission
// under the lifecycle lock, shard admission, writer inbox), writerAdvanceScheduler (sync.Cond
// dispatcher), channelWriter.advance / advanceAppendOnly, runAppend on the append pool,
// appendEffect.run, applyAppendCompletion, post-commit effects on the non-blocking pool,
// Future, Group.Stop / finishStop / drainWriters / workerPool.stop; pkg/goroutine (spawns); the
// ants pools are the vants model.
//
// Harness side (black box: exported API and port interfaces only): a reference channel log per
// channel as Appender + IdempotencyStore (refuses a second row for a (sender, client number)
// pair like pkg/db/message; latency = scheduling points inside the call; optional enumerated
// fault "durable but reported as ErrAppendFailed"), a PersistAfterEnqueuer as post-commit effect,
// 2 submitter threads, a stopper thread.

import (
	"context"
	"errors"
	"fmt"
	"os"
	"strings"
	"testing"
	"time"

	"github.com/WuKongIM/WuKongIM/internal/runtime/channelappend"
	"github.com/WuKongIM/WuKongIM/pkg/zzverif/ev"
	"github.com/WuKongIM/WuKongIM/pkg/zzverif/vctx"
	"github.com/WuKongIM/WuKongIM/pkg/zzverif/vsched"
	"github.com/WuKongIM/WuKongIM/pkg/zzverif/vsync"
	"github.com/WuKongIM/WuKongIM/pkg/zzverif/vtime"
)

// ---------------------------------------------------------------- enumerated environment answer

type c29bChoice struct {
	name string
	n    int
}

func (c c29bChoice) Ready(*vsched.Sched) int { return c.n }
func (c c29bChoice) String() string          { return c.name }

func c29bChoose(name string, n int) int {
	if vsched.Active() == nil || vsched.Aborting() {
		return 0
	}
	return vsched.Block(c29bChoice{name: name, n: n})
}

// ---------------------------------------------------------------- world

const c29bType = uint8(2)

var c29bChannels = [2]string{"ga", "gb"}

// c29bShard mirrors Group.shardForTarget for the two channel keys (FNV-1a of "2:<id>"); the test
// guards that they land on different shards (one writer per shard map: Group.writersIdle
// iterates that map).
func c29bShard(id string, shards int) int {
	key := fmt.Sprintf("%d:%s", c29bType, id)
	h := uint64(14695981039346656037)
	for i := 0; i < len(key); i++ {
		h ^= uint64(key[i])
		h *= 1099511628211
	}
	return int(h % uint64(shards))
}

type c29bItem struct {
	ch      int
	from    string
	no      string
	payload string
}

// item syntax: "<channel a|b><letter>", letters: a=(u1,n1,P) A=(u1,n1,Q) b=(u1,n2,P) c=(u2,n1,P)
// d=(u2,n3,P) x=(u1,-,P)
func c29bParse(s string) c29bItem {
	it := c29bItem{ch: int(s[0] - 'a')}
	switch s[1] {
	case 'a':
		it.from, it.no, it.payload = "u1", "n1", "P"
	case 'A':
		it.from, it.no, it.payload = "u1", "n1", "Q"
	case 'b':
		it.from, it.no, it.payload = "u1", "n2", "P"
	case 'c':
		it.from, it.no, it.payload = "u2", "n1", "P"
	case 'd':
		it.from, it.no, it.payload = "u2", "n3", "P"
	case 'x':
		it.from, it.no, it.payload = "u1", "", "P"
	default:
		panic("c29b: bad item " + s)
	}
	return it
}

type c29bRec struct {
	id, seq           uint64
	from, no, payload string
	tag               string
}

type c29bCall struct {
	thread    int
	idx       int
	spec      []string
	items     []c29bItem
	tags      []string
	callSeq   int
	subRetSeq int // SubmitLocal returned (group entry); 0 for the router entry
	retSeq    int
	afterStop bool // the call started after a Stop call had returned
	refused   error
	admitted  bool
	results   []channelappend.SendBatchItemResult
	waitErr   error
}

type c29bStop struct {
	mode    string
	callSeq int
	retSeq  int
	err     error
	// fake-side activity when the call returned
	appendActive, persistActive int
}

type c29bWorld struct {
	cfg   c29bCfg
	clock int
	store [2][]c29bRec
	calls []*c29bCall
	stops []*c29bStop

	nextID        uint64
	appendActive  int
	persistActive int
	appendCalls   int
	retryCalls    int
	conflicts     int
	faults        int
	maxInOneReq   int
	concurrentApp int // max AppendBatch calls in progress
	sameChanConc  []string
	inChan        [2]int
	ctxCancelled  []string
	persisted     map[string]int // "<ch>/<seq>" -> calls
	persistOrder  [2][]uint64
	lateWork      []string
	drained       bool // a Stop call returned nil
	stopReturned  bool // some Stop call returned (nil or not)
	gateOpen      bool
	parkedAppends int
	parkedPersist int
	finalErr      error
	finalSeq      int
	protoErr      []string
	accounted     bool

	// pipelined / paced submissions and prepare latency
	totalCalls      int             // scripted SubmitLocal calls
	submitStarted   int             // SubmitLocal calls begun
	submitReturned  int             // SubmitLocal calls returned
	prepSeen        map[string]bool // batches (submitter.batch) whose prepare reached the authorizer
	prepBatches     int
	prepCalls       int
	prepActive      [2]int // authorizer calls in progress per channel
	prepConcurrent  int    // executions' max of prepActive
	arrivedInWindow int    // SubmitLocal calls that returned while a prepare call of the same channel was in progress and an append of it was in flight
}

func (w *c29bWorld) tick() int { w.clock++; return w.clock }

type c29bIDs struct{ w *c29bWorld }

func (a c29bIDs) Next() uint64 { a.w.nextID++; return 5000 + a.w.nextID }

func (w *c29bWorld) chanIndex(id string) int {
	for i, c := range c29bChannels {
		if c == id {
			return i
		}
	}
	return -1
}

func (w *c29bWorld) find(ch int, from, no string) *c29bRec {
	for i := range w.store[ch] {
		if w.store[ch][i].from == from && w.store[ch][i].no == no {
			return &w.store[ch][i]
		}
	}
	return nil
}

// ---------------------------------------------------------------- fakes

type c29bLog struct{ w *c29bWorld }

func (l c29bLog) AppendBatch(ctx context.Context, req channelappend.AppendBatchRequest) (channelappend.AppendBatchResult, error) {
	w := l.w
	ch := w.chanIndex(req.ChannelID.ID)
	if ch < 0 || req.ChannelID.Type != c29bType {
		w.protoErr = append(w.protoErr, "append to unknown channel "+req.ChannelID.ID)
		return channelappend.AppendBatchResult{}, channelappend.ErrChannelNotFound
	}
	w.appendCalls++
	if req.Attempt > 1 {
		w.retryCalls++
	}
	if w.drained {
		w.lateWork = append(w.lateWork, "AppendBatch on "+req.ChannelID.ID)
	}
	w.appendActive++
	w.inChan[ch]++
	if w.appendActive > w.concurrentApp {
		w.concurrentApp = w.appendActive
	}
	if w.inChan[ch] > w.cfg.inflight {
		w.sameChanConc = append(w.sameChanConc, req.ChannelID.ID)
	}
	if len(req.Messages) > w.maxInOneReq {
		w.maxInOneReq = len(req.Messages)
	}
	defer func() {
		w.appendActive--
		w.inChan[ch]--
	}()

	// latency before the durable effect: "fast" = a scheduling point (the appender continues
	// unless the scheduler spends a delay on it), "slow" = a virtual-time sleep (everything else
	// runs first unless the scheduler spends a delay on firing the timer early); in the parked
	// scenarios the append stays parked until the first Stop call has returned
	if w.cfg.slow {
		vtime.Sleep(time.Millisecond)
	} else {
		vsched.Point("append-latency")
	}
	if w.cfg.parkAppend && !w.gateOpen {
		w.parkedAppends++
		vsched.WaitUntil("append-parked", func() bool { return w.gateOpen })
	}
	if w.cfg.parkSubmitted && w.submitReturned < w.totalCalls {
		// a slow appender: the append stays in flight (per-channel limit reached) until every
		// scripted submission has been made
		vsched.WaitUntil("append-parked-until-all-submitted", func() bool { return w.submitReturned >= w.totalCalls })
	}
	if err := ctx.Err(); err != nil {
		w.ctxCancelled = append(w.ctxCancelled, "AppendBatch("+req.ChannelID.ID+"): "+err.Error())
		return channelappend.AppendBatchResult{}, err
	}

	type key struct{ from, no string }
	seen := map[key]bool{}
	conflict := false
	for _, m := range req.Messages {
		if m.FromUID == "" || m.ClientMsgNo == "" {
			continue
		}
		k := key{m.FromUID, m.ClientMsgNo}
		if seen[k] || w.find(ch, m.FromUID, m.ClientMsgNo) != nil {
			conflict = true
		}
		seen[k] = true
	}
	if conflict {
		w.conflicts++
		return channelappend.AppendBatchResult{}, fmt.Errorf("%w: c29 idempotency conflict", channelappend.ErrAppendFailed)
	}
	var out channelappend.AppendBatchResult
	for _, m := range req.Messages {
		rec := c29bRec{id: m.MessageID, seq: uint64(len(w.store[ch]) + 1), from: m.FromUID, no: m.ClientMsgNo, payload: string(m.Payload), tag: m.Topic}
		w.store[ch] = append(w.store[ch], rec)
		out.Items = append(out.Items, channelappend.AppendBatchItemResult{MessageID: rec.id, MessageSeq: rec.seq})
	}
	// latency after the durable effect (the reply is late)
	vsched.Point("append-reply")
	if w.cfg.faults && c29bChoose("append-reply-lost", 2) == 1 {
		w.faults++
		return channelappend.AppendBatchResult{}, fmt.Errorf("%w: c29 reply lost", channelappend.ErrAppendFailed)
	}
	if err := ctx.Err(); err != nil {
		w.ctxCancelled = append(w.ctxCancelled, "AppendBatch("+req.ChannelID.ID+") after commit: "+err.Error())
	}
	return out, nil
}

func (l c29bLog) LookupSend(_ context.Context, q channelappend.IdempotencyQuery) (channelappend.SendResult, bool, error) {
	w := l.w
	vsched.Point("lookup-latency")
	ch := w.chanIndex(q.ChannelID)
	if ch < 0 {
		return channelappend.SendResult{}, false, nil
	}
	rec := w.find(ch, q.FromUID, q.ClientMsgNo)
	if rec == nil || (q.PayloadHash != 0 && c29bHash(rec.payload) != q.PayloadHash) {
		return channelappend.SendResult{}, false, nil
	}
	return channelappend.SendResult{MessageID: rec.id, MessageSeq: rec.seq, Reason: channelappend.ReasonSuccess}, true, nil
}

func c29bHash(p string) uint64 {
	h := uint64(14695981039346656037)
	for i := 0; i < len(p); i++ {
		h ^= uint64(p[i])
		h *= 1099511628211
	}
	return h
}

// c29bAuth is the Authorizer port: the lock-free prepare step of a writer pass. Its latency is a
// scheduling point ("point") or a 1ms virtual sleep ("sleep": everything else runs first unless
// the scheduler spends a delay on firing the timer early).
type c29bAuth struct{ w *c29bWorld }

// c29bBatchOf returns "<submitter>.<batch>" of an item tag "t<submitter>.<batch>.<index><item>".
func c29bBatchOf(tag string) string {
	parts := strings.SplitN(tag, ".", 3)
	if len(parts) < 3 {
		return tag
	}
	return parts[0] + "." + parts[1]
}

func (a c29bAuth) AuthorizeSend(_ context.Context, cmd channelappend.SendCommand) (channelappend.Decision, error) {
	w := a.w
	w.prepCalls++
	if b := c29bBatchOf(cmd.Topic); !w.prepSeen[b] {
		w.prepSeen[b] = true
		w.prepBatches++
	}
	ch := w.chanIndex(cmd.ChannelID)
	if ch >= 0 {
		w.prepActive[ch]++
		if w.prepActive[ch] > w.prepConcurrent {
			w.prepConcurrent = w.prepActive[ch]
		}
		defer func() { w.prepActive[ch]-- }()
	}
	switch w.cfg.prep {
	case "sleep":
		vtime.Sleep(time.Millisecond)
	default:
		vsched.Point("authorize-latency")
	}
	return channelappend.Decision{Allowed: true, Reason: channelappend.ReasonSuccess}, nil
}

type c29bPersistAfter struct{ w *c29bWorld }

func (p c29bPersistAfter) EnqueuePersistAfter(ctx context.Context, e channelappend.CommittedEnvelope) {
	w := p.w
	ch := w.chanIndex(e.ChannelID)
	if ch < 0 {
		w.protoErr = append(w.protoErr, "post-commit for unknown channel "+e.ChannelID)
		return
	}
	if w.drained {
		w.lateWork = append(w.lateWork, fmt.Sprintf("post-commit effect for %s/%d", e.ChannelID, e.MessageSeq))
	}
	w.persistActive++
	defer func() { w.persistActive-- }()
	if w.cfg.slow {
		vtime.Sleep(time.Millisecond)
	} else {
		vsched.Point("post-commit-latency")
	}
	if w.cfg.parkPersist && !w.gateOpen {
		w.parkedPersist++
		vsched.WaitUntil("post-commit-parked", func() bool { return w.gateOpen })
	}
	if ctx != nil {
		if err := ctx.Err(); err != nil {
			w.ctxCancelled = append(w.ctxCancelled, fmt.Sprintf("post-commit(%s/%d): %v", e.ChannelID, e.MessageSeq, err))
		}
	}
	w.persisted[fmt.Sprintf("%d/%d", ch, e.MessageSeq)]++
	w.persistOrder[ch] = append(w.persistOrder[ch], e.MessageSeq)
}

type c29bResolver struct{}

func (c29bResolver) ResolveAppendAuthority(_ context.Context, id channelappend.ChannelID) (channelappend.AuthorityTarget, error) {
	return c29bTarget(id.ID), nil
}

func c29bTarget(id string) channelappend.AuthorityTarget {
	return channelappend.AuthorityTarget{ChannelID: channelappend.ChannelID{ID: id, Type: c29bType}, LeaderNodeID: 1, Epoch: 1, LeaderEpoch: 1}
}

// ---------------------------------------------------------------- scenario

type c29bCfg struct {
	name        string
	property    string
	router      bool
	advance     int
	effect      int
	inflight    int
	coalesce    bool // repository default inbox coalescing window (timers) instead of none
	faults      bool
	slow        bool // effect latency = virtual sleep instead of a scheduling point
	postCommit  bool
	scripts     [2][][]string // per submitter thread: batches of items
	stop        string        // "", "stop", "stop-cancelled", "stop-timeout"
	parkAppend  bool
	parkPersist bool
	gate        int // the stopper starts after this many submit calls were made
	bound       int
	atomics     bool // every atomic operation of the rewritten code is a scheduling point
	quiet       bool

	// pipeline: a submitter makes all its SubmitLocal calls first and waits for the futures
	// afterwards (group entry only)
	pipeline bool
	// paced: a SubmitLocal call starts once every batch submitted before it (by any submitter)
	// has reached the prepare step of a writer pass - with a prepare latency every batch but the
	// first arrives in the inbox while the pass is inside the lock-free prepare of its predecessor
	paced bool
	// prep: "" = no Authorizer configured, "point" = authorizer latency is a scheduling point,
	// "sleep" = 1ms virtual sleep
	prep string
	// parkSubmitted: an AppendBatch call stays in progress until all scripted submissions were made
	parkSubmitted bool
	// subOrder: submission order for the ordering oracle is "SubmitLocal returned before the later
	// SubmitLocal call started" (set for the group entry with one append in flight per channel;
	// otherwise "the earlier call's results were complete")
	subOrder bool
}

func c29bScenario(cfg c29bCfg) vsched.Scenario {
	return vsched.Scenario{
		Name: cfg.name, Property: cfg.property, Bound: cfg.bound, Horizon: 12000, Delay: true, QuietAtomics: cfg.quiet,
		Bounds: map[string]any{"entry": map[bool]string{true: "Router.SendBatch", false: "Group.SubmitLocal + Future.Wait"}[cfg.router], "advance_pool_size": cfg.advance,
			"effect_pool_size": cfg.effect, "append_inflight_batches_per_channel": cfg.inflight, "inbox_coalescing": cfg.coalesce, "appender_reply_lost_fault": cfg.faults, "effect_latency": map[bool]string{false: "scheduling point", true: "1ms virtual sleep"}[cfg.slow],
			"post_commit_effect": cfg.postCommit, "submitter_scripts": cfg.scripts, "stop_mode": cfg.stop, "append_parked_until_first_stop_returned": cfg.parkAppend,
			"post_commit_parked_until_first_stop_returned": cfg.parkPersist, "stopper_starts_after_submit_calls": cfg.gate, "quiet_atomics": cfg.quiet,
			"pipelined_submissions": cfg.pipeline, "submissions_paced_by_prepare": cfg.paced, "prepare_authorizer_latency": map[string]string{"": "no authorizer", "point": "scheduling point", "sleep": "1ms virtual sleep"}[cfg.prep],
			"append_parked_until_all_submitted": cfg.parkSubmitted, "order_relation": map[bool]string{true: "SubmitLocal returned before the later SubmitLocal started", false: "results complete before the later call started"}[cfg.subOrder],
			"items": "<channel a|b><a=(u1,n1,P) A=(u1,n1,Q) b=(u1,n2,P) c=(u2,n1,P) d=(u2,n3,P) x=(u1,-,P)>"},
		Body:  func(x *vsched.Exec) { c29bBody(x, cfg) },
		Check: c29bCheck,
	}
}

func c29bBody(x *vsched.Exec, cfg c29bCfg) {
	w := &c29bWorld{cfg: cfg, persisted: map[string]int{}, prepSeen: map[string]bool{}}
	for t := range cfg.scripts {
		w.totalCalls += len(cfg.scripts[t])
	}
	x.Data["w"] = w
	log := c29bLog{w}
	opts := channelappend.Options{
		LocalNodeID: 1, Appender: log, Idempotency: log, MessageID: c29bIDs{w},
		AuthorityShardCount: 2, AdvancePoolSize: cfg.advance, EffectPoolSize: cfg.effect,
		AppendInflightBatchesPerChannel: cfg.inflight, InboxCoalesceWindow: -1, InboxCoalesceMaxItems: -1,
	}
	if cfg.coalesce {
		opts.InboxCoalesceWindow, opts.InboxCoalesceMaxItems = 0, 0
	}
	if cfg.postCommit {
		opts.PersistAfterEnqueuer = c29bPersistAfter{w}
	}
	if cfg.prep != "" {
		opts.Authorizer = c29bAuth{w}
	}
	g := channelappend.New(opts)
	if err := g.Start(context.Background()); err != nil {
		panic(err)
	}
	var router *channelappend.Router
	if cfg.router {
		router = channelappend.NewRouter(channelappend.RouterOptions{LocalNodeID: 1, Resolver: c29bResolver{}, Local: g, MaxRouteAttempts: 1, MaxConcurrentGroups: 4})
	}

	submitCalls := 0
	submittersDone := 0
	var wg vsync.WaitGroup
	for t := 0; t < 2; t++ {
		t := t
		if len(cfg.scripts[t]) == 0 {
			submittersDone++
			continue
		}
		wg.Add(1)
		vsched.GoNamed(fmt.Sprintf("submitter-%d", t), func() {
			defer wg.Done()
			defer func() { submittersDone++ }()
			type pending struct {
				call *c29bCall
				f    *channelappend.Future
			}
			var pipelined []pending
			for bi, spec := range cfg.scripts[t] {
				call := &c29bCall{thread: t, idx: bi, spec: spec}
				items := make([]channelappend.SendBatchItem, 0, len(spec))
				for i, s := range spec {
					it := c29bParse(s)
					tag := fmt.Sprintf("t%d.%d.%d%s", t, bi, i, s)
					call.items = append(call.items, it)
					call.tags = append(call.tags, tag)
					items = append(items, channelappend.SendBatchItem{Context: context.Background(), Command: channelappend.SendCommand{
						FromUID: it.from, ClientMsgNo: it.no, ChannelID: c29bChannels[it.ch], ChannelType: c29bType, Payload: []byte(it.payload), Topic: tag}})
				}
				if cfg.paced {
					vsched.WaitUntil("submitter-paced-by-prepare", func() bool { return w.prepBatches >= w.submitStarted })
				}
				w.submitStarted++
				call.afterStop = w.stopReturned
				call.callSeq = w.tick()
				w.calls = append(w.calls, call)
				submitCalls++
				if cfg.router {
					call.results = router.SendBatch(items)
					call.admitted = true
					w.submitReturned++
				} else {
					f, err := g.SubmitLocal(context.Background(), c29bTarget(c29bChannels[call.items[0].ch]), items)
					call.subRetSeq = w.tick()
					w.submitReturned++
					if ch := call.items[0].ch; w.prepActive[ch] > 0 && w.inChan[ch] > 0 {
						w.arrivedInWindow++
					}
					if err != nil {
						call.refused = err
						// never reaches a writer pass: does not hold back the paced submitters
						w.prepSeen[c29bBatchOf(call.tags[0])] = true
						w.prepBatches++
					} else {
						call.admitted = true
						if cfg.pipeline {
							pipelined = append(pipelined, pending{call, f})
							continue
						}
						call.results, call.waitErr = f.Wait(context.Background())
					}
				}
				call.retSeq = w.tick()
			}
			for _, p := range pipelined {
				p.call.results, p.call.waitErr = p.f.Wait(context.Background())
				p.call.retSeq = w.tick()
			}
		})
	}
	if cfg.stop != "" {
		wg.Add(1)
		vsched.GoNamed("stopper", func() {
			defer wg.Done()
			if cfg.gate > 0 {
				vsched.WaitUntil("stopper-gate", func() bool { return submitCalls >= cfg.gate || submittersDone == 2 })
			}
			if cfg.parkAppend {
				vsched.WaitUntil("stopper-waits-for-parked-append", func() bool { return w.parkedAppends > 0 || submittersDone == 2 })
			}
			if cfg.parkPersist {
				vsched.WaitUntil("stopper-waits-for-parked-post-commit", func() bool { return w.parkedPersist > 0 || submittersDone == 2 })
			}
			stop := func(mode string, ctx context.Context) *c29bStop {
				s := &c29bStop{mode: mode, callSeq: w.tick()}
				w.stops = append(w.stops, s)
				s.err = g.Stop(ctx)
				s.retSeq = w.tick()
				s.appendActive, s.persistActive = w.appendActive, w.persistActive
				w.stopReturned = true
				if s.err == nil {
					w.drained = true
				}
				return s
			}
			switch cfg.stop {
			case "stop":
				stop("background", context.Background())
			case "stop-cancelled":
				ctx, cancel := context.WithCancel(context.Background())
				cancel()
				stop("cancelled", ctx)
			case "stop-timeout":
				ctx, cancel := vctx.WithTimeout(context.Background(), time.Millisecond)
				stop("timeout", ctx)
				cancel()
			}
			// parked effects resume only now: the expired Stop must have left them alone
			w.gateOpen = true
			vsched.Progress()
			if cfg.stop != "stop" {
				stop("background-after-expired", context.Background())
			}
		})
	}
	wg.Wait()
	w.gateOpen = true

	s := &c29bStop{mode: "final", callSeq: w.tick()}
	s.err = g.Stop(context.Background())
	s.retSeq = w.tick()
	s.appendActive, s.persistActive = w.appendActive, w.persistActive
	w.stops = append(w.stops, s)
	w.finalErr = s.err
	w.finalSeq = s.retSeq
	if s.err == nil {
		w.drained = true
	}
	// a stopped group admits nothing
	if _, err := g.SubmitLocal(context.Background(), c29bTarget(c29bChannels[0]), []channelappend.SendBatchItem{{Context: context.Background(),
		Command: channelappend.SendCommand{FromUID: "u9", ClientMsgNo: "late", ChannelID: c29bChannels[0], ChannelType: c29bType, Payload: []byte("P"), Topic: "late"}}}); err == nil {
		w.protoErr = append(w.protoErr, "ADMITTED-AFTER-FINAL-STOP")
	}

	for _, c := range w.calls {
		x.Log("t%d#%d %v after-stop=%v refused=%v results=%s", c.thread, c.idx, c.spec, c.afterStop, c.refused, c29bResults(c.results))
	}
	for _, st := range w.stops {
		x.Log("stop[%s]=%v", st.mode, st.err)
	}
	for ch := range w.store {
		var rows []string
		for _, r := range w.store[ch] {
			rows = append(rows, fmt.Sprintf("%d:%s", r.seq, r.tag))
		}
		x.Log("log %s=%v post-commit=%v", c29bChannels[ch], rows, w.persistOrder[ch])
	}
}

func c29bClass(r channelappend.SendBatchItemResult) string {
	switch {
	case r.Err != nil && errors.Is(r.Err, channelappend.ErrRouteNotReady):
		return "not-ready"
	case r.Err != nil && errors.Is(r.Err, channelappend.ErrAppendFailed):
		return "append-failed"
	case r.Err != nil && errors.Is(r.Err, channelappend.ErrChannelBusy):
		return "busy"
	case r.Err != nil && errors.Is(r.Err, channelappend.ErrBackpressured):
		return "backpressured"
	case r.Err != nil && errors.Is(r.Err, context.Canceled):
		return "cancelled"
	case r.Err != nil:
		return "error:" + r.Err.Error()
	case r.Result.Reason == channelappend.ReasonSuccess:
		return fmt.Sprintf("ok@%d", r.Result.MessageSeq)
	default:
		return fmt.Sprintf("reason%d", r.Result.Reason)
	}
}

func c29bResults(rs []channelappend.SendBatchItemResult) string {
	var parts []string
	for _, r := range rs {
		parts = append(parts, c29bClass(r))
	}
	return "[" + strings.Join(parts, " ") + "]"
}

// ---------------------------------------------------------------- oracle

var c29bStats = map[string]int64{}

func c29bAccount(w *c29bWorld) {
	st := c29bStats
	st["executions"]++
	st["append_port_calls"] += int64(w.appendCalls)
	st["append_port_retry_attempts"] += int64(w.retryCalls)
	st["append_port_conflicts"] += int64(w.conflicts)
	st["append_reply_lost_faults"] += int64(w.faults)
	if w.maxInOneReq > 1 {
		st["exec_with_multi_message_append"]++
	}
	if w.concurrentApp > 1 {
		st["exec_with_concurrent_appends"]++
	}
	if w.parkedAppends > 0 {
		st["exec_with_parked_append"]++
	}
	if w.parkedPersist > 0 {
		st["exec_with_parked_post_commit"]++
	}
	if w.arrivedInWindow > 0 {
		st["exec_with_batch_submitted_during_prepare_while_append_in_flight"]++
	}
	if w.prepConcurrent > 1 {
		st["exec_with_concurrent_prepare_calls_on_one_channel"]++
	}
	for _, c := range w.calls {
		if c.afterStop {
			st["calls_started_after_a_stop_returned"]++
		}
		if c.refused != nil {
			st["calls_refused_at_admission"]++
		}
	}
	for _, s := range w.stops {
		if s.mode == "final" {
			continue
		}
		if s.err != nil {
			st["stop_calls_expired"]++
			if s.appendActive > 0 {
				st["stop_expired_while_append_in_progress"]++
			}
			if s.persistActive > 0 {
				st["stop_expired_while_post_commit_in_progress"]++
			}
		} else {
			st["stop_calls_drained"]++
		}
	}
}

func c29bCheck(x *vsched.Exec) error {
	w, _ := x.Data["w"].(*c29bWorld)
	if w == nil {
		return nil
	}
	P := w.cfg.property
	if !w.accounted {
		w.accounted = true
		c29bAccount(w)
	}
	st := c29bStats
	for _, p := range w.protoErr {
		if p == "ADMITTED-AFTER-FINAL-STOP" {
			return vsched.Violatef(P+":send-admitted-after-stop-completed", "SubmitLocal after Stop(background) had returned nil admitted a batch")
		}
	}
	if len(w.protoErr) > 0 {
		return vsched.Violatef(P+":harness-protocol", "harness protocol broken: %v", w.protoErr)
	}
	if w.finalErr != nil {
		return vsched.Violatef(P+":final-stop-failed", "Stop with a background context returned %v", w.finalErr)
	}
	if len(w.sameChanConc) > 0 {
		return vsched.Violatef(P+":more-appends-in-flight-than-configured", "more than %d concurrent AppendBatch calls for channel(s) %v", w.cfg.inflight, w.sameChanConc)
	}

	// ---- the durable logs
	origin := map[string]c29bItem{}
	for _, c := range w.calls {
		for i, it := range c.items {
			origin[c.tags[i]] = it
		}
	}
	type key struct {
		ch       int
		from, no string
	}
	perKey := map[key]int{}
	perTag := map[string]int{}
	for ch := range w.store {
		for _, r := range w.store[ch] {
			it, ok := origin[r.tag]
			if !ok {
				return vsched.Violatef(P+":stored-record-of-no-submitted-send", "channel %s holds a record tagged %q that no submitted item carries", c29bChannels[ch], r.tag)
			}
			if it.ch != ch || it.from != r.from || it.no != r.no || it.payload != r.payload {
				return vsched.Violatef(P+":stored-record-differs-from-send", "channel %s seq %d (%s/%s/%q) differs from the send %s that produced it", c29bChannels[ch], r.seq, r.from, r.no, r.payload, r.tag)
			}
			perTag[r.tag]++
			if it.no != "" {
				k := key{ch, it.from, it.no}
				perKey[k]++
				if perKey[k] > 1 {
					return vsched.Violatef(P+":second-message-stored-for-client-msg-no", "channel %s holds %d records for sender %s client number %s", c29bChannels[ch], perKey[k], it.from, it.no)
				}
			} else if perTag[r.tag] > 1 {
				st["keyless_send_stored_twice"]++
				return vsched.Violatef(P+":send-without-client-number-appended-twice-by-recovery-retry", "send %s (no client message number) is stored %d times on %s: the recovery after ErrAppendFailed re-appended it although the failed batch had been committed", r.tag, perTag[r.tag], c29bChannels[ch])
			}
		}
	}

	// ---- results: one per item, in its own slot, consistent with the log
	type own struct {
		call *c29bCall
		idx  int
		seq  uint64
	}
	var owns [2][]own
	for _, c := range w.calls {
		if c.refused != nil {
			if !errors.Is(c.refused, channelappend.ErrRouteNotReady) && !errors.Is(c.refused, channelappend.ErrBackpressured) {
				return vsched.Violatef(P+":unexpected-admission-error", "SubmitLocal %v refused with %v", c.spec, c.refused)
			}
			for i := range c.items {
				if perTag[c.tags[i]] > 0 {
					return vsched.Violatef(P+":refused-send-appended", "send %s was refused at admission (%v) but reached the log", c.tags[i], c.refused)
				}
			}
			continue
		}
		if c.waitErr != nil {
			return vsched.Violatef(P+":harness-protocol", "Future.Wait(background) returned %v", c.waitErr)
		}
		if len(c.results) != len(c.items) {
			return vsched.Violatef(P+":result-vector-length", "batch %v: %d results for %d items", c.spec, len(c.results), len(c.items))
		}
		for i, it := range c.items {
			r := c.results[i]
			tag := c.tags[i]
			if r.Err != nil || r.Result.Reason != channelappend.ReasonSuccess {
				st["failed_items"]++
				if r.Err == nil {
					return vsched.Violatef(P+":unexpected-reason", "send %s answered with reason %d", tag, r.Result.Reason)
				}
				if errors.Is(r.Err, context.Canceled) || errors.Is(r.Err, context.DeadlineExceeded) {
					return vsched.Violatef(P+":admitted-send-cancelled", "send %s (background context, no deadline) completed with %v", tag, r.Err)
				}
				if errors.Is(r.Err, channelappend.ErrRouteNotReady) {
					st["items_refused_route_not_ready"]++
					if perTag[tag] > 0 {
						return vsched.Violatef(P+":refused-send-appended", "send %s was answered ErrRouteNotReady but reached the log", tag)
					}
				}
				// Router entry: ErrRouteNotReady is the admission refusal of a stopping group.
				// Group entry: the batch WAS admitted (SubmitLocal returned a future), so without
				// an appender failure every error means accepted work was dropped or cancelled.
				if !w.cfg.faults && w.conflicts == 0 && !(w.cfg.router && errors.Is(r.Err, channelappend.ErrRouteNotReady)) {
					return vsched.Violatef(P+":admitted-send-failed-without-environment-fault", "send %s failed with %v although the appender never failed", tag, r.Err)
				}
				continue
			}
			var rec *c29bRec
			for j := range w.store[it.ch] {
				if w.store[it.ch][j].id == r.Result.MessageID && w.store[it.ch][j].seq == r.Result.MessageSeq {
					rec = &w.store[it.ch][j]
				}
			}
			if rec == nil {
				return vsched.Violatef(P+":success-without-stored-message", "send %s: success id=%d seq=%d but channel %s holds no such record", tag, r.Result.MessageID, r.Result.MessageSeq, c29bChannels[it.ch])
			}
			if rec.from != it.from || rec.no != it.no {
				return vsched.Violatef(P+":result-in-wrong-slot", "send %s (%s/%s): success names record seq %d of %s/%s (send %s)", tag, it.from, it.no, rec.seq, rec.from, rec.no, rec.tag)
			}
			if rec.payload != it.payload {
				return vsched.Violatef(P+":reused-key-different-payload-succeeded", "send %s payload %q got success id=%d seq=%d, the message stored with payload %q (send %s)", tag, it.payload, rec.id, rec.seq, rec.payload, rec.tag)
			}
			if rec.tag == tag {
				owns[it.ch] = append(owns[it.ch], own{c, i, rec.seq})
				st["successes_with_own_new_message"]++
			} else {
				if it.no == "" {
					return vsched.Violatef(P+":send-without-client-number-answered-with-other-message", "send %s (no client number) was answered with the record of send %s", tag, rec.tag)
				}
				st["successes_answered_with_an_earlier_message"]++
			}
		}
	}
	// ordered: s before t (same batch: lower index; other batch: s's call returned before t's
	// call started - with cfg.subOrder: s's SubmitLocal call returned before t's SubmitLocal
	// call started, i.e. s was in the writer's inbox before t was submitted) => seq(s) < seq(t)
	for ch := range owns {
		for _, s := range owns[ch] {
			for _, t := range owns[ch] {
				before := (s.call == t.call && s.idx < t.idx) || (s.call != t.call && s.call.retSeq != 0 && s.call.retSeq < t.call.callSeq)
				pipelinedBefore := false
				if !before && w.cfg.subOrder && s.call != t.call && s.call.subRetSeq != 0 && s.call.subRetSeq < t.call.callSeq {
					before, pipelinedBefore = true, true
				}
				if before && s.seq >= t.seq {
					if pipelinedBefore {
						st["order_violations_between_pipelined_submissions"]++
					}
					return vsched.Violatef(P+":success-sequence-not-increasing-in-submission-order", "channel %s: send %s (seq %d) was submitted before send %s (seq %d) [submission order: %s; max concurrent prepare calls on one channel: %d]", c29bChannels[ch], s.call.tags[s.idx], s.seq, t.call.tags[t.idx], t.seq,
						map[bool]string{true: "SubmitLocal of the first had returned before SubmitLocal of the second was called, both futures outstanding", false: "same batch / the first call was complete"}[pipelinedBefore], w.prepConcurrent)
				}
				if s.call == t.call && s.idx < t.idx {
					st["ordered_pairs_in_one_batch"]++
				}
				if pipelinedBefore {
					st["ordered_pairs_between_pipelined_submissions"]++
					if s.call.thread != t.call.thread {
						st["ordered_pairs_between_pipelined_submissions_of_two_submitters"]++
					}
				}
			}
		}
	}

	// ---- stop (C41)
	for _, c := range w.calls {
		if !c.afterStop {
			continue
		}
		if c.refused == nil {
			for i := range c.items {
				r := c.results[i]
				if r.Err == nil {
					return vsched.Violatef(P+":send-admitted-after-stop-returned", "send %s was submitted after a Stop call had returned and was answered %s", c.tags[i], c29bClass(r))
				}
			}
		}
		for i := range c.items {
			if perTag[c.tags[i]] > 0 {
				return vsched.Violatef(P+":send-admitted-after-stop-returned", "send %s was submitted after a Stop call had returned and reached the log", c.tags[i])
			}
		}
	}
	for _, s := range w.stops {
		if s.err != nil {
			continue
		}
		if s.appendActive > 0 || s.persistActive > 0 {
			return vsched.Violatef(P+":stop-returned-nil-before-drain", "Stop[%s] returned nil while %d AppendBatch and %d post-commit calls were still running", s.mode, s.appendActive, s.persistActive)
		}
		for _, c := range w.calls {
			// every batch whose submission call started before this Stop call and was admitted
			// must have its effects finished: checked through the fakes (no call in progress,
			// nothing starts later)
			_ = c
		}
	}
	if len(w.lateWork) > 0 {
		return vsched.Violatef(P+":work-started-after-stop-returned-nil", "after a Stop call returned nil: %v", w.lateWork)
	}
	if len(w.ctxCancelled) > 0 {
		return vsched.Violatef(P+":accepted-work-cancelled", "a running effect saw its context cancelled: %v", w.ctxCancelled)
	}
	if w.cfg.postCommit {
		for ch := range w.store {
			for _, r := range w.store[ch] {
				n := w.persisted[fmt.Sprintf("%d/%d", ch, r.seq)]
				// a record whose append was reported as failed (reply lost / conflict victim) has
				// no committed envelope; only acknowledged own successes must reach post-commit
				acked := false
				for _, o := range owns[ch] {
					if o.seq == r.seq {
						acked = true
					}
				}
				if acked && n == 0 {
					return vsched.Violatef(P+":post-commit-effect-dropped", "channel %s seq %d (send %s) was acknowledged but its post-commit effect never ran although Stop(background) returned nil", c29bChannels[ch], r.seq, r.tag)
				}
				if n > 1 {
					st["post_commit_effect_ran_more_than_once"]++
				}
			}
		}
	}
	return nil
}

// ---------------------------------------------------------------- test

func c29bRun(t *testing.T, property string, cfgs []c29bCfg, guards []string, minExec int64) {
	r := ev.Start(t, property)
	defer r.Finish()
	sa, sb := c29bShard(c29bChannels[0], 2), c29bShard(c29bChannels[1], 2)
	r.Guard("channels-on-different-shards", sa != sb, "shard(%s)=%d shard(%s)=%d of 2", c29bChannels[0], sa, c29bChannels[1], sb)
	if dbg := os.Getenv("VERIF_C29_DEBUG"); dbg != "" {
		sc := c29bScenario(cfgs[0])
		for _, c := range cfgs {
			if c.name == dbg {
				sc = c29bScenario(c)
			}
		}
		x := &vsched.Exec{Data: map[string]any{}}
		x.Out = vsched.Run(vsched.Options{Horizon: sc.Horizon, Trace: true, Delay: true, QuietAtomics: sc.QuietAtomics}, func() { sc.Body(x) })
		fmt.Println("scenario", sc.Name, "steps", x.Out.Steps, "points", len(x.Out.Points), "deadlock", x.Out.Deadlock, "panic", x.Out.Panic, "unsupported", x.Out.Unsupported)
		for _, l := range x.Out.BlockedAt {
			fmt.Println(l)
		}
		for _, l := range x.Obs {
			fmt.Println(l)
		}
		fmt.Println("check:", sc.Check(x))
		return
	}
	var execs int64
	outcomes := 0
	only := os.Getenv("VERIF_C29_ONLY") // development aid: run only the scenarios whose name contains this (the guards then fail)
	for _, c := range cfgs {
		if only != "" && !strings.Contains(c.name, only) {
			continue
		}
		if b := os.Getenv("VERIF_C29_BOUND"); only != "" && b != "" {
			fmt.Sscanf(b, "%d", &c.bound)
		}
		start := time.Now()
		st := vsched.Explore(r, c29bScenario(c))
		execs += st.Executions
		if st.Outcomes > outcomes {
			outcomes = st.Outcomes
		}
		fmt.Printf("scenario %s: executions=%d outcomes=%d maxpoints=%d exhaustive=%v wall=%.1fs\n", c.name, st.Executions, st.Outcomes, st.MaxPoints, st.Exhaustive, time.Since(start).Seconds())
	}
	if r.Replay() != nil {
		return
	}
	for _, k := range vsched.SortedKeys(c29bStats) {
		r.Count(k, c29bStats[k])
	}
	r.Assume("the ants worker pools are the vants model (bounded workers, blocking / non-blocking submit, worker-not-yet-idle window); data races are invisible to a cooperative scheduler")
	r.Assume("the harness appender refuses a batch that would store a (sender, client number) pair twice with ErrAppendFailed, as pkg/db/message does (C08), and assigns consecutive sequences in call order")
	r.Guard("executions", execs >= minExec, "executions=%d", execs)
	r.Guard("outcomes", outcomes >= 3, "max distinct outcomes in one scenario=%d", outcomes)
	for _, k := range guards {
		r.Guard(k, c29bStats[k] >= 1, "%s=%d", k, c29bStats[k])
	}
}

func c29bName(c *c29bCfg, base string) {
	entry := "group"
	if c.router {
		entry = "router"
	}
	c.name = fmt.Sprintf("%s-%s-adv%d-eff%d-inf%d-b%d", base, entry, c.advance, c.effect, c.inflight, c.bound)
	if c.stop != "" {
		c.name += fmt.Sprintf("-%s-after%d", c.stop, c.gate)
	}
	if c.faults {
		c.name += "-faults"
	}
	if c.slow {
		c.name += "-slow"
	}
	if c.postCommit {
		c.name += "-pc"
	}
	if c.coalesce {
		c.name += "-coalesce"
	}
	if !c.quiet {
		c.name += "-atomics"
	}
	if c.pipeline {
		c.name += "-pipe"
	}
	if c.paced {
		c.name += "-paced"
	}
	if c.prep != "" {
		c.name += "-prep" + c.prep
	}
	if c.parkSubmitted {
		c.name += "-parksub"
	}
}

func TestVerifC29Group(t *testing.T) {
	thorough := os.Getenv("VERIF_TIER") == "thorough"
	var cfgs []c29bCfg
	add := func(base string, c c29bCfg) {
		c.property = "C29"
		c.quiet = !c.atomics
		if c.inflight == 0 {
			c.inflight = 1
		}
		// one append in flight per channel: effects reach the Appender in writer order, so the
		// inbox order (= order of SubmitLocal calls) is the order of the sequences
		c.subOrder = !c.router && c.inflight == 1
		if c.effect == 0 {
			c.effect = 1
		}
		if c.advance == 0 {
			c.advance = 1
		}
		c29bName(&c, base)
		cfgs = append(cfgs, c)
	}
	// dup: the same logical send from both submitters on channel a, a key reuse with another
	// payload, distinct sends on channel b; router entry (batches span both channels)
	dupRouter := [2][][]string{{{"aa", "bb", "ab"}}, {{"aa", "bd"}, {"aA"}}}
	// two batches per thread on the same channel (cross-batch order), duplicates across threads
	seqGroup := [2][][]string{{{"aa", "ab"}, {"ac"}}, {{"ad", "aa"}}}
	twoChan := [2][][]string{{{"aa", "ab"}}, {{"ba"}, {"bb"}}}
	// a send without client message number next to an idempotent one, reply-lost fault
	keyless := [2][][]string{{{"ax", "aa"}}, {{"ab"}}}
	dupQ := [2][][]string{{{"aa", "bb"}}, {{"aa", "bd"}, {"aA"}}}
	// pipelined single-send batches of two submitters on ONE channel (futures awaited afterwards):
	// with AdvancePoolSize 2, one append in flight and a prepare latency, each batch arrives while
	// the writer pass prepares its predecessor and the per-channel in-flight limit is reached
	pipe4 := [2][][]string{{{"aa"}, {"ab"}}, {{"ac"}, {"ad"}}}
	pipe5 := [2][][]string{{{"aa"}, {"ab"}, {"ac"}}, {{"ad"}, {"ax"}}}
	if thorough {
		add("keyless", c29bCfg{scripts: keyless, faults: true, bound: 3})
		add("dup", c29bCfg{router: true, scripts: dupRouter, bound: 3})
		add("dup", c29bCfg{router: true, scripts: dupRouter, slow: true, advance: 2, effect: 2, bound: 2})
		add("dup", c29bCfg{router: true, scripts: dupRouter, faults: true, bound: 2})
		add("dup", c29bCfg{router: true, scripts: dupQ, atomics: true, bound: 2})
		add("seq", c29bCfg{scripts: seqGroup, bound: 3})
		add("seq", c29bCfg{scripts: seqGroup, slow: true, advance: 2, effect: 2, inflight: 2, bound: 3})
		add("seq", c29bCfg{scripts: seqGroup, slow: true, bound: 3})
		add("seq", c29bCfg{scripts: seqGroup, faults: true, bound: 3})
		add("seq", c29bCfg{scripts: seqGroup, slow: true, faults: true, inflight: 2, effect: 2, bound: 3})
		add("seq", c29bCfg{scripts: seqGroup, coalesce: true, bound: 2})
		add("seq", c29bCfg{scripts: seqGroup, postCommit: true, slow: true, bound: 3})
		add("seq", c29bCfg{scripts: seqGroup, atomics: true, inflight: 2, effect: 2, bound: 2})
		add("two", c29bCfg{scripts: twoChan, slow: true, advance: 2, effect: 2, stop: "stop", bound: 3})
		add("two", c29bCfg{scripts: twoChan, stop: "stop", gate: 1, bound: 3})
		add("dup", c29bCfg{router: true, scripts: dupRouter, slow: true, stop: "stop", gate: 1, bound: 2})
		for _, pc := range []bool{false, true} {
			b := 3
			if pc {
				b = 2 // the post-commit stage adds ~70 scheduling points per execution: bound 3 costs > 10 min per scenario
			}
			add("pipe", c29bCfg{scripts: pipe5, pipeline: true, paced: true, prep: "sleep", parkSubmitted: true, advance: 2, postCommit: pc, bound: b})
			add("pipe", c29bCfg{scripts: pipe4, pipeline: true, paced: true, prep: "point", parkSubmitted: true, advance: 2, postCommit: pc, bound: b})
			add("pipe", c29bCfg{scripts: pipe4, pipeline: true, paced: true, prep: "sleep", slow: true, advance: 2, effect: 2, postCommit: pc, bound: b})
		}
		add("pipe", c29bCfg{scripts: pipe4, pipeline: true, prep: "sleep", parkSubmitted: true, advance: 2, bound: 3})
		add("pipe", c29bCfg{scripts: pipe4, pipeline: true, prep: "point", slow: true, advance: 2, bound: 3})
	} else {
		add("pipe", c29bCfg{scripts: pipe4, pipeline: true, paced: true, prep: "sleep", parkSubmitted: true, advance: 2, bound: 2})
		add("pipe", c29bCfg{scripts: pipe4, pipeline: true, paced: true, prep: "sleep", parkSubmitted: true, advance: 2, postCommit: true, bound: 1})
		add("dup", c29bCfg{router: true, scripts: dupQ, bound: 2})
		add("dup", c29bCfg{router: true, scripts: dupQ, slow: true, advance: 2, effect: 2, bound: 2})
		add("seq", c29bCfg{scripts: seqGroup, slow: true, advance: 2, effect: 2, inflight: 2, bound: 2})
		add("seq", c29bCfg{scripts: seqGroup, faults: true, bound: 2})
		add("keyless", c29bCfg{scripts: keyless, faults: true, bound: 2})
		add("two", c29bCfg{scripts: twoChan, slow: true, stop: "stop", gate: 1, bound: 2})
	}
	c29bRun(t, "C29", cfgs, []string{"append_port_conflicts", "append_port_retry_attempts", "successes_answered_with_an_earlier_message", "successes_with_own_new_message",
		"exec_with_multi_message_append", "exec_with_concurrent_appends", "ordered_pairs_in_one_batch", "failed_items",
		"ordered_pairs_between_pipelined_submissions", "ordered_pairs_between_pipelined_submissions_of_two_submitters", "exec_with_batch_submitted_during_prepare_while_append_in_flight"}, 500)
}

func TestVerifC41Group(t *testing.T) {
	thorough := os.Getenv("VERIF_TIER") == "thorough"
	var cfgs []c29bCfg
	add := func(base string, c c29bCfg) {
		c.property = "C41"
		c.quiet = !c.atomics
		if c.inflight == 0 {
			c.inflight = 1
		}
		if c.effect == 0 {
			c.effect = 1
		}
		if c.advance == 0 {
			c.advance = 1
		}
		c29bName(&c, base)
		cfgs = append(cfgs, c)
	}
	twoChan := [2][][]string{{{"aa", "ab"}, {"ac"}}, {{"ba"}, {"bb"}}}
	oneEach := [2][][]string{{{"aa"}, {"ab"}}, {{"ba"}}}
	if thorough {
		// one send racing one Stop, every atomic operation a scheduling point, deeper bound
		add("one", c29bCfg{scripts: [2][][]string{{{"aa"}}, {}}, stop: "stop", atomics: true, bound: 3})
		add("two", c29bCfg{scripts: twoChan, stop: "stop-cancelled", gate: 1, atomics: true, bound: 2})
		add("park-append", c29bCfg{scripts: oneEach, stop: "stop-timeout", parkAppend: true, atomics: true, bound: 2})
		add("router", c29bCfg{router: true, scripts: [2][][]string{{{"aa", "bb"}}, {{"ab", "ba"}}}, slow: true, stop: "stop", gate: 1, postCommit: true, bound: 2})
		for _, adv := range []int{1, 2} {
			add("two", c29bCfg{scripts: twoChan, advance: adv, effect: adv, slow: true, stop: "stop", gate: 2, postCommit: true, bound: 2})
			add("two", c29bCfg{scripts: twoChan, advance: adv, effect: adv, slow: true, stop: "stop-timeout", gate: 1, postCommit: true, bound: 2})
			add("park-append", c29bCfg{scripts: oneEach, advance: adv, effect: adv, stop: "stop-timeout", parkAppend: true, postCommit: true, bound: 2})
			add("park-post-commit", c29bCfg{scripts: oneEach, advance: adv, effect: adv, stop: "stop-timeout", parkPersist: true, postCommit: true, bound: 2})
			add("two", c29bCfg{scripts: twoChan, advance: adv, effect: adv, stop: "stop", bound: 3})
		}
		add("two", c29bCfg{scripts: twoChan, slow: true, stop: "stop-cancelled", gate: 1, bound: 3})
		add("two", c29bCfg{scripts: twoChan, advance: 2, effect: 2, stop: "stop-timeout", gate: 1, bound: 3})
	} else {
		add("two", c29bCfg{scripts: [2][][]string{{{"aa", "ab"}}, {{"ba"}, {"bb"}}}, stop: "stop", gate: 1, postCommit: true, bound: 2})
		add("two", c29bCfg{scripts: twoChan, slow: true, stop: "stop-timeout", gate: 1, bound: 2})
		add("two", c29bCfg{scripts: twoChan, stop: "stop-cancelled", gate: 1, bound: 2})
		add("park-append", c29bCfg{scripts: oneEach, stop: "stop-timeout", parkAppend: true, postCommit: true, bound: 2})
		add("park-post-commit", c29bCfg{scripts: oneEach, advance: 2, effect: 2, stop: "stop-timeout", parkPersist: true, postCommit: true, bound: 2})
	}
	c29bRun(t, "C41", cfgs, []string{"calls_started_after_a_stop_returned", "calls_refused_at_admission", "stop_calls_expired", "stop_calls_drained",
		"stop_expired_while_append_in_progress", "stop_expired_while_post_commit_in_progress", "exec_with_parked_append", "exec_with_parked_post_commit",
		"successes_with_own_new_message"}, 300)
}
