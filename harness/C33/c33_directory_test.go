package presence_test

// C33: presence routing is fenced by slot authority.
//
// Black-box explicit-state exploration of the real presence.Directory (time is an argument
// of its API) against a boring reference model: per hash slot the installed authority
// identity, the active route map, pending conflict candidates, owner-sequence fences and
// unregister tombstones.

import (
	"errors"
	"fmt"
	"sort"
	"strings"
	"sync"
	"sync/atomic"
	"testing"
	"time"

	"github.com/WuKongIM/WuKongIM/internal/runtime/presence"
	"github.com/WuKongIM/WuKongIM/pkg/zzverif/ev"
	"github.com/WuKongIM/WuKongIM/pkg/zzverif/mc"
)

// ---------------------------------------------------------------- fixed world

var c33HashSlots = [2]uint16{3, 35} // same directory shard (ShardCount 4)

const (
	c33LocalNode    = 1
	c33TTL          = time.Second
	c33BaseRevision = 5 // RouteRevision of every become(slot,term) announcement
)

// c33RevCap bounds, per hash slot, how many revision-only updates ("rev") of one authority
// incarnation are remembered in the merged state. A rev changes nothing in the model, so
// without a marker the state after it is merged with the state before it and NO continuation
// of "... ; rev" is ever explored (only its immediate effect is judged): a hidden change of
// the fences made by a revision-only update (e.g. tombstone compaction) would stay invisible.
// The marker is the model state the rev acted on (see canon). Beyond the cap a further rev is
// still executed and judged in every state, but merged.
var c33RevCap [2]int

// vacuity counters: delayed operations carrying exactly the sequence of an earlier
// unregister, executed after a revision-only authority update of the same incarnation.
var c33DelayedRegAfterRev, c33DelayedTouchAfterRev atomic.Int64

type c33ID struct {
	name string
	id   presence.RouteIdentity
	dev  string
	lvl  uint8
}

// uid a is connected through two owner nodes (a1 master level, a2 slave level on another
// device: a1 arriving conflicts with a2, a2 arriving does not conflict with a1); uid b
// through owner 1 only. Same session number everywhere so that ordering needs the owner id.
var c33IDs = []c33ID{
	{"a1", presence.RouteIdentity{UID: "a", OwnerNodeID: 1, OwnerBootID: 1, SessionID: 7}, "d1", 1},
	{"a2", presence.RouteIdentity{UID: "a", OwnerNodeID: 2, OwnerBootID: 1, SessionID: 7}, "d2", 0},
	{"b1", presence.RouteIdentity{UID: "b", OwnerNodeID: 1, OwnerBootID: 1, SessionID: 7}, "d1", 1},
}

// identities usable on each slot (slot 1 is there for cross-slot isolation and fencing)
var c33SlotIDs = [2][]int{{0, 1, 2}, {0}}

func c33Route(i int, seq uint64, connected, lastSeen int64) presence.Route {
	d := c33IDs[i]
	return presence.Route{UID: d.id.UID, OwnerNodeID: d.id.OwnerNodeID, OwnerBootID: d.id.OwnerBootID, OwnerSeq: seq, SessionID: d.id.SessionID,
		DeviceID: d.dev, DeviceFlag: 1, DeviceLevel: d.lvl, Listener: "tcp", ConnectedUnix: connected, LastSeenUnix: lastSeen}
}

func c33Target(slot int, term uint64) presence.RouteTarget {
	return presence.RouteTarget{HashSlot: c33HashSlots[slot], SlotID: uint32(10 + slot), LeaderNodeID: c33LocalNode, LeaderTerm: term, ConfigEpoch: 1, RouteRevision: 5, AuthorityEpoch: 1}
}

// c33Valid is the target callers use: the installed identity with different diagnostic
// fields (RouteRevision / AuthorityEpoch are not part of the fence, Appendix D).
func c33Valid(slot int, term uint64, variant int) presence.RouteTarget {
	t := c33Target(slot, term)
	switch variant % 3 {
	case 1:
		t.RouteRevision, t.AuthorityEpoch = 0, 9
	case 2:
		t.RouteRevision, t.AuthorityEpoch = 77, 0
	}
	return t
}

type c33Stale struct {
	name string
	t    presence.RouteTarget
}

// c33StaleTargets lists every target of the menu that does NOT match the authority
// installed on the slot (installedTerm 0 = none installed).
func c33StaleTargets(slot int, installedTerm uint64) []c33Stale {
	var out []c33Stale
	for _, term := range []uint64{1, 2, 3} {
		if term != installedTerm {
			out = append(out, c33Stale{fmt.Sprintf("term%d", term), c33Target(slot, term)})
		}
	}
	if installedTerm != 0 {
		t := c33Target(slot, installedTerm)
		t.ConfigEpoch = 2
		out = append(out, c33Stale{"other-config-epoch", t})
		t = c33Target(slot, installedTerm)
		t.LeaderNodeID = 2
		out = append(out, c33Stale{"other-leader-node", t})
		t = c33Target(slot, installedTerm)
		t.SlotID += 100
		out = append(out, c33Stale{"other-slot-id", t})
		t = c33Target(slot, installedTerm)
		t.LeaderTerm = 0
		out = append(out, c33Stale{"term0", t})
	}
	return out
}

// ---------------------------------------------------------------- reference model

type c33Pending struct {
	token     string
	route     presence.Route
	conflicts []presence.RouteIdentity
}

type c33Slot struct {
	term     uint64 // 0 = no authority installed
	revs     int    // remembered revision-only updates of this incarnation (capped)
	revMark  string // the model state each remembered update acted on (part of the merged state)
	revSent  uint64 // highest RouteRevision announced for this incarnation (the model owns the value)
	active   map[presence.RouteIdentity]presence.Route
	pending  []c33Pending
	ownerSeq map[presence.RouteIdentity]uint64
	tomb     map[presence.RouteIdentity]uint64
	nextID   uint64
}

func c33Fresh(term uint64) *c33Slot {
	return &c33Slot{term: term, revSent: c33BaseRevision, active: map[presence.RouteIdentity]presence.Route{}, ownerSeq: map[presence.RouteIdentity]uint64{}, tomb: map[presence.RouteIdentity]uint64{}}
}

func c33LessID(l, r presence.RouteIdentity) bool {
	if l.UID != r.UID {
		return l.UID < r.UID
	}
	if l.SessionID != r.SessionID {
		return l.SessionID < r.SessionID
	}
	if l.OwnerNodeID != r.OwnerNodeID {
		return l.OwnerNodeID < r.OwnerNodeID
	}
	return l.OwnerBootID < r.OwnerBootID
}

func c33Normalize(r presence.Route) presence.Route {
	if r.LastSeenUnix == 0 {
		r.LastSeenUnix = r.ConnectedUnix
	}
	return r
}

func c33Conflicts(in, ex presence.Route) bool {
	if in.UID != ex.UID || in.DeviceFlag != ex.DeviceFlag {
		return false
	}
	switch in.DeviceLevel {
	case 1:
		return true
	case 0:
		return in.DeviceID == ex.DeviceID
	}
	return false
}

func (s *c33Slot) conflictsOf(r presence.Route) []presence.RouteIdentity {
	var out []presence.RouteIdentity
	for k, ex := range s.active {
		if k != r.Identity() && c33Conflicts(r, ex) {
			out = append(out, k)
		}
	}
	sort.Slice(out, func(i, j int) bool { return c33LessID(out[i], out[j]) })
	return out
}

func (s *c33Slot) fenced(r presence.Route) bool {
	k := r.Identity()
	if t, ok := s.tomb[k]; ok && r.OwnerSeq <= t {
		return true
	}
	return r.OwnerSeq < s.ownerSeq[k]
}

// register returns (pending token, number of owner actions, error)
func (s *c33Slot) register(r presence.Route) (string, []presence.RouteAction, error) {
	if s.fenced(r) {
		return "", nil, presence.ErrStaleRoute
	}
	s.ownerSeq[r.Identity()] = r.OwnerSeq
	r = c33Normalize(r)
	cf := s.conflictsOf(r)
	if len(cf) == 0 {
		s.active[r.Identity()] = r
		return "", nil, nil
	}
	s.nextID++
	tok := fmt.Sprint(s.nextID)
	s.pending = append(s.pending, c33Pending{token: tok, route: r, conflicts: cf})
	var acts []presence.RouteAction
	for _, k := range cf {
		kind := "close"
		if r.DeviceLevel == 1 && r.DeviceID != s.active[k].DeviceID {
			kind = "kick_then_close"
		}
		acts = append(acts, presence.RouteAction{UID: k.UID, OwnerNodeID: k.OwnerNodeID, OwnerBootID: k.OwnerBootID, SessionID: k.SessionID, Kind: kind, Reason: "presence_conflict"})
	}
	return tok, acts, nil
}

func (s *c33Slot) dropPending(token string) (c33Pending, bool) {
	for i, p := range s.pending {
		if p.token == token {
			s.pending = append(s.pending[:i:i], s.pending[i+1:]...)
			return p, true
		}
	}
	return c33Pending{}, false
}

func (s *c33Slot) commit(token string) error {
	var p c33Pending
	found := false
	for _, q := range s.pending {
		if q.token == token {
			p, found = q, true
		}
	}
	if !found {
		return presence.ErrRouteNotReady
	}
	if s.fenced(p.route) {
		s.dropPending(token)
		return presence.ErrStaleRoute
	}
	ack := map[presence.RouteIdentity]bool{}
	for _, k := range p.conflicts {
		ack[k] = true
	}
	for _, k := range s.conflictsOf(p.route) {
		if !ack[k] {
			return presence.ErrRouteNotReady
		}
	}
	for _, k := range p.conflicts {
		delete(s.active, k)
	}
	s.active[p.route.Identity()] = p.route
	s.dropPending(token)
	return nil
}

func (s *c33Slot) abort(token string) error {
	if _, ok := s.dropPending(token); !ok {
		return presence.ErrRouteNotReady
	}
	return nil
}

func (s *c33Slot) unregister(k presence.RouteIdentity, seq uint64) {
	if seq > s.tomb[k] {
		s.tomb[k] = seq
	}
	if seq > s.ownerSeq[k] {
		s.ownerSeq[k] = seq
	}
	if ex, ok := s.active[k]; ok && ex.OwnerSeq <= seq {
		delete(s.active, k)
	}
	kept := s.pending[:0:0]
	for _, p := range s.pending {
		if p.route.Identity() == k && p.route.OwnerSeq <= seq {
			continue
		}
		kept = append(kept, p)
	}
	s.pending = kept
}

func (s *c33Slot) touch(r presence.Route) {
	if r.UID == "" || s.fenced(r) {
		return
	}
	k := r.Identity()
	s.ownerSeq[k] = r.OwnerSeq
	r = c33Normalize(r)
	if ex, ok := s.active[k]; ok {
		if r.LastSeenUnix < ex.LastSeenUnix {
			r.LastSeenUnix = ex.LastSeenUnix
		}
		s.active[k] = r
		return
	}
	if len(s.conflictsOf(r)) != 0 {
		return
	}
	s.active[k] = r
}

// expire removes routes idle for strictly longer than ttl; returns how many.
func (s *c33Slot) expire(now int64, ttl int64) int {
	n := 0
	for k, r := range s.active {
		if r.LastSeenUnix != 0 && r.LastSeenUnix+ttl < now {
			delete(s.active, k)
			n++
		}
	}
	return n
}

func (s *c33Slot) routesOf(uid string) []presence.Route {
	var out []presence.Route
	for k, r := range s.active {
		if k.UID == uid {
			out = append(out, r)
		}
	}
	sort.Slice(out, func(i, j int) bool { return c33LessID(out[i].Identity(), out[j].Identity()) })
	return out
}

func (s *c33Slot) buckets() int {
	seen := map[int64]bool{}
	for _, r := range s.active {
		if r.LastSeenUnix != 0 {
			seen[r.LastSeenUnix] = true
		}
	}
	return len(seen)
}

func c33RouteStr(r presence.Route) string {
	return fmt.Sprintf("%s/n%d/s%d#%d[%s,l%d,c%d,t%d]", r.UID, r.OwnerNodeID, r.SessionID, r.OwnerSeq, r.DeviceID, r.DeviceLevel, r.ConnectedUnix, r.LastSeenUnix)
}

func c33RoutesStr(rs []presence.Route) string {
	parts := make([]string, len(rs))
	for i, r := range rs {
		parts[i] = c33RouteStr(r)
	}
	return "[" + strings.Join(parts, " ") + "]"
}

func (s *c33Slot) canon() string {
	if s == nil || s.term == 0 {
		return "-"
	}
	var b strings.Builder
	fmt.Fprintf(&b, "T%d{", s.term)
	for _, uid := range []string{"a", "b"} {
		b.WriteString(c33RoutesStr(s.routesOf(uid)))
	}
	b.WriteString(" P")
	for _, p := range s.pending {
		fmt.Fprintf(&b, "(%s:%s ack%d)", p.token, c33RouteStr(p.route), len(p.conflicts))
	}
	fmt.Fprintf(&b, " n%d S", s.nextID)
	for _, d := range c33IDs {
		fmt.Fprintf(&b, "%d/", s.ownerSeq[d.id])
		if t, ok := s.tomb[d.id]; ok {
			fmt.Fprintf(&b, "x%d,", t)
		} else {
			b.WriteString("-,")
		}
	}
	b.WriteString("}")
	// A revision-only update changes nothing in the model. The state after it is kept apart
	// from every state reached without it (or with it acting on another state) by remembering
	// WHICH state it acted on: what a hidden side effect of the update (dropping a fence, a
	// candidate, a route index entry) can depend on.
	b.WriteString(s.revMark)
	return b.String()
}

// ---------------------------------------------------------------- instance

// c33Orders remembers, for every (uid, active route set) reached on any path, the route
// order the directory returned first: the same set reached through another insertion
// order must be returned in the same order.
var c33Orders sync.Map

type c33Inst struct {
	d        *presence.Directory
	m        [2]*c33Slot
	touches  uint64 // model of Snapshot.TouchRoutesTotal
	expired  uint64 // model of Snapshot.ExpiredRoutesTotal
	variant  int    // rotates the diagnostic fields of valid targets
	thorough bool
	markRevs bool // system "directory-rev": states after a revision-only update are kept apart (c33RevCap)
}

func c33New(thorough, markRevs bool) *c33Inst {
	return &c33Inst{d: presence.NewDirectory(presence.DirectoryOptions{LocalNodeID: c33LocalNode, ShardCount: 4}), thorough: thorough, markRevs: markRevs}
}

func (x *c33Inst) installed(slot int) bool { return x.m[slot] != nil && x.m[slot].term != 0 }

func (x *c33Inst) valid(slot int) presence.RouteTarget {
	x.variant++
	return c33Valid(slot, x.m[slot].term, x.variant)
}

func (x *c33Inst) Events() []string {
	var evs []string
	for slot := 0; slot < 2; slot++ {
		evs = append(evs, fmt.Sprintf("become(%d,t1)", slot), fmt.Sprintf("become(%d,t2)", slot))
	}
	for slot := 0; slot < 2; slot++ {
		if !x.installed(slot) {
			continue
		}
		for _, i := range c33SlotIDs[slot] {
			n := c33IDs[i].name
			evs = append(evs, fmt.Sprintf("reg(%d,%s,1)", slot, n))
			if slot == 0 {
				evs = append(evs, fmt.Sprintf("reg(%d,%s,2)", slot, n))
			}
			evs = append(evs, fmt.Sprintf("unreg(%d,%s,1)", slot, n))
			if slot == 0 {
				evs = append(evs, fmt.Sprintf("unreg(%d,%s,2)", slot, n))
			}
			evs = append(evs, fmt.Sprintf("touch(%d,%s,1,102)", slot, n))
			if slot == 0 {
				evs = append(evs, fmt.Sprintf("touch(%d,%s,1,100)", slot, n), fmt.Sprintf("touch(%d,%s,2,100)", slot, n))
			}
		}
		if slot == 0 {
			evs = append(evs, "touchall(0,102)")
		}
		for k := range x.m[slot].pending {
			if k < 2 {
				evs = append(evs, fmt.Sprintf("commit(%d,%d)", slot, k), fmt.Sprintf("abort(%d,%d)", slot, k))
			}
		}
	}
	any := x.installed(0) || x.installed(1)
	if any {
		evs = append(evs, "expire(101)", "expire(103)", "expire(104)")
	}
	for slot := 0; slot < 2; slot++ {
		if x.installed(slot) {
			evs = append(evs, fmt.Sprintf("lose(%d)", slot), fmt.Sprintf("rev(%d)", slot))
		}
	}
	return evs
}

func c33IDByName(n string) int {
	for i, d := range c33IDs {
		if d.name == n {
			return i
		}
	}
	return -1
}

func c33ErrName(err error) string {
	switch {
	case err == nil:
		return "ok"
	case errors.Is(err, presence.ErrNotLeader):
		return "not-leader"
	case errors.Is(err, presence.ErrStaleRoute):
		return "stale-route"
	case errors.Is(err, presence.ErrRouteNotReady):
		return "route-not-ready"
	}
	return "error:" + err.Error()
}

// lightProbes runs before every event (also while a path is replayed): every mutating
// operation with one stale target per slot, carrying an owner sequence above the menu.
// A correct directory rejects them without any effect; a directory that lets a fenced
// caller leave a trace (tombstone, owner sequence, route) diverges from the model later.
func (x *c33Inst) lightProbes() error {
	for slot := 0; slot < 2; slot++ {
		var term uint64
		if x.installed(slot) {
			term = x.m[slot].term
		}
		st := c33StaleTargets(slot, term)[0]
		for _, i := range c33SlotIDs[slot] {
			r := c33Route(i, 3, 100, 104)
			if _, err := x.d.RegisterRoute(st.t, r); !errors.Is(err, presence.ErrNotLeader) {
				return mc.Violatef("C33:stale-target-accepted:register", "RegisterRoute with stale target %s on slot %d returned %s", st.name, slot, c33ErrName(err))
			}
			if err := x.d.TouchRoutes(st.t, []presence.Route{r}); !errors.Is(err, presence.ErrNotLeader) {
				return mc.Violatef("C33:stale-target-accepted:touch", "TouchRoutes with stale target %s on slot %d returned %s", st.name, slot, c33ErrName(err))
			}
			if err := x.d.UnregisterRoute(st.t, c33IDs[i].id, 3); !errors.Is(err, presence.ErrNotLeader) {
				return mc.Violatef("C33:stale-target-accepted:unregister", "UnregisterRoute with stale target %s on slot %d returned %s", st.name, slot, c33ErrName(err))
			}
		}
		toks := []presence.PendingRouteToken{"1"}
		if x.installed(slot) {
			for _, p := range x.m[slot].pending {
				toks = append(toks, presence.PendingRouteToken(p.token))
			}
		}
		for _, tok := range toks {
			if err := x.d.CommitRoute(st.t, tok); !errors.Is(err, presence.ErrNotLeader) {
				return mc.Violatef("C33:stale-target-accepted:commit", "CommitRoute with stale target %s on slot %d returned %s", st.name, slot, c33ErrName(err))
			}
			if err := x.d.AbortRoute(st.t, tok); !errors.Is(err, presence.ErrNotLeader) {
				return mc.Violatef("C33:stale-target-accepted:abort", "AbortRoute with stale target %s on slot %d returned %s", st.name, slot, c33ErrName(err))
			}
		}
	}
	return nil
}

// c33Op is a parsed event label (labels are parsed once and cached).
type c33Op struct {
	kind      string
	slot, k   int
	term, seq uint64
	name      string
	seen, now int64
}

var c33Ops sync.Map

func c33Parse(event string) c33Op {
	if v, ok := c33Ops.Load(event); ok {
		return v.(c33Op)
	}
	var o c33Op
	switch {
	case c33Scan(event, "become(%d,t%d)", &o.slot, &o.term):
		o.kind = "become"
	case c33Scan(event, "rev(%d)", &o.slot):
		o.kind = "rev"
	case c33Scan(event, "lose(%d)", &o.slot):
		o.kind = "lose"
	case c33ScanReg(event, "reg", &o.slot, &o.name, &o.seq):
		o.kind = "reg"
	case c33ScanReg(event, "unreg", &o.slot, &o.name, &o.seq):
		o.kind = "unreg"
	case c33ScanTouch(event, &o.slot, &o.name, &o.seq, &o.seen):
		o.kind = "touch"
	case c33Scan(event, "touchall(%d,%d)", &o.slot, &o.seen):
		o.kind = "touchall"
	case c33Scan(event, "commit(%d,%d)", &o.slot, &o.k):
		o.kind = "commit"
	case c33Scan(event, "abort(%d,%d)", &o.slot, &o.k):
		o.kind = "abort"
	case c33Scan(event, "expire(%d)", &o.now):
		o.kind = "expire"
	}
	c33Ops.Store(event, o)
	return o
}

func (x *c33Inst) Apply(event string, _ *mc.Env) (string, error) {
	if err := x.lightProbes(); err != nil {
		return "probe", err
	}
	o := c33Parse(event)
	slot, k, term, seq, name, seen, now := o.slot, o.k, o.term, o.seq, o.name, o.seen, o.now
	switch o.kind {
	case "become":
		x.d.BecomeAuthority(c33Target(slot, term))
		if !x.installed(slot) || x.m[slot].term != term {
			x.m[slot] = c33Fresh(term)
		}
		return "become", nil
	case "rev":
		// same Raft identity, STRICTLY newer routing-table revision (revision-only update):
		// routes, pending candidates, owner sequences and tombstones must all be kept
		m := x.m[slot]
		m.revSent++
		t := c33Target(slot, m.term)
		t.RouteRevision = m.revSent
		t.AuthorityEpoch = 2
		x.d.BecomeAuthority(t)
		// the same revision announced again (equal revision, other diagnostic epoch): kept too
		t.AuthorityEpoch = 3
		x.d.BecomeAuthority(t)
		// and an older revision of the same identity arriving late: ignored
		t.RouteRevision = 1
		x.d.BecomeAuthority(t)
		if x.markRevs && m.revs < c33RevCap[slot] {
			m.revs++
			m.revMark = "@rev[" + m.canon() + "]"
		}
		return "rev", nil
	case "lose":
		x.d.LoseAuthority(c33HashSlots[slot])
		x.m[slot] = nil
		return "lose", nil
	case "reg":
		i := c33IDByName(name)
		connected := int64(100)
		if seq == 2 {
			connected = 102
		}
		r := c33Route(i, seq, connected, 0)
		res, err := x.d.RegisterRoute(x.valid(slot), r)
		wasTomb, hasTomb := x.m[slot].tomb[r.Identity()]
		if hasTomb && seq == wasTomb && x.m[slot].revSent > c33BaseRevision {
			c33DelayedRegAfterRev.Add(1)
		}
		tok, acts, werr := x.m[slot].register(r)
		if hasTomb && seq <= wasTomb && err == nil {
			return "reg", mc.Violatef("C33:register-accepted-at-or-below-unregister-seq", "slot %d: RegisterRoute(%s, seq %d) accepted although the identity was unregistered at seq %d (result %+v)", slot, name, seq, wasTomb, res)
		}
		if c33ErrName(err) != c33ErrName(werr) {
			return "reg", mc.Violatef("C33:register-result-differs-from-model", "slot %d: RegisterRoute(%s, seq %d) returned %s, model %s", slot, name, seq, c33ErrName(err), c33ErrName(werr))
		}
		if string(res.PendingToken) != tok || !c33SameActions(res.Actions, acts) {
			return "reg", mc.Violatef("C33:register-conflict-result-differs-from-model", "slot %d: RegisterRoute(%s, seq %d) returned token %q actions %+v, model token %q actions %+v", slot, name, seq, res.PendingToken, res.Actions, tok, acts)
		}
		switch {
		case err != nil:
			return "reg:" + c33ErrName(err), nil
		case tok != "":
			return fmt.Sprintf("reg:pending(%d actions,%s)", len(acts), acts[0].Kind), nil
		}
		return "reg:active", nil
	case "unreg":
		i := c33IDByName(name)
		err := x.d.UnregisterRoute(x.valid(slot), c33IDs[i].id, seq)
		x.m[slot].unregister(c33IDs[i].id, seq)
		if err != nil {
			return "unreg", mc.Violatef("C33:unregister-with-current-target-rejected", "slot %d: UnregisterRoute(%s, seq %d) with the installed target returned %s", slot, name, seq, c33ErrName(err))
		}
		return "unreg", nil
	case "touch":
		i := c33IDByName(name)
		r := c33Route(i, seq, 100, seen)
		err := x.d.TouchRoutes(x.valid(slot), []presence.Route{r})
		if t, ok := x.m[slot].tomb[r.Identity()]; ok && seq == t && x.m[slot].revSent > c33BaseRevision {
			c33DelayedTouchAfterRev.Add(1)
		}
		x.m[slot].touch(r)
		x.touches++
		if err != nil {
			return "touch", mc.Violatef("C33:touch-with-current-target-rejected", "slot %d: TouchRoutes(%s) with the installed target returned %s", slot, name, c33ErrName(err))
		}
		return "touch", nil
	case "touchall":
		// one heartbeat batch: every identity at its latest owner sequence (1 if never seen), plus an entry without uid
		var batch []presence.Route
		for _, i := range c33SlotIDs[slot] {
			s := x.m[slot].ownerSeq[c33IDs[i].id]
			if s == 0 {
				s = 1
			}
			batch = append(batch, c33Route(i, s, 100, seen))
		}
		batch = append(batch, presence.Route{OwnerNodeID: 1, OwnerBootID: 1, SessionID: 9, OwnerSeq: 1, LastSeenUnix: seen})
		err := x.d.TouchRoutes(x.valid(slot), batch)
		for _, r := range batch {
			x.m[slot].touch(r)
		}
		x.touches += uint64(len(batch))
		if err != nil {
			return "touchall", mc.Violatef("C33:touch-with-current-target-rejected", "slot %d: TouchRoutes(batch) with the installed target returned %s", slot, c33ErrName(err))
		}
		return "touchall", nil
	case "commit":
		tok := x.m[slot].pending[k].token
		err := x.d.CommitRoute(x.valid(slot), presence.PendingRouteToken(tok))
		werr := x.m[slot].commit(tok)
		if c33ErrName(err) != c33ErrName(werr) {
			return "commit", mc.Violatef("C33:commit-result-differs-from-model", "slot %d: CommitRoute(%s) returned %s, model %s", slot, tok, c33ErrName(err), c33ErrName(werr))
		}
		return "commit:" + c33ErrName(err), nil
	case "abort":
		tok := x.m[slot].pending[k].token
		err := x.d.AbortRoute(x.valid(slot), presence.PendingRouteToken(tok))
		werr := x.m[slot].abort(tok)
		if c33ErrName(err) != c33ErrName(werr) {
			return "abort", mc.Violatef("C33:abort-result-differs-from-model", "slot %d: AbortRoute(%s) returned %s, model %s", slot, tok, c33ErrName(err), c33ErrName(werr))
		}
		return "abort:" + c33ErrName(err), nil
	case "expire":
		return x.expire(now)
	}
	return "", fmt.Errorf("c33: unknown event %q", event)
}

// expire: the oracle is computed from the directory's OWN pre-state (read back through
// lookups), not from the model: exactly the routes idle > ttl disappear.
func (x *c33Inst) expire(now int64) (string, error) {
	type rk struct {
		slot int
		id   presence.RouteIdentity
	}
	before := map[rk]presence.Route{}
	for slot := 0; slot < 2; slot++ {
		if !x.installed(slot) {
			continue
		}
		rs, err := x.d.EndpointsByUIDs(c33Target(slot, x.m[slot].term), []string{"a", "b"})
		if err != nil {
			return "expire", mc.Violatef("C33:lookup-with-current-target-rejected", "slot %d: EndpointsByUIDs returned %s", slot, c33ErrName(err))
		}
		for _, r := range rs {
			before[rk{slot, r.Identity()}] = r
		}
	}
	res := x.d.ExpireRoutesDetailed(time.Unix(now, 0), c33TTL)
	wantGone := 0
	for slot := 0; slot < 2; slot++ {
		if !x.installed(slot) {
			continue
		}
		n := x.m[slot].expire(now, int64(c33TTL/time.Second))
		x.expired += uint64(n)
		rs, _ := x.d.EndpointsByUIDs(c33Target(slot, x.m[slot].term), []string{"a", "b"})
		after := map[presence.RouteIdentity]bool{}
		for _, r := range rs {
			after[r.Identity()] = true
			if _, ok := before[rk{slot, r.Identity()}]; !ok {
				return "expire", mc.Violatef("C33:expire-created-route", "slot %d: route %s appeared during expire(now=%d)", slot, c33RouteStr(r), now)
			}
		}
		for k, r := range before {
			if k.slot != slot {
				continue
			}
			idle := now - r.LastSeenUnix
			due := r.LastSeenUnix != 0 && idle > int64(c33TTL/time.Second)
			if due {
				wantGone++
			}
			if due && after[k.id] {
				return "expire", mc.Violatef("C33:expire-kept-idle-route", "slot %d: route %s idle %ds > ttl 1s survived expire(now=%d)", slot, c33RouteStr(r), idle, now)
			}
			if !due && !after[k.id] {
				return "expire", mc.Violatef("C33:expire-removed-live-route", "slot %d: route %s idle %ds <= ttl 1s was removed by expire(now=%d)", slot, c33RouteStr(r), idle, now)
			}
		}
	}
	if res.Expired != wantGone {
		return "expire", mc.Violatef("C33:expire-count-wrong", "expire(now=%d) reported %d expired routes, %d routes were idle > ttl", now, res.Expired, wantGone)
	}
	return fmt.Sprintf("expire:%d", res.Expired), nil
}

func c33SameActions(a, b []presence.RouteAction) bool {
	if len(a) != len(b) {
		return false
	}
	for i := range a {
		if a[i] != b[i] {
			return false
		}
	}
	return true
}

func c33Scan(s, format string, args ...any) bool {
	n, err := fmt.Sscanf(s, format, args...)
	return err == nil && n == len(args) && fmt.Sprintf(format, c33Deref(args)...) == s
}

func c33Deref(args []any) []any {
	out := make([]any, len(args))
	for i, a := range args {
		switch v := a.(type) {
		case *int:
			out[i] = *v
		case *int64:
			out[i] = *v
		case *uint64:
			out[i] = *v
		case *string:
			out[i] = *v
		}
	}
	return out
}

func c33ScanReg(s, op string, slot *int, name *string, seq *uint64) bool {
	if !strings.HasPrefix(s, op+"(") || !strings.HasSuffix(s, ")") {
		return false
	}
	parts := strings.Split(s[len(op)+1:len(s)-1], ",")
	if len(parts) != 3 {
		return false
	}
	if _, err := fmt.Sscan(parts[0], slot); err != nil {
		return false
	}
	*name = parts[1]
	_, err := fmt.Sscan(parts[2], seq)
	return err == nil
}

func c33ScanTouch(s string, slot *int, name *string, seq *uint64, seen *int64) bool {
	if !strings.HasPrefix(s, "touch(") || !strings.HasSuffix(s, ")") {
		return false
	}
	parts := strings.Split(s[len("touch("):len(s)-1], ",")
	if len(parts) != 4 {
		return false
	}
	if _, err := fmt.Sscan(parts[0], slot); err != nil {
		return false
	}
	*name = parts[1]
	if _, err := fmt.Sscan(parts[2], seq); err != nil {
		return false
	}
	_, err := fmt.Sscan(parts[3], seen)
	return err == nil
}

// observe reads the complete observable state back through the API with valid targets.
func (x *c33Inst) observe() (string, error) {
	var b strings.Builder
	for slot := 0; slot < 2; slot++ {
		if !x.installed(slot) {
			b.WriteString("-|")
			continue
		}
		for _, uid := range []string{"a", "b"} {
			rs, err := x.d.EndpointsByUID(x.valid(slot), uid)
			if err != nil {
				return "", mc.Violatef("C33:lookup-with-current-target-rejected", "slot %d: EndpointsByUID(%s) with the installed identity returned %s", slot, uid, c33ErrName(err))
			}
			b.WriteString(c33RoutesStr(rs))
		}
		b.WriteString("|")
	}
	snap := x.d.Snapshot()
	keys := make([]int, 0, len(snap.ByHashSlot))
	for k := range snap.ByHashSlot {
		keys = append(keys, int(k))
	}
	sort.Ints(keys)
	fmt.Fprintf(&b, "active=%d by=", snap.Active)
	for _, k := range keys {
		fmt.Fprintf(&b, "%d:%d,", k, snap.ByHashSlot[uint16(k)])
	}
	fmt.Fprintf(&b, " touches=%d expired=%d index=%d/%d", snap.TouchRoutesTotal, snap.ExpiredRoutesTotal, snap.ExpiryIndexRoutes, snap.ExpiryIndexBuckets)
	return b.String(), nil
}

func (x *c33Inst) modelObserve() string {
	var b strings.Builder
	active, idx, buckets := 0, 0, 0
	by := ""
	for slot := 0; slot < 2; slot++ {
		if !x.installed(slot) {
			b.WriteString("-|")
			continue
		}
		for _, uid := range []string{"a", "b"} {
			b.WriteString(c33RoutesStr(x.m[slot].routesOf(uid)))
		}
		b.WriteString("|")
		n := len(x.m[slot].active)
		active += n
		if n > 0 {
			by += fmt.Sprintf("%d:%d,", c33HashSlots[slot], n)
		}
		idx += n // every menu route carries a timestamp
		buckets += x.m[slot].buckets()
	}
	fmt.Fprintf(&b, "active=%d by=%s touches=%d expired=%d index=%d/%d", active, by, x.touches, x.expired, idx, buckets)
	return b.String()
}

func (x *c33Inst) Check() error {
	pre, err := x.observe()
	if err != nil {
		return err
	}
	// ---- no unregistered identity is visible at or below its unregister sequence (the
	// tombstones are the MODEL's: recorded at every accepted unregister of this authority
	// incarnation, never read from the directory; judged before the generic state comparison
	// so that a reappearing route gets this fingerprint)
	for slot := 0; slot < 2; slot++ {
		if !x.installed(slot) {
			continue
		}
		rs, _ := x.d.EndpointsByUIDs(x.valid(slot), []string{"a", "b"})
		for _, r := range rs {
			if t, ok := x.m[slot].tomb[r.Identity()]; ok && r.OwnerSeq <= t {
				return mc.Violatef("C33:unregistered-route-visible", "slot %d: route %s is active although its identity was unregistered at owner seq %d", slot, c33RouteStr(r), t)
			}
		}
	}
	// ---- the real state is the model state
	if want := x.modelObserve(); pre != want {
		return mc.Violatef("C33:state-differs-from-model", "directory state %s, model %s", pre, want)
	}
	// ---- every operation with every stale target: ErrNotLeader, nothing changes
	for slot := 0; slot < 2; slot++ {
		var term uint64
		if x.installed(slot) {
			term = x.m[slot].term
		}
		for sti, st := range c33StaleTargets(slot, term) {
			fail := func(op string, err error) error {
				return mc.Violatef("C33:stale-target-accepted:"+op, "slot %d: %s with stale target %s (%+v) returned %s, want not-leader", slot, op, st.name, st.t, c33ErrName(err))
			}
			ids := c33SlotIDs[slot]
			if sti >= 2 { // the remaining stale targets: one identity (the fence does not look at the route)
				ids = ids[:1]
			}
			for _, i := range ids {
				r := c33Route(i, 3, 100, 104)
				if _, err := x.d.RegisterRoute(st.t, r); !errors.Is(err, presence.ErrNotLeader) {
					return fail("register", err)
				}
				if err := x.d.TouchRoutes(st.t, []presence.Route{r}); !errors.Is(err, presence.ErrNotLeader) {
					return fail("touch", err)
				}
				if err := x.d.UnregisterRoute(st.t, c33IDs[i].id, 3); !errors.Is(err, presence.ErrNotLeader) {
					return fail("unregister", err)
				}
			}
			toks := []presence.PendingRouteToken{"1", "2"}
			for _, tok := range toks {
				if err := x.d.CommitRoute(st.t, tok); !errors.Is(err, presence.ErrNotLeader) {
					return fail("commit", err)
				}
				if err := x.d.AbortRoute(st.t, tok); !errors.Is(err, presence.ErrNotLeader) {
					return fail("abort", err)
				}
			}
			if rs, err := x.d.EndpointsByUID(st.t, "a"); !errors.Is(err, presence.ErrNotLeader) || len(rs) != 0 {
				return fail("lookup-uid", err)
			}
			if rs, err := x.d.EndpointsByUIDs(st.t, []string{"a", "b"}); !errors.Is(err, presence.ErrNotLeader) || len(rs) != 0 {
				return fail("lookup-uids", err)
			}
			// grouped lookup: the stale group fails alone, the sibling with a valid target (same shard) is served
			groups := []presence.EndpointLookupGroup{{Target: st.t, UIDs: []string{"a", "b"}}}
			other := 1 - slot
			if x.installed(other) {
				groups = append(groups, presence.EndpointLookupGroup{Target: x.valid(other), UIDs: []string{"b", "a"}})
			}
			if x.installed(slot) {
				groups = append(groups, presence.EndpointLookupGroup{Target: x.valid(slot), UIDs: []string{"a", "b"}})
			}
			out := x.d.EndpointsByTargets(groups)
			if len(out) != len(groups) || !errors.Is(out[0].Err, presence.ErrNotLeader) || len(out[0].Routes) != 0 {
				return fail("lookup-targets", out[0].Err)
			}
			for gi := 1; gi < len(groups); gi++ {
				gslot := slot
				if groups[gi].Target.HashSlot != c33HashSlots[slot] {
					gslot = other
				}
				var want []presence.Route
				for _, uid := range groups[gi].UIDs {
					want = append(want, x.m[gslot].routesOf(uid)...)
				}
				if out[gi].Err != nil || c33RoutesStr(out[gi].Routes) != c33RoutesStr(want) {
					return mc.Violatef("C33:grouped-lookup-sibling-of-stale-group-wrong", "slot %d: group with the valid target next to a stale group returned err=%s routes=%s, want %s", gslot, c33ErrName(out[gi].Err), c33RoutesStr(out[gi].Routes), c33RoutesStr(want))
				}
			}
		}
	}
	// ---- expire with a zero time / non-positive ttl is documented as disabled
	if res := x.d.ExpireRoutesDetailed(time.Time{}, c33TTL); res.Expired != 0 {
		return mc.Violatef("C33:expire-with-zero-time-removed-routes", "ExpireRoutesDetailed(zero time) removed %d routes", res.Expired)
	}
	post, err := x.observe()
	if err != nil {
		return err
	}
	if post != pre {
		return mc.Violatef("C33:stale-target-changed-state", "state before the rejected operations %s, after %s", pre, post)
	}
	// ---- lookups are deterministic: repeated calls, the three lookup APIs, and the same
	// route set reached through other insertion orders
	for slot := 0; slot < 2; slot++ {
		if !x.installed(slot) {
			continue
		}
		for _, uid := range []string{"a", "b"} {
			first, _ := x.d.EndpointsByUID(x.valid(slot), uid)
			fs := c33RoutesStr(first)
			for rep := 0; rep < 3; rep++ {
				again, _ := x.d.EndpointsByUID(x.valid(slot), uid)
				if s := c33RoutesStr(again); s != fs {
					return mc.Violatef("C33:lookup-order-unstable:repeated-call", "slot %d uid %s: EndpointsByUID returned %s then %s", slot, uid, fs, s)
				}
			}
			multi, _ := x.d.EndpointsByUIDs(x.valid(slot), []string{uid})
			if s := c33RoutesStr(multi); s != fs {
				return mc.Violatef("C33:lookup-order-unstable:across-apis", "slot %d uid %s: EndpointsByUID %s, EndpointsByUIDs %s", slot, uid, fs, s)
			}
			grouped := x.d.EndpointsByTargets([]presence.EndpointLookupGroup{{Target: x.valid(slot), UIDs: []string{uid}}})
			if s := c33RoutesStr(grouped[0].Routes); grouped[0].Err != nil || s != fs {
				return mc.Violatef("C33:lookup-order-unstable:across-apis", "slot %d uid %s: EndpointsByUID %s, EndpointsByTargets %s (err %s)", slot, uid, fs, s, c33ErrName(grouped[0].Err))
			}
			if len(first) > 1 {
				ids := make([]string, len(first))
				for i, r := range first {
					ids[i] = fmt.Sprintf("n%d", r.OwnerNodeID)
				}
				sorted := append([]string(nil), ids...)
				sort.Strings(sorted)
				setKey := uid + ":" + strings.Join(sorted, ",")
				order := strings.Join(ids, ",")
				if prev, loaded := c33Orders.LoadOrStore(setKey, order); loaded && prev.(string) != order {
					return mc.Violatef("C33:lookup-order-depends-on-history", "slot %d uid %s: the same route identities were returned as [%s] on another path and as [%s] here", slot, uid, prev, order)
				}
			}
		}
		ab, _ := x.d.EndpointsByUIDs(x.valid(slot), []string{"a", "b"})
		ba, _ := x.d.EndpointsByUIDs(x.valid(slot), []string{"b", "a"})
		wantAB := append(x.m[slot].routesOf("a"), x.m[slot].routesOf("b")...)
		wantBA := append(x.m[slot].routesOf("b"), x.m[slot].routesOf("a")...)
		if c33RoutesStr(ab) != c33RoutesStr(wantAB) || c33RoutesStr(ba) != c33RoutesStr(wantBA) {
			return mc.Violatef("C33:lookup-not-in-uid-input-order", "slot %d: EndpointsByUIDs([a b])=%s ([b a])=%s, want %s and %s", slot, c33RoutesStr(ab), c33RoutesStr(ba), c33RoutesStr(wantAB), c33RoutesStr(wantBA))
		}
	}
	return nil
}

func (x *c33Inst) Canon() string {
	return x.m[0].canon() + "||" + x.m[1].canon()
}

// ---------------------------------------------------------------- test entry

func TestVerifC33(t *testing.T) {
	r := ev.Start(t, "C33")
	defer r.Finish()
	thorough := r.Thorough()
	c33RevCap = ev.Pick(r, [2]int{1, 1}, [2]int{2, 1})
	run := func(name string, markRevs bool, depth int, merge string) mc.Result {
		bounds := map[string]any{"hash_slots": c33HashSlots, "identities": "a1 (uid a, owner 1, master), a2 (uid a, owner 2, slave, other device), b1 (uid b, owner 1); slot 1 carries a1 only",
			"owner_seq_menu": "1,2 (probes with stale targets use 3); register, touch and unregister all draw from the same menu, so delayed registers/touches carry exactly the sequence of an earlier unregister", "timestamps": "connected/last-seen 100 or 102, expire now in {101,103,104}, ttl 1s",
			"authority_menu":    "terms 1,2 per slot (become newer and older), lose, rev = revision-only update of the installed identity (strictly higher RouteRevision, then the equal revision again, then a late older one)",
			"stale_target_menu": "terms 1..3 except the installed one, term 0, other config epoch, other leader node, other slot id"}
		if markRevs {
			bounds["revision_updates_remembered"] = fmt.Sprintf("%v per authority incarnation of slot 0/1", c33RevCap)
		}
		return mc.Run(r, mc.System{
			Name:     name,
			New:      func() mc.Instance { return c33New(thorough, markRevs) },
			MaxDepth: depth,
			Bounds:   bounds,
			Note:     "states are merged on the reference model (authority term, active routes with all fields, pending candidates with tokens, owner sequences, tombstones, token counter per slot" + merge + "); the directory's observable state is compared with the model in every state, and light stale-target probes run before every event so that a trace left by a fenced caller propagates along the path",
		})
	}
	// directory-rev (both tiers): a revision-only authority update changes nothing in the
	// model, so the state after it is kept apart by remembering the model state it acted on;
	// every continuation of "... ; rev" up to the depth bound is explored (delayed register /
	// touch at exactly the sequence of an earlier unregister, commit of an older candidate ...).
	// At equal depth its explored states refine those of the plain system below.
	revRes := run("directory-rev", true, ev.Pick(r, 5, 6), ", plus, for each remembered revision-only update, the model state that update acted on")
	// directory (thorough only, deeper): revision-only updates are executed and judged in
	// every state but their successor is merged with the state before them.
	var plainRes mc.Result
	if thorough || r.Replay() != nil {
		plainRes = run("directory", false, 8, "")
	}
	if r.Replay() != nil {
		return
	}
	r.Guard("states", revRes.States >= 2000 && (!thorough || plainRes.States >= 2000), "%d / %d states", revRes.States, plainRes.States)
	r.Guard("delayed-register-after-rev", c33DelayedRegAfterRev.Load() >= 10, "%d RegisterRoute calls at exactly the sequence of an earlier unregister after a revision-only authority update", c33DelayedRegAfterRev.Load())
	r.Guard("delayed-touch-after-rev", c33DelayedTouchAfterRev.Load() >= 10, "%d TouchRoutes calls at exactly the sequence of an earlier unregister after a revision-only authority update", c33DelayedTouchAfterRev.Load())
	r.Count("delayed_register_at_unregister_seq_after_rev_incl_replayed_prefixes", c33DelayedRegAfterRev.Load())
	r.Count("delayed_touch_at_unregister_seq_after_rev_incl_replayed_prefixes", c33DelayedTouchAfterRev.Load())
	r.Guard("outcomes", revRes.Outcomes >= 12, "%d distinct observations (want register active/pending/stale, commit ok/stale/not-ready, expire 0..n ...)", revRes.Outcomes)
	r.Assume("authority identity = (HashSlot, SlotID, LeaderNodeID, LeaderTerm, ConfigEpoch); RouteRevision and AuthorityEpoch are diagnostic and not part of the fence (sameAuthorityIdentity, DESIGN Appendix D): valid-target calls rotate them")
	r.Assume("tombstones and owner sequences belong to one authority incarnation: BecomeAuthority with another identity and LoseAuthority clear them by design (FLOW.md); 'never reappears at or below its unregister sequence' is demanded within an incarnation")
	r.Assume("every menu route carries a non-zero timestamp (routes without activity time are never indexed for expiry by design); ttl <= 0 and a zero 'now' disable expiry by design and are only checked to remove nothing")
	r.Assume("TTL boundary: a route is idle for longer than the ttl iff lastSeen + ttl < now in whole seconds (deadline equal to now stays)")
}
